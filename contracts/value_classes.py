"""Generated eq/hash/serialisation laws for the simple value classes (serves C06 and C12).
See pyvc/structs.py for the laws; the class list and the laws claimed per class are below."""
from pyvc.api import *

ALL = ['eq-refl', 'eq-sym', 'eq=>hash', 'eq=>dict', 'roundtrip']
EQH = ['eq-refl', 'eq-sym', 'eq=>hash']

SPECS = {
    'src/pharmpy/model/statements.py': {
        'Assignment': ALL, 'Bolus': ALL, 'Infusion': ALL, 'Compartment': EQH,
    },
    'src/pharmpy/model/random_variables.py': {'VariabilityLevel': EQH + ['eq=>dict']},
    'src/pharmpy/model/distributions/symbolic.py': {
        'NormalDistribution': ALL, 'JointNormalDistribution': ALL,
    },
    'src/pharmpy/model/datainfo.py': {'ColumnInfo': EQH},
    'src/pharmpy/model/execution_steps.py': {
        'ExecutionStep': ['eq=>hash'], 'EstimationStep': EQH, 'SimulationStep': EQH,
    },
}

TRUSTED = [
    'leaf laws: == on a field value is an equivalence modelled by z3 equality; equal values have equal '
    'hashes; hash(tuple) is a function of the element hashes; deserialize(serialize(v)) == v; '
    'tuple(v) == v for tuple-valued fields',
    'the JSON layer (tuple -> list, keys -> str) is not part of these obligations: bounded check '
    'contracts/b_structs.py',
]

MODULES_HERE = []
for path, classes in SPECS.items():
    M = ModuleSpec(path, prop='C06')
    M.exec_class = 'struct'
    MODULES_HERE.append(M)
    for cls, laws in classes.items():
        c = M.contract(cls, params={})
        c.struct = laws
    try:
        import z3  # noqa: F401
        from pyvc import structs
        structs.install(M, list(classes))
    except ImportError:
        pass
