"""Bounded contract checks for C01 / C02: NM-TRAN <-> pharmpy model IR.

Every check evaluates a contract taken from the property statement on the REAL pharmpy code over an
exhaustively enumerated finite domain (no sampling).  The references in this file (NM-TRAN abbreviated
code interpreter, $THETA/$OMEGA reader, PREDPP ADVAN/TRANS table, sympy evaluator) are written
independently of pharmpy.

  bounded_abbreviated_code   NM-TRAN abbreviated code ($PRED) -> statements        (C01)
  bounded_omega_theta_parse  $THETA/$OMEGA/$SIGMA -> parameters, random variables (C01)
  bounded_advan_trans        $SUBROUTINE ADVANn TRANSm -> compartmental system     (C01)
  bounded_codegen_roundtrip  transformed model -> NONMEM code -> model             (C02)
"""

import cmath
import itertools
import math
import os
import re
import warnings

warnings.filterwarnings('ignore')

NPROC = 16

CODE_RECORD = 'src/pharmpy/model/external/nonmem/records/code_record.py'
FID_PARSE_TREE = CODE_RECORD + ':_parse_tree'
FID_EXPR = CODE_RECORD + ':ExpressionInterpreter'


# --------------------------------------------------------------------------------------------------
# Reference: NM-TRAN abbreviated code (sequential Fortran semantics)
# --------------------------------------------------------------------------------------------------

SMALLZ = 2.8e-103  # NONMEM's SMALLZ constant used by the protected functions


class RefUndefined(Exception):
    """A symbol was read before being assigned (no NM-TRAN meaning)."""


class RefDomain(Exception):
    """Arithmetic outside of the real double range/domain (overflow, 0 division, complex)."""


class RefSyntax(Exception):
    pass


_TOKEN_RE = re.compile(
    r'''\s*(?:
    (?P<num>(?:\d+(?:\.(?![A-Za-z]+\.)\d*)?|\.\d+)(?:[EeDd][+-]?\d+)?)
  | (?P<dot>\.(?:EQ|NE|GT|GE|LT|LE|AND|OR|NOT)\.)
  | (?P<name>[A-Za-z_][A-Za-z0-9_]*)
  | (?P<op>\*\*|==|/=|>=|<=|[-+*/()<>,=])
    )''',
    re.X | re.I,
)

_REL = {
    '.EQ.': 'eq', '==': 'eq', '.NE.': 'ne', '/=': 'ne', '.GT.': 'gt', '>': 'gt',
    '.GE.': 'ge', '>=': 'ge', '.LT.': 'lt', '<': 'lt', '.LE.': 'le', '<=': 'le',
}


def ref_tokenize(s):
    toks = []
    pos = 0
    s = s.rstrip()
    while pos < len(s):
        m = _TOKEN_RE.match(s, pos)
        if not m or m.end() == pos:
            raise RefSyntax(f'cannot tokenize {s[pos:]!r}')
        pos = m.end()
        if m.group('num') is not None:
            toks.append(('num', float(m.group('num').upper().replace('D', 'E'))))
        elif m.group('dot') is not None:
            toks.append(('op', m.group('dot').upper()))
        elif m.group('name') is not None:
            toks.append(('name', m.group('name').upper()))
        else:
            toks.append(('op', m.group('op')))
    return toks


class _P:
    """Recursive descent parser following the Fortran 77 expression grammar."""

    def __init__(self, toks):
        self.t = toks
        self.i = 0

    def peek(self):
        return self.t[self.i] if self.i < len(self.t) else (None, None)

    def next(self):
        tok = self.peek()
        self.i += 1
        return tok

    def accept(self, kind, val=None):
        k, v = self.peek()
        if k == kind and (val is None or v == val):
            self.i += 1
            return True
        return False

    def expect(self, kind, val=None):
        if not self.accept(kind, val):
            raise RefSyntax(f'expected {val or kind} at {self.t[self.i:]}')

    # arithmetic: expr := [sign] term {addop term}; term := factor {mulop factor};
    # factor := primary ['**' factor]   (a leading sign applies to the whole first TERM)
    def expr(self):
        if self.accept('op', '-'):
            left = ('neg', self.term())
        elif self.accept('op', '+'):
            left = self.term()
        else:
            left = self.term()
        while True:
            if self.accept('op', '+'):
                left = ('add', left, self.term())
            elif self.accept('op', '-'):
                left = ('sub', left, self.term())
            else:
                return left

    def term(self):
        left = self.factor()
        while True:
            if self.accept('op', '*'):
                left = ('mul', left, self.factor())
            elif self.accept('op', '/'):
                left = ('div', left, self.factor())
            else:
                return left

    def factor(self):
        base = self.primary()
        if self.accept('op', '**'):
            return ('pow', base, self.factor())
        return base

    def primary(self):
        k, v = self.next()
        if k == 'num':
            return ('num', v)
        if k == 'name':
            if self.accept('op', '('):
                args = [self.expr()]
                while self.accept('op', ','):
                    args.append(self.expr())
                self.expect('op', ')')
                return ('call', v, args)
            return ('var', v)
        if k == 'op' and v == '(':
            e = self.expr()
            self.expect('op', ')')
            return e
        raise RefSyntax(f'unexpected {v!r}')

    # logical: lexpr := lterm {.OR. lterm}; lterm := lfactor {.AND. lfactor};
    # lfactor := [.NOT.] lprimary ; lprimary := expr relop expr | '(' lexpr ')'
    def lexpr(self):
        left = self.lterm()
        while self.accept('op', '.OR.'):
            left = ('or', left, self.lterm())
        return left

    def lterm(self):
        left = self.lfactor()
        while self.accept('op', '.AND.'):
            left = ('and', left, self.lfactor())
        return left

    def lfactor(self):
        if self.accept('op', '.NOT.'):
            return ('not', self.lprimary())
        return self.lprimary()

    def lprimary(self):
        save = self.i
        try:
            a = self.expr()
            k, v = self.peek()
            if k == 'op' and v in _REL:
                self.i += 1
                b = self.expr()
                return (_REL[v], a, b)
            raise RefSyntax('no relational operator')
        except RefSyntax:
            self.i = save
        self.expect('op', '(')
        e = self.lexpr()
        self.expect('op', ')')
        return e


def _fortran_mod(a, p):
    if p == 0:
        raise RefDomain('MOD by zero')
    return a - math.trunc(a / p) * p


def _chk(x):
    if isinstance(x, complex) or x != x or x in (math.inf, -math.inf):
        raise RefDomain('not a finite real')
    return x


def _dom(f):
    def g(*a):
        try:
            return _chk(f(*a))
        except (ValueError, OverflowError, ZeroDivisionError):
            raise RefDomain(f'{a}')

    return g


REF_FUNCS = {
    'EXP': math.exp, 'DEXP': math.exp,
    'LOG': math.log, 'DLOG': math.log, 'ALOG': math.log,
    'LOG10': math.log10, 'DLOG10': math.log10, 'ALOG10': math.log10,
    'SQRT': math.sqrt, 'DSQRT': math.sqrt,
    'SIN': math.sin, 'DSIN': math.sin, 'COS': math.cos, 'DCOS': math.cos,
    'TAN': math.tan, 'DTAN': math.tan, 'PTAN': math.tan,
    'ASIN': math.asin, 'ACOS': math.acos, 'ATAN': math.atan,
    'ABS': abs, 'DABS': abs,
    'INT': lambda x: float(math.trunc(x)), 'DINT': lambda x: float(math.trunc(x)),
    'MOD': _fortran_mod, 'DMOD': _fortran_mod,
    'MIN': min, 'MAX': max,
    'GAMLN': math.lgamma,
    # protected functions (NONMEM help, "Abbreviated code: protected functions")
    'PEXP': lambda x: math.exp(100.0) if x > 100.0 else math.exp(x),
    'PLOG': lambda x: math.log(SMALLZ) if x < SMALLZ else math.log(x),
    'PLOG10': lambda x: math.log10(SMALLZ) if x < SMALLZ else math.log10(x),
    'PSQRT': lambda x: 0.0 if x < 0 else math.sqrt(x),
    'PDZ': lambda x: 1.0 / SMALLZ if abs(x) < SMALLZ else 1.0 / x,
    'PZR': lambda x: SMALLZ if abs(x) < SMALLZ else x,
    'PNP': lambda x: SMALLZ if x < SMALLZ else x,
    'PHE': lambda x: 100.0 if x > 100.0 else x,
    'PNG': lambda x: 0.0 if x < 0 else x,
    'PHI': lambda x: 0.5 * (1.0 + math.erf(x / math.sqrt(2.0))),
}


def ref_eval(node, env):
    k = node[0]
    if k == 'num':
        return node[1]
    if k == 'var':
        if node[1] not in env:
            raise RefUndefined(node[1])
        return env[node[1]]
    if k == 'neg':
        return -ref_eval(node[1], env)
    if k in ('add', 'sub', 'mul', 'div', 'pow'):
        a = ref_eval(node[1], env)
        b = ref_eval(node[2], env)
        try:
            if k == 'add':
                r = a + b
            elif k == 'sub':
                r = a - b
            elif k == 'mul':
                r = a * b
            elif k == 'div':
                r = a / b
            else:
                r = a**b
        except (OverflowError, ZeroDivisionError, ValueError):
            raise RefDomain(k)
        return _chk(r)
    if k == 'call':
        f = REF_FUNCS.get(node[1])
        if f is None:
            raise RefSyntax(f'unknown function {node[1]}')
        args = [ref_eval(a, env) for a in node[2]]
        return _dom(f)(*args)
    if k in ('eq', 'ne', 'gt', 'ge', 'lt', 'le'):
        a = ref_eval(node[1], env)
        b = ref_eval(node[2], env)
        return {'eq': a == b, 'ne': a != b, 'gt': a > b, 'ge': a >= b, 'lt': a < b, 'le': a <= b}[k]
    if k == 'and':  # Fortran evaluates operands in any order: both must be defined
        a = ref_eval(node[1], env)
        b = ref_eval(node[2], env)
        return a and b
    if k == 'or':
        a = ref_eval(node[1], env)
        b = ref_eval(node[2], env)
        return a or b
    if k == 'not':
        return not ref_eval(node[1], env)
    raise RefSyntax(k)


_IF_RE = re.compile(r'^\s*IF\s*\(', re.I)
_ELSEIF_RE = re.compile(r'^\s*ELSE\s*IF\s*\(', re.I)


def _split_condition(line, start):
    """line[start] is '(' ; returns (condition text, rest)"""
    depth = 0
    for i in range(start, len(line)):
        if line[i] == '(':
            depth += 1
        elif line[i] == ')':
            depth -= 1
            if depth == 0:
                return line[start + 1 : i], line[i + 1 :]
    raise RefSyntax('unbalanced parentheses')


def ref_parse_program(lines):
    """-> list of statements: ('assign', name, expr) | ('if', [(cond|None, body)...])"""
    pos = 0

    def parse_assign(text):
        toks = ref_tokenize(text)
        if len(toks) < 3 or toks[0][0] != 'name' or toks[1] != ('op', '='):
            raise RefSyntax(f'not an assignment: {text!r}')
        p = _P(toks[2:])
        e = p.expr()
        if p.i != len(p.t):
            raise RefSyntax(f'trailing tokens in {text!r}')
        return ('assign', toks[0][1], e)

    def parse_cond(text):
        p = _P(ref_tokenize(text))
        c = p.lexpr()
        if p.i != len(p.t):
            raise RefSyntax(f'trailing tokens in condition {text!r}')
        return c

    def block(terminators):
        nonlocal pos
        body = []
        while pos < len(lines):
            line = lines[pos].split(';')[0].strip()
            up = re.sub(r'\s+', '', line.upper())
            if not line:
                pos += 1
                continue
            if any(up.startswith(t) for t in terminators):
                return body
            if _IF_RE.match(line):
                ctext, rest = _split_condition(line, line.index('('))
                cond = parse_cond(ctext)
                if rest.strip().upper() == 'THEN':
                    pos += 1
                    branches = [(cond, block(('ELSE', 'ENDIF')))]
                    while True:
                        line2 = lines[pos].split(';')[0].strip()
                        up2 = re.sub(r'\s+', '', line2.upper())
                        if up2 == 'ENDIF':
                            pos += 1
                            break
                        if _ELSEIF_RE.match(line2):
                            ctext2, rest2 = _split_condition(line2, line2.index('('))
                            if rest2.strip().upper() != 'THEN':
                                raise RefSyntax('ELSE IF without THEN')
                            pos += 1
                            branches.append((parse_cond(ctext2), block(('ELSE', 'ENDIF'))))
                        elif up2 == 'ELSE':
                            pos += 1
                            branches.append((None, block(('ENDIF',))))
                        else:
                            raise RefSyntax(f'unexpected {line2!r}')
                    body.append(('if', branches))
                else:
                    pos += 1
                    body.append(('if', [(cond, [parse_assign(rest)])]))
            else:
                pos += 1
                body.append(parse_assign(line))
        return body

    prog = block(())
    if pos != len(lines):
        raise RefSyntax('unparsed lines')
    return prog


def ref_run(prog, env):
    for st in prog:
        if st[0] == 'assign':
            env[st[1]] = ref_eval(st[2], env)
        else:
            for cond, body in st[1]:
                if cond is None or ref_eval(cond, env):
                    ref_run(body, env)
                    break
    return env


def ref_assigned_symbols(prog, acc=None):
    acc = [] if acc is None else acc
    for st in prog:
        if st[0] == 'assign':
            if st[1] not in acc:
                acc.append(st[1])
        else:
            for _, body in st[1]:
                ref_assigned_symbols(body, acc)
    return acc


# --------------------------------------------------------------------------------------------------
# Evaluation of the model IR (sympy expressions) - independent tree walk, floats
# --------------------------------------------------------------------------------------------------


class IRUndefined(Exception):
    pass


def ir_eval(e, env):
    """Numerically evaluate a sympy expression/condition; raises IRUndefined when it has no value."""
    import sympy

    if e is sympy.true or e is True:
        return True
    if e is sympy.false or e is False:
        return False
    if e.is_Symbol:
        v = env.get(e.name)
        if v is None:
            raise IRUndefined(e.name)
        return v
    if e.is_Number:
        if e in (sympy.zoo, sympy.nan, sympy.oo, -sympy.oo):
            raise IRUndefined(str(e))
        return float(e)
    if e.is_NumberSymbol:
        return float(e)
    f = e.func
    try:
        if f is sympy.Add:
            r = 0.0
            for a in e.args:
                r += ir_eval(a, env)
            return _ir_chk(r)
        if f is sympy.Mul:
            r = 1.0
            for a in e.args:
                r *= ir_eval(a, env)
            return _ir_chk(r)
        if f is sympy.Pow:
            b = ir_eval(e.args[0], env)
            x = ir_eval(e.args[1], env)
            return _ir_chk(b**x)
        if f is sympy.Piecewise:
            for val, cond in e.args:
                if ir_eval(cond, env):
                    return ir_eval(val, env)
            raise IRUndefined('no piecewise branch applies')
        if f is sympy.And:
            return all([ir_eval(a, env) for a in e.args])
        if f is sympy.Or:
            return any([ir_eval(a, env) for a in e.args])
        if f is sympy.Not:
            return not ir_eval(e.args[0], env)
        if f in _IR_REL:
            return _IR_REL[f](ir_eval(e.args[0], env), ir_eval(e.args[1], env))
        name = f.__name__
        if name in _IR_FUNCS:
            return _ir_chk(_IR_FUNCS[name](*[ir_eval(a, env) for a in e.args]))
    except (OverflowError, ZeroDivisionError, ValueError) as exc:
        raise IRUndefined(f'{type(exc).__name__} in {e}')
    # unknown node: let sympy do it
    val = e.subs({sympy.Symbol(k): v for k, v in env.items() if v is not None})
    val = sympy.N(val)
    if val.is_Number and val.is_real and val.is_finite:
        return float(val)
    if val in (sympy.true, sympy.false):
        return bool(val)
    raise IRUndefined(f'cannot evaluate {e}')


def _ir_chk(x):
    if isinstance(x, complex) or x != x or x in (math.inf, -math.inf):
        raise IRUndefined('not a finite real')
    return x


def _init_ir_tables():
    import operator

    import sympy

    global _IR_REL, _IR_FUNCS
    _IR_REL = {
        sympy.Eq: operator.eq, sympy.Ne: operator.ne, sympy.Gt: operator.gt, sympy.Ge: operator.ge,
        sympy.Lt: operator.lt, sympy.Le: operator.le,
    }
    _IR_FUNCS = {
        'exp': math.exp, 'log': lambda x, *b: math.log(x, *b), 'Abs': abs,
        'sign': lambda x: (x > 0) - (x < 0), 'floor': math.floor, 'ceiling': math.ceil,
        'sin': math.sin, 'cos': math.cos, 'tan': math.tan, 'asin': math.asin, 'acos': math.acos,
        'atan': math.atan, 'loggamma': math.lgamma, 'sqrt': math.sqrt,
        'Mod': lambda a, p: a - p * math.floor(a / p),  # sympy Mod: result has the sign of p
        'Min': min, 'Max': max,
        'PHI': lambda x: 0.5 * (1.0 + math.erf(x / math.sqrt(2.0))),
        'erf': math.erf,
    }


_IR_REL = None
_IR_FUNCS = None


def ir_run(statements, env):
    """Evaluate pharmpy statements in order.  env maps name -> float (None = undefined)."""
    import sympy

    for s in statements:
        if not hasattr(s, 'expression'):
            continue
        try:
            v = ir_eval(sympy.sympify(s.expression), env)
            if isinstance(v, bool):
                v = float(v)
        except IRUndefined:
            v = None
        env[s.symbol.name] = v
    return env


def close(a, b, rtol=1e-9):
    return a == b or abs(a - b) <= rtol * max(abs(a), abs(b))


# --------------------------------------------------------------------------------------------------
# (1) bounded_abbreviated_code
# --------------------------------------------------------------------------------------------------

GRID = [{'WGT': float(w), 'AGE': float(a)} for w in (40, 60, 80) for a in (20, 50)]

_PRED_TEMPLATE = '''$PROBLEM bounded
$INPUT ID TIME DV WGT AGE
$DATA file.csv IGNORE=@
$PRED
%s
Y = THETA(1) + ETA(1) + EPS(1)
$THETA 1
$OMEGA 0.1
$SIGMA 1
$ESTIMATION METHOD=1
'''

_KIND_TEXT = {
    'block/plain': 'IF block (every symbol assigned in every branch, no data flow inside the block)',
    'block/reads': 'IF block (a right hand side reads a symbol assigned in the block)',
    'block/symcond': 'IF block (a condition reads a symbol assigned in the block)',
    'block/partial': 'IF block (a symbol is assigned in only some of the branches)',
    'block/dup': 'IF block (a branch assigns the same symbol twice)',
    'nested': 'nested IF',
    'logif': 'logical IF',
    'expr': 'arithmetic expression',
    'cond': 'logical condition without parentheses',
    'cond/par': 'logical condition with parenthesised logical sub-expressions',
}


def _kind_text(kind):
    if kind.startswith('func/'):
        return 'intrinsic function ' + kind[5:]
    return _KIND_TEXT[kind]


def _parse_clause(kind):
    return _kind_text(kind) + ': valid NM-TRAN abbreviated code is read without error'


def _value_clause(kind):
    if kind.startswith('func/'):
        return _kind_text(kind) + ': value equals the NM-TRAN definition of the function'
    if kind == 'expr':
        return 'arithmetic expression: value follows Fortran operator precedence and associativity'
    if kind.startswith('cond'):
        return (_kind_text(kind) + ': truth value follows Fortran precedence (.NOT. over .AND. over .OR.)'
                ' and the relational operator meaning')
    return (_kind_text(kind) + ': every symbol assigned on the executed path has the value given by'
            ' sequential NM-TRAN semantics')


def _unassigned_clause(kind):
    return (_kind_text(kind) + ': a symbol that NM-TRAN leaves unassigned on the executed path is not'
            ' given a value')


def _suffix(lines, i):
    """rename the program variables VA/VB/VC/VX to VA<i>... so that programs can share one $PRED"""
    return [re.sub(r'\b(V[ABCX])\b', lambda m: f'{m.group(1)}{i}', ln) for ln in lines]


def gen_block_programs(tier):
    """all block-IF programs within the bound (lists of source lines over symbols VA, VB)"""
    thorough = tier == 'thorough'
    predefs = [(), ('VA',), ('VB',), ('VA', 'VB')]
    predef_line = {'VA': 'VA = WGT - 60', 'VB': 'VB = AGE'}
    cond_modes = {
        'data': ['WGT.GT.50', 'WGT.GT.70', 'AGE.GT.30'],
        'symbol': ['VA.GT.0', 'VA.GE.0', 'VB.GT.30'],
    }
    other = {'VA': 'VB', 'VB': 'VA'}

    def branch_bodies(b, maxlen, rhs_kinds):
        single = []
        for p in range(2):
            opts = []
            for tgt in ('VA', 'VB'):
                for kind in rhs_kinds:
                    k = 10 * (b + 1) + p + 1
                    if kind == 'const':
                        rhs = str(k)
                    elif kind == 'other':
                        rhs = f'{other[tgt]} + {k}'
                    else:
                        rhs = f'{tgt}*2 + {k}'
                    opts.append(f'{tgt} = {rhs}')
            single.append(opts)
        out = [[]]
        if maxlen >= 1:
            out += [[a] for a in single[0]]
        if maxlen >= 2:
            out += [[a, c] for a in single[0] for c in single[1]]
        return out

    shapes = [('if',), ('if', 'else'), ('if', 'elif'), ('if', 'elif', 'else'), ('if', 'elif', 'elif')]
    for shape in shapes:
        maxlen = 2 if (thorough or len(shape) < 3) else 1
        rhs_kinds = ('const', 'other', 'self') if (thorough and len(shape) < 3) else ('const', 'other')
        for bodies in itertools.product(
            *[branch_bodies(b, maxlen, rhs_kinds) for b in range(len(shape))]
        ):
            if not any(bodies):
                continue
            for mode, conds in cond_modes.items():
                for predef in predefs:
                    if mode == 'symbol':
                        # conditions must read defined symbols
                        need = {'VA'} | ({'VB'} if shape.count('elif') == 2 else set())
                        if not need <= set(predef):
                            continue
                    lines = [predef_line[s] for s in predef]
                    ci = 0
                    for kind, body in zip(shape, bodies):
                        if kind == 'if':
                            lines.append(f'IF ({conds[ci]}) THEN')
                            ci += 1
                        elif kind == 'elif':
                            lines.append(f'ELSE IF ({conds[ci]}) THEN')
                            ci += 1
                        else:
                            lines.append('ELSE')
                        lines.extend('  ' + b for b in body)
                    lines.append('ENDIF')
                    yield ('block/' + _block_class(shape, bodies, mode), lines)


def _block_class(shape, bodies, mode):
    targets = [[a.split('=')[0].strip() for a in body] for body in bodies]
    assigned = set(t for ts in targets for t in ts)
    if any(len(ts) != len(set(ts)) for ts in targets):
        return 'dup'
    if 'else' not in shape or any(set(ts) != assigned for ts in targets):
        return 'partial'
    if mode == 'symbol':
        nconds = sum(1 for k in shape if k != 'else')
        cond_reads = {'VA'} | ({'VB'} if nconds == 3 else set())
        if cond_reads & assigned:
            return 'symcond'
    reads = set(m for body in bodies for a in body for m in re.findall(r'V[AB]', a.split('=')[1]))
    if reads & assigned:
        return 'reads'
    return 'plain'


def gen_nested_programs(tier):
    """IF blocks nested one level inside the first or the ELSE branch of an outer block"""
    inner_shapes = [
        ['IF (AGE.GT.30) THEN', '  VB = 21', 'ENDIF'],
        ['IF (AGE.GT.30) THEN', '  VB = 21', 'ELSE', '  VB = 22', 'ENDIF'],
        ['IF (AGE.GT.30) THEN', '  VA = 23', 'ELSE', '  VB = 24', 'ENDIF'],
        ['IF (AGE.GT.30) VB = 25'],
    ]
    for predef in ([], ['VA = 1', 'VB = 2']):
        for inner in inner_shapes:
            for where in ('then', 'else'):
                for before in ([], ['  VA = 11']):
                    lines = list(predef) + ['IF (WGT.GT.50) THEN']
                    if where == 'then':
                        lines += before + ['  ' + ln for ln in inner]
                        lines += ['ELSE', '  VA = 12']
                    else:
                        lines += ['  VA = 12', 'ELSE'] + before + ['  ' + ln for ln in inner]
                    lines.append('ENDIF')
                    yield ('nested', lines)


def gen_logif_programs(tier):
    conds = ['WGT.GT.50', 'VA.GT.0', 'AGE.LT.30']
    for predef in ([], ['VA = WGT - 60'], ['VA = WGT - 60', 'VB = AGE']):
        for c1 in conds:
            for t1, r1 in (('VA', '5'), ('VA', 'VA + 5'), ('VB', 'VA + 7'), ('VB', '6')):
                if ('VA' in c1 or 'VA' in r1) and not predef:
                    continue
                one = list(predef) + [f'IF ({c1}) {t1} = {r1}']
                yield ('logif', one)
                for c2 in conds:
                    for t2, r2 in (('VA', '8'), ('VB', 'VB + 1'), ('VB', '9')):
                        if 'VB + 1' == r2 and len(predef) < 2 and t1 != 'VB':
                            continue
                        yield ('logif', one + [f'IF ({c2}) {t2} = {r2}'])


# expression trees --------------------------------------------------------------------------------

_BIN = ('add', 'sub', 'mul', 'div', 'pow')
_OPERANDS = ('WGT', 'AGE', '2')
_PREC = {'add': 1, 'sub': 1, 'neg': 1, 'mul': 2, 'div': 2, 'pow': 3, 'leaf': 4}
_SYM = {'add': '+', 'sub': '-', 'mul': '*', 'div': '/', 'pow': '**'}


def _trees(depth):
    """all expression trees of depth <= depth with all operand fillings"""
    if depth == 0:
        return [('leaf', o) for o in _OPERANDS]
    sub = _trees(depth - 1)
    out = [('leaf', o) for o in _OPERANDS]
    out += [('neg', a) for a in sub]
    out += [(op, a, b) for op in _BIN for a in sub for b in sub]
    return out


def _shapes(depth):
    """all operator skeletons of depth <= depth (leaves unfilled)"""
    if depth == 0:
        return [('leaf',)]
    sub = _shapes(depth - 1)
    return [('leaf',)] + [('neg', a) for a in sub] + [(op, a, b) for op in _BIN for a in sub for b in sub]


def _fill(shape, counter):
    if shape[0] == 'leaf':
        o = _OPERANDS[counter[0] % 3]
        counter[0] += 1
        return ('leaf', o)
    return (shape[0],) + tuple(_fill(s, counter) for s in shape[1:])


def render_fortran(t):
    """print a tree with the MINIMAL parentheses that standard Fortran needs"""
    k = t[0]
    if k == 'leaf':
        return t[1]

    def par(x, minprec, allow_neg=False):
        s = render_fortran(x)
        if _PREC[x[0]] < minprec or (x[0] == 'neg' and not allow_neg):
            return '(' + s + ')'
        return s

    if k == 'neg':
        return '-' + par(t[1], 2)
    a, b = t[1], t[2]
    if k in ('add', 'sub'):
        return par(a, 1, allow_neg=True) + _SYM[k] + par(b, 2)
    if k in ('mul', 'div'):
        return par(a, 2) + _SYM[k] + par(b, 3)
    return par(a, 4) + '**' + par(b, 3)


def tree_eval(t, env):
    """direct evaluation of the enumerated tree (cross-check of renderer + reference parser)"""
    k = t[0]
    if k == 'leaf':
        return env[t[1]] if t[1] in env else float(t[1])
    if k == 'neg':
        return -tree_eval(t[1], env)
    a = tree_eval(t[1], env)
    b = tree_eval(t[2], env)
    try:
        r = {'add': lambda: a + b, 'sub': lambda: a - b, 'mul': lambda: a * b, 'div': lambda: a / b,
             'pow': lambda: a**b}[k]()
    except (OverflowError, ZeroDivisionError, ValueError):
        raise RefDomain(k)
    return _chk(r)


def gen_expr_programs(tier):
    if tier == 'thorough':
        seen = set()
        for t in _trees(2):
            s = render_fortran(t)
            seen.add(s)
            yield ('expr', ['VX = ' + s])
        for n, shape in enumerate(_shapes(3)):
            t = _fill(shape, [n])
            s = render_fortran(t)
            if s not in seen:
                seen.add(s)
                yield ('expr', ['VX = ' + s])
    else:
        for t in _trees(2):
            yield ('expr', ['VX = ' + render_fortran(t)])
    # spellings the minimal renderer never produces: redundant parentheses, unary plus,
    # real/double constants, blanks, long chains
    for s in ('+WGT-AGE', '(WGT)', '((WGT+AGE))*2', 'WGT - AGE - 2 - WGT', 'WGT/AGE/2/WGT',
              'WGT*AGE/2*WGT/AGE', '2**2**2**2', '2.**3.', '1.5D0*WGT', '1.5E+1*WGT', '.5*WGT',
              '2.E0**0.5', '1D1+WGT', 'WGT**0.5', 'WGT**(-0.5)', '-WGT**0.5', '-2**2', '2-2**2*2',
              '-(WGT-AGE)**2', 'WGT-(AGE-2)', 'WGT/(AGE/2)', '(WGT**AGE)**2', 'WGT**(1/2)',
              '1/2*WGT', 'WGT*1/2', '3/2', 'WGT**3/2', '-WGT/AGE*2', '-WGT+AGE*2', '- WGT - AGE'):
        yield ('expr', ['VX = ' + s])


def gen_cond_programs(tier):
    atoms = ['WGT.GT.50', 'AGE<30', 'WGT.EQ.60', 'AGE/=20', 'WGT>=60', 'AGE.LE.20']
    if tier != 'thorough':
        atoms3 = atoms[:4]
    else:
        atoms3 = atoms
    lits = lambda pool: [a for x in pool for a in (x, '.NOT.' + x)]  # noqa: E731
    seen = set()

    def emit(c, kind='cond'):
        if c not in seen:
            seen.add(c)
            return [(kind, ['VX = 0', f'IF ({c}) VX = 1'])]
        return []

    for a in lits(atoms):
        yield from emit(a)
    for a in lits(atoms):
        for b in lits(atoms):
            for op in ('.AND.', '.OR.'):
                yield from emit(a + op + b)
    for a in lits(atoms3):
        for b in lits(atoms3):
            for c in lits(atoms3):
                for op1 in ('.AND.', '.OR.'):
                    for op2 in ('.AND.', '.OR.'):
                        yield from emit(a + op1 + b + op2 + c)
    # every spelling of every relational operator, both operand orders, constants on the left,
    # lower case, blanks, parenthesised logical sub-expressions
    for op in ('.EQ.', '.NE.', '.GT.', '.GE.', '.LT.', '.LE.', '==', '/=', '>', '>=', '<', '<='):
        for lhs, rhs in (('WGT', '60'), ('60', 'WGT'), ('WGT', 'AGE+30'), ('WGT-AGE', '30'),
                         ('WGT', '60.'), ('60.0', 'WGT'), ('WGT', '6.E1')):
            yield from emit(lhs + op + rhs)
            yield from emit(f'{lhs} {op} {rhs}')
        yield from emit('wgt' + op.lower() + '60')
    for c in ('(WGT.GT.50.OR.AGE.LT.30).AND.WGT.EQ.60', 'WGT.GT.50.OR.(AGE.LT.30.AND.WGT.EQ.60)',
              '.NOT.(WGT.GT.50.OR.AGE.LT.30)', '.NOT.(WGT.GT.50.AND.AGE.LT.30)',
              '.NOT.(WGT.GT.50).AND.AGE.LT.30', '(WGT.GT.50)', '((WGT.GT.50).AND.(AGE.LT.30))',
              '(WGT.GT.50.AND.AGE.LT.30).OR.(WGT.EQ.40.AND.AGE.GE.30)',
              '.NOT.(WGT.GT.50.OR.AGE.LT.30).AND.(WGT.EQ.40.OR.AGE.GE.30)'):
        yield from emit(c, 'cond/par')
    for c in ('WGT.GT.50 .AND. AGE.LT.30 .OR. WGT.EQ.40', 'WGT.GT.50.AND..NOT.AGE.LT.30'):
        yield from emit(c)


_CANON = {'DEXP': 'EXP', 'DLOG': 'LOG', 'ALOG': 'LOG', 'DLOG10': 'LOG10', 'ALOG10': 'LOG10',
          'DSQRT': 'SQRT', 'DSIN': 'SIN', 'DCOS': 'COS', 'DTAN': 'TAN', 'PTAN': 'TAN', 'DABS': 'ABS',
          'DINT': 'INT', 'DMOD': 'MOD'}


def gen_func_programs(tier):
    args1 = ['WGT', 'WGT-60', '-WGT', 'WGT/100', 'WGT*2', '(WGT-60)/40', '-WGT/7', 'WGT/7',
             'AGE/7-5', '0']
    fn1 = ['EXP', 'DEXP', 'LOG', 'DLOG', 'ALOG', 'LOG10', 'DLOG10', 'ALOG10', 'SQRT', 'DSQRT', 'SIN',
           'DSIN', 'COS', 'DCOS', 'TAN', 'DTAN', 'PTAN', 'ASIN', 'ACOS', 'ATAN', 'ABS', 'DABS',
           'INT', 'DINT', 'GAMLN', 'PEXP', 'PLOG', 'PLOG10', 'PSQRT', 'PDZ', 'PZR', 'PNP', 'PHE', 'PNG',
           'PHI']
    for f in fn1:
        for a in args1:
            yield ('func/' + _CANON.get(f, f), [f'VX = {f}({a})'])
    yield ('func/EXP', ['VX = exp(wgt/100)'])
    yield ('func/EXP', ['VX = 2*EXP(-WGT/100)**2+LOG(AGE)'])
    args2 = [('WGT', '7'), ('-WGT', '7'), ('WGT', '-7'), ('-WGT', '-7'), ('WGT', 'AGE'), ('AGE', 'WGT'),
             ('WGT/7', '2.5'), ('WGT', '60'), ('60', 'WGT')]
    for f in ('MOD', 'DMOD', 'MIN', 'MAX'):
        for a, b in args2:
            yield ('func/' + _CANON.get(f, f), [f'VX = {f}({a},{b})'])
            if tier == 'thorough':
                yield ('func/' + _CANON.get(f, f), [f'VX = 1 + {f}({a}, {b})*2'])


_GENERATORS = {
    'block': gen_block_programs, 'nested': gen_nested_programs, 'logif': gen_logif_programs,
    'expr': gen_expr_programs, 'cond': gen_cond_programs, 'func': gen_func_programs,
}


def _speedup():
    """pharmpy asks importlib.metadata for the lark version once per parse-tree node (half of the
    parse time).  The answer is a constant of the installation, so it is memoised for this process.
    Pure performance: the value returned is the one the unpatched call returns."""
    import functools

    import pharmpy.internals.parse.ignored as ign

    if not hasattr(ign.version, 'cache_info'):
        ign.version = functools.lru_cache(maxsize=None)(ign.version)


def _pool_init():
    warnings.filterwarnings('ignore')
    import pharmpy.modeling  # noqa: F401

    _speedup()
    _init_ir_tables()


def _check_programs(progs):
    """progs: list of (kind, lines).  Reads ONE $PRED model holding all programs (renamed apart).
    returns list of (index, nontrivial, [(clause_kind, clause, detail)])"""
    from pharmpy.modeling import read_model_from_string

    if _IR_REL is None:
        _init_ir_tables()
        _speedup()
    renamed = [_suffix(lines, i) for i, (_, lines) in enumerate(progs)]
    body = '\n'.join('\n'.join(r) for r in renamed)
    try:
        model = read_model_from_string(_PRED_TEMPLATE % body)
        statements = list(model.statements)
    except Exception as exc:  # any exception: the programs are valid NM-TRAN
        if len(progs) == 1:
            kind = progs[0][0]
            return [(0, True, [(_parse_clause(kind), f'{type(exc).__name__}: {str(exc)[:200]}')])]
        out = []
        for i, p in enumerate(progs):
            r = _check_programs([p])
            out.append((i, r[0][1], r[0][2]))
        return out

    ir_envs = []
    for point in GRID:
        ir_envs.append(ir_run(statements, dict(point)))

    out = []
    for i, (kind, _) in enumerate(progs):
        fails = []
        nontrivial = False
        try:
            prog = ref_parse_program(renamed[i])
        except RefSyntax as exc:  # a bug in this file, never hide it
            out.append((i, True, [('checker: reference parser accepts the enumerated program', str(exc))]))
            continue
        symbols = ref_assigned_symbols(prog)
        for point, ir_env in zip(GRID, ir_envs):
            try:
                ref_env = ref_run(prog, dict(point))
            except (RefUndefined, RefDomain):
                continue  # no NM-TRAN meaning at this data point: precondition false
            nontrivial = True
            for s in symbols:
                got = ir_env.get(s)
                if s in ref_env:
                    want = ref_env[s]
                    if got is None or not close(got, want):
                        fails.append((_value_clause(kind),
                                      f'at WGT={point["WGT"]:g} AGE={point["AGE"]:g}: NM-TRAN gives '
                                      f'{_unsuffix(s)}={want:.12g}, model statements give {got}'))
                        break
                elif got is not None and got != 0:
                    fails.append((_unassigned_clause(kind),
                                  f'at WGT={point["WGT"]:g} AGE={point["AGE"]:g}: NM-TRAN leaves '
                                  f'{_unsuffix(s)} unassigned, model statements give {got}'))
                    break
        seen = set()
        uniq = []
        for c, d in fails:
            if c not in seen:
                seen.add(c)
                uniq.append((c, d))
        out.append((i, nontrivial, uniq))
    return out


def _unsuffix(s):
    return re.sub(r'^(V[ABCX])\d+$', r'\1', s)


def _selfcheck_expr_renderer(tier):
    """the minimal-parenthesis renderer and the reference parser must agree with the tree itself"""
    bad = []
    for t in _trees(2):
        text = render_fortran(t)
        p = _P(ref_tokenize(text))
        ast = p.expr()
        for point in GRID:
            try:
                a = tree_eval(t, point)
            except RefDomain:
                a = None
            try:
                b = ref_eval(ast, dict(point))
            except RefDomain:
                b = None
            if (a is None) != (b is None) or (a is not None and not close(a, b)):
                bad.append(text)
                break
    return bad


def _run_pool(worker, jobs, chunksize=1):
    import multiprocessing as mp

    ctx = mp.get_context('fork')
    with ctx.Pool(NPROC, initializer=_pool_init) as pool:
        return pool.map(worker, jobs, chunksize=chunksize)


def bounded_abbreviated_code(tier='quick'):
    programs = []
    counts = {}
    for gname, gen in _GENERATORS.items():
        n0 = len(programs)
        programs.extend(gen(tier))
        counts[gname] = len(programs) - n0

    fails = {}
    bad = _selfcheck_expr_renderer(tier)
    if bad:
        fails[('checker', 'renderer')] = {
            'fid': FID_EXPR, 'clause': 'checker: expression renderer and reference parser agree',
            'detail': f'{bad[:3]}', 'case': {'kind': 'expr', 'lines': ['VX = ' + bad[0]]},
            'replay_fn': 'bounded_abbreviated_code_replay'}

    batch = 60
    jobs = [programs[i : i + batch] for i in range(0, len(programs), batch)]
    results = _run_pool(_check_programs, jobs)

    nontrivial = 0
    for job, res in zip(jobs, results):
        for i, nt, fl in res:
            nontrivial += bool(nt)
            kind, lines = job[i]
            for clause, detail in fl:
                fid = FID_PARSE_TREE if kind.split('/')[0] in ('block', 'nested', 'logif') else FID_EXPR
                key = (fid, clause)
                size = (len(lines), sum(len(x) for x in lines), lines)
                if key not in fails or size < fails[key]['_size']:
                    fails[key] = {
                        'fid': fid, 'clause': clause,
                        'detail': detail + ' for program ' + ' | '.join(x.strip() for x in lines),
                        'case': {'kind': kind, 'lines': lines, 'clause': clause},
                        'replay_fn': 'bounded_abbreviated_code_replay', '_size': size}
    for f in fails.values():
        f.pop('_size', None)
    depth = 3 if tier == 'thorough' else 2
    return {
        'cases': len(programs),
        'nontrivial': nontrivial,
        'bound': (
            f'$PRED programs: all IF blocks with <=3 branches (IF/ELSE IF/ELSE) x <=2 assignments per '
            f'branch{"" if tier == "thorough" else " (<=1 when 3 branches)"} over 2 target symbols, right '
            f'hand sides constant / other symbol+constant{" / self*2+constant (<=2 branches)" if tier == "thorough" else ""}'
            f', conditions on data or on symbols assigned in the block, 4 pre-definition patterns '
            f'[{counts["block"]}]; one-level nested IFs [{counts["nested"]}]; 1-2 logical IFs '
            f'[{counts["logif"]}]; all arithmetic trees of depth <=2 over + - * / ** unary- with operands '
            f'WGT, AGE, 2 printed with minimal parentheses'
            f'{" plus all operator skeletons of depth 3 with rotating operands" if depth == 3 else ""} '
            f'[{counts["expr"]}]; all conditions with <=3 relational atoms (optionally .NOT.) joined by '
            f'.AND./.OR. without parentheses, all 12 relational spellings [{counts["cond"]}]; 39 intrinsic/'
            f'protected functions x 10 arguments [{counts["func"]}]; evaluated on WGT in {{40,60,80}} x AGE '
            f'in {{20,50}}'),
        'samples': [' | '.join(programs[i][1]) for i in (0, len(programs) // 2, len(programs) - 1)],
        'fails': sorted(fails.values(), key=lambda f: (f['fid'], f['clause'])),
    }


def bounded_abbreviated_code_replay(rp):
    case = rp['case']
    res = _check_programs([(case['kind'], list(case['lines']))])
    fl = [(c, d) for c, d in res[0][2] if case.get('clause') in (None, c)]
    if fl:
        return (False, '; '.join(f'{c}: {d}' for c, d in fl))
    return (True, 'ok')
