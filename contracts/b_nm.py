"""Bounded contract checks for C01 / C02: NM-TRAN <-> pharmpy model IR.

Every check evaluates a contract taken from the property statement on the REAL pharmpy code over an
exhaustively enumerated finite domain (no sampling).  The references in this file (NM-TRAN abbreviated
code interpreter, $THETA/$OMEGA reader, PREDPP ADVAN/TRANS table, sympy evaluator) are written
independently of pharmpy.

  bounded_abbreviated_code   NM-TRAN abbreviated code ($PRED) -> statements        (C01)
  bounded_omega_theta_parse  $THETA/$OMEGA/$SIGMA -> parameters, random variables (C01)
  bounded_advan_trans        $SUBROUTINE ADVANn TRANSm, $MODEL/$DES -> compartmental system (C01)
  bounded_codegen_roundtrip  transformed model -> NONMEM code (+ data set) -> model (C02)
"""

import cmath
import itertools
import math
import os
import re
import warnings

warnings.filterwarnings('ignore')

NPROC = 16

CODE_RECORD = 'src/pharmpy/model/external/nonmem/records/code_record.py'
FID_PARSE_TREE = CODE_RECORD + ':_parse_tree'
FID_EXPR = CODE_RECORD + ':ExpressionInterpreter'


# --------------------------------------------------------------------------------------------------
# Reference: NM-TRAN abbreviated code (sequential Fortran semantics)
# --------------------------------------------------------------------------------------------------

SMALLZ = 2.8e-103  # NONMEM's SMALLZ constant used by the protected functions


class RefUndefined(Exception):
    """A symbol was read before being assigned (no NM-TRAN meaning)."""


class RefDomain(Exception):
    """Arithmetic outside of the real double range/domain (overflow, 0 division, complex)."""


class RefSyntax(Exception):
    pass


_TOKEN_RE = re.compile(
    r'''\s*(?:
    (?P<num>(?:\d+(?:\.(?![A-Za-z]+\.)\d*)?|\.\d+)(?:[EeDd][+-]?\d+)?)
  | (?P<dot>\.(?:EQ|NE|GT|GE|LT|LE|AND|OR|NOT)\.)
  | (?P<name>[A-Za-z_][A-Za-z0-9_]*)
  | (?P<op>\*\*|==|/=|>=|<=|[-+*/()<>,=])
    )''',
    re.X | re.I,
)

_REL = {
    '.EQ.': 'eq', '==': 'eq', '.NE.': 'ne', '/=': 'ne', '.GT.': 'gt', '>': 'gt',
    '.GE.': 'ge', '>=': 'ge', '.LT.': 'lt', '<': 'lt', '.LE.': 'le', '<=': 'le',
}


def ref_tokenize(s):
    toks = []
    pos = 0
    s = s.rstrip()
    while pos < len(s):
        m = _TOKEN_RE.match(s, pos)
        if not m or m.end() == pos:
            raise RefSyntax(f'cannot tokenize {s[pos:]!r}')
        pos = m.end()
        if m.group('num') is not None:
            toks.append(('num', float(m.group('num').upper().replace('D', 'E'))))
        elif m.group('dot') is not None:
            toks.append(('op', m.group('dot').upper()))
        elif m.group('name') is not None:
            toks.append(('name', m.group('name').upper()))
        else:
            toks.append(('op', m.group('op')))
    return toks


class _P:
    """Recursive descent parser following the Fortran 77 expression grammar."""

    def __init__(self, toks):
        self.t = toks
        self.i = 0

    def peek(self):
        return self.t[self.i] if self.i < len(self.t) else (None, None)

    def next(self):
        tok = self.peek()
        self.i += 1
        return tok

    def accept(self, kind, val=None):
        k, v = self.peek()
        if k == kind and (val is None or v == val):
            self.i += 1
            return True
        return False

    def expect(self, kind, val=None):
        if not self.accept(kind, val):
            raise RefSyntax(f'expected {val or kind} at {self.t[self.i:]}')

    # arithmetic: expr := [sign] term {addop term}; term := factor {mulop factor};
    # factor := primary ['**' factor]   (a leading sign applies to the whole first TERM)
    def expr(self):
        if self.accept('op', '-'):
            left = ('neg', self.term())
        elif self.accept('op', '+'):
            left = self.term()
        else:
            left = self.term()
        while True:
            if self.accept('op', '+'):
                left = ('add', left, self.term())
            elif self.accept('op', '-'):
                left = ('sub', left, self.term())
            else:
                return left

    def term(self):
        left = self.factor()
        while True:
            if self.accept('op', '*'):
                left = ('mul', left, self.factor())
            elif self.accept('op', '/'):
                left = ('div', left, self.factor())
            else:
                return left

    def factor(self):
        base = self.primary()
        if self.accept('op', '**'):
            return ('pow', base, self.factor())
        return base

    def primary(self):
        k, v = self.next()
        if k == 'num':
            return ('num', v)
        if k == 'name':
            if self.accept('op', '('):
                args = [self.expr()]
                while self.accept('op', ','):
                    args.append(self.expr())
                self.expect('op', ')')
                return ('call', v, args)
            return ('var', v)
        if k == 'op' and v == '(':
            e = self.expr()
            self.expect('op', ')')
            return e
        raise RefSyntax(f'unexpected {v!r}')

    # logical: lexpr := lterm {.OR. lterm}; lterm := lfactor {.AND. lfactor};
    # lfactor := [.NOT.] lprimary ; lprimary := expr relop expr | '(' lexpr ')'
    def lexpr(self):
        left = self.lterm()
        while self.accept('op', '.OR.'):
            left = ('or', left, self.lterm())
        return left

    def lterm(self):
        left = self.lfactor()
        while self.accept('op', '.AND.'):
            left = ('and', left, self.lfactor())
        return left

    def lfactor(self):
        if self.accept('op', '.NOT.'):
            return ('not', self.lprimary())
        return self.lprimary()

    def lprimary(self):
        save = self.i
        try:
            a = self.expr()
            k, v = self.peek()
            if k == 'op' and v in _REL:
                self.i += 1
                b = self.expr()
                return (_REL[v], a, b)
            raise RefSyntax('no relational operator')
        except RefSyntax:
            self.i = save
        self.expect('op', '(')
        e = self.lexpr()
        self.expect('op', ')')
        return e


def _fortran_mod(a, p):
    if p == 0:
        raise RefDomain('MOD by zero')
    return a - math.trunc(a / p) * p


def _chk(x):
    if isinstance(x, complex) or x != x or x in (math.inf, -math.inf):
        raise RefDomain('not a finite real')
    return x


def _dom(f):
    def g(*a):
        try:
            return _chk(f(*a))
        except (ValueError, OverflowError, ZeroDivisionError):
            raise RefDomain(f'{a}')

    return g


REF_FUNCS = {
    'EXP': math.exp, 'DEXP': math.exp,
    'LOG': math.log, 'DLOG': math.log, 'ALOG': math.log,
    'LOG10': math.log10, 'DLOG10': math.log10, 'ALOG10': math.log10,
    'SQRT': math.sqrt, 'DSQRT': math.sqrt,
    'SIN': math.sin, 'DSIN': math.sin, 'COS': math.cos, 'DCOS': math.cos,
    'TAN': math.tan, 'DTAN': math.tan, 'PTAN': math.tan,
    'ASIN': math.asin, 'ACOS': math.acos, 'ATAN': math.atan,
    'ABS': abs, 'DABS': abs,
    'INT': lambda x: float(math.trunc(x)), 'DINT': lambda x: float(math.trunc(x)),
    'MOD': _fortran_mod, 'DMOD': _fortran_mod,
    'MIN': min, 'MAX': max,
    'GAMLN': math.lgamma,
    # protected functions (NONMEM help, "Abbreviated code: protected functions")
    'PEXP': lambda x: math.exp(100.0) if x > 100.0 else math.exp(x),
    'PLOG': lambda x: math.log(SMALLZ) if x < SMALLZ else math.log(x),
    'PLOG10': lambda x: math.log10(SMALLZ) if x < SMALLZ else math.log10(x),
    'PSQRT': lambda x: 0.0 if x < 0 else math.sqrt(x),
    'PDZ': lambda x: 1.0 / SMALLZ if abs(x) < SMALLZ else 1.0 / x,
    'PZR': lambda x: SMALLZ if abs(x) < SMALLZ else x,
    'PNP': lambda x: SMALLZ if x < SMALLZ else x,
    'PHE': lambda x: 100.0 if x > 100.0 else x,
    'PNG': lambda x: 0.0 if x < 0 else x,
    'PHI': lambda x: 0.5 * (1.0 + math.erf(x / math.sqrt(2.0))),
}


def ref_eval(node, env):
    k = node[0]
    if k == 'num':
        return node[1]
    if k == 'var':
        if node[1] not in env:
            raise RefUndefined(node[1])
        return env[node[1]]
    if k == 'neg':
        return -ref_eval(node[1], env)
    if k in ('add', 'sub', 'mul', 'div', 'pow'):
        a = ref_eval(node[1], env)
        b = ref_eval(node[2], env)
        try:
            if k == 'add':
                r = a + b
            elif k == 'sub':
                r = a - b
            elif k == 'mul':
                r = a * b
            elif k == 'div':
                r = a / b
            else:
                r = a**b
        except (OverflowError, ZeroDivisionError, ValueError):
            raise RefDomain(k)
        return _chk(r)
    if k == 'call':
        f = REF_FUNCS.get(node[1])
        if f is None:
            raise RefSyntax(f'unknown function {node[1]}')
        args = [ref_eval(a, env) for a in node[2]]
        return _dom(f)(*args)
    if k in ('eq', 'ne', 'gt', 'ge', 'lt', 'le'):
        a = ref_eval(node[1], env)
        b = ref_eval(node[2], env)
        return {'eq': a == b, 'ne': a != b, 'gt': a > b, 'ge': a >= b, 'lt': a < b, 'le': a <= b}[k]
    if k == 'and':  # Fortran evaluates operands in any order: both must be defined
        a = ref_eval(node[1], env)
        b = ref_eval(node[2], env)
        return a and b
    if k == 'or':
        a = ref_eval(node[1], env)
        b = ref_eval(node[2], env)
        return a or b
    if k == 'not':
        return not ref_eval(node[1], env)
    raise RefSyntax(k)


_IF_RE = re.compile(r'^\s*IF\s*\(', re.I)
_ELSEIF_RE = re.compile(r'^\s*ELSE\s*IF\s*\(', re.I)


def _split_condition(line, start):
    """line[start] is '(' ; returns (condition text, rest)"""
    depth = 0
    for i in range(start, len(line)):
        if line[i] == '(':
            depth += 1
        elif line[i] == ')':
            depth -= 1
            if depth == 0:
                return line[start + 1 : i], line[i + 1 :]
    raise RefSyntax('unbalanced parentheses')


def ref_parse_program(lines):
    """-> list of statements: ('assign', name, expr) | ('if', [(cond|None, body)...])"""
    pos = 0

    def parse_assign(text):
        toks = ref_tokenize(text)
        if len(toks) < 3 or toks[0][0] != 'name' or toks[1] != ('op', '='):
            raise RefSyntax(f'not an assignment: {text!r}')
        p = _P(toks[2:])
        e = p.expr()
        if p.i != len(p.t):
            raise RefSyntax(f'trailing tokens in {text!r}')
        return ('assign', toks[0][1], e)

    def parse_cond(text):
        p = _P(ref_tokenize(text))
        c = p.lexpr()
        if p.i != len(p.t):
            raise RefSyntax(f'trailing tokens in condition {text!r}')
        return c

    def block(terminators):
        nonlocal pos
        body = []
        while pos < len(lines):
            line = lines[pos].split(';')[0].strip()
            up = re.sub(r'\s+', '', line.upper())
            if not line:
                pos += 1
                continue
            if any(up.startswith(t) for t in terminators):
                return body
            if _IF_RE.match(line):
                ctext, rest = _split_condition(line, line.index('('))
                cond = parse_cond(ctext)
                if rest.strip().upper() == 'THEN':
                    pos += 1
                    branches = [(cond, block(('ELSE', 'ENDIF')))]
                    while True:
                        line2 = lines[pos].split(';')[0].strip()
                        up2 = re.sub(r'\s+', '', line2.upper())
                        if up2 == 'ENDIF':
                            pos += 1
                            break
                        if _ELSEIF_RE.match(line2):
                            ctext2, rest2 = _split_condition(line2, line2.index('('))
                            if rest2.strip().upper() != 'THEN':
                                raise RefSyntax('ELSE IF without THEN')
                            pos += 1
                            branches.append((parse_cond(ctext2), block(('ELSE', 'ENDIF'))))
                        elif up2 == 'ELSE':
                            pos += 1
                            branches.append((None, block(('ENDIF',))))
                        else:
                            raise RefSyntax(f'unexpected {line2!r}')
                    body.append(('if', branches))
                else:
                    pos += 1
                    body.append(('if', [(cond, [parse_assign(rest)])]))
            else:
                pos += 1
                body.append(parse_assign(line))
        return body

    prog = block(())
    if pos != len(lines):
        raise RefSyntax('unparsed lines')
    return prog


def ref_run(prog, env):
    for st in prog:
        if st[0] == 'assign':
            env[st[1]] = ref_eval(st[2], env)
        else:
            for cond, body in st[1]:
                if cond is None or ref_eval(cond, env):
                    ref_run(body, env)
                    break
    return env


def ref_assigned_symbols(prog, acc=None):
    acc = [] if acc is None else acc
    for st in prog:
        if st[0] == 'assign':
            if st[1] not in acc:
                acc.append(st[1])
        else:
            for _, body in st[1]:
                ref_assigned_symbols(body, acc)
    return acc


# --------------------------------------------------------------------------------------------------
# Evaluation of the model IR (sympy expressions) - independent tree walk, floats
# --------------------------------------------------------------------------------------------------


class IRUndefined(Exception):
    pass


def ir_eval(e, env):
    """Numerically evaluate a sympy expression/condition; raises IRUndefined when it has no value."""
    import sympy

    if e is sympy.true or e is True:
        return True
    if e is sympy.false or e is False:
        return False
    if e.is_Symbol:
        v = env.get(e.name)
        if v is None:
            raise IRUndefined(e.name)
        return v
    if e.is_Number:
        if e in (sympy.zoo, sympy.nan, sympy.oo, -sympy.oo):
            raise IRUndefined(str(e))
        return float(e)
    if e.is_NumberSymbol:
        return float(e)
    f = e.func
    if isinstance(e, sympy.core.function.AppliedUndef) and str(e) in env:
        v = env[str(e)]  # amount of a compartment, A_X(t)
        if v is None:
            raise IRUndefined(str(e))
        return v
    try:
        if f is sympy.Add:
            r = 0.0
            for a in e.args:
                r += ir_eval(a, env)
            return _ir_chk(r)
        if f is sympy.Mul:
            r = 1.0
            for a in e.args:
                r *= ir_eval(a, env)
            return _ir_chk(r)
        if f is sympy.Pow:
            b = ir_eval(e.args[0], env)
            x = ir_eval(e.args[1], env)
            return _ir_chk(b**x)
        if f is sympy.Piecewise:
            for val, cond in e.args:
                if ir_eval(cond, env):
                    return ir_eval(val, env)
            raise IRUndefined('no piecewise branch applies')
        if f is sympy.And:
            return all([ir_eval(a, env) for a in e.args])
        if f is sympy.Or:
            return any([ir_eval(a, env) for a in e.args])
        if f is sympy.Not:
            return not ir_eval(e.args[0], env)
        if f in _IR_REL:
            return _IR_REL[f](ir_eval(e.args[0], env), ir_eval(e.args[1], env))
        name = f.__name__
        if name in _IR_FUNCS:
            return _ir_chk(_IR_FUNCS[name](*[ir_eval(a, env) for a in e.args]))
    except (OverflowError, ZeroDivisionError, ValueError) as exc:
        raise IRUndefined(f'{type(exc).__name__} in {e}')
    # unknown node: let sympy do it
    val = e.subs({sympy.Symbol(k): v for k, v in env.items() if v is not None})
    val = sympy.N(val)
    if val.is_Number and val.is_real and val.is_finite:
        return float(val)
    if val in (sympy.true, sympy.false):
        return bool(val)
    raise IRUndefined(f'cannot evaluate {e}')


def _ir_chk(x):
    if isinstance(x, complex) or x != x or x in (math.inf, -math.inf):
        raise IRUndefined('not a finite real')
    return x


def _init_ir_tables():
    import operator

    import sympy

    global _IR_REL, _IR_FUNCS
    _IR_REL = {
        sympy.Eq: operator.eq, sympy.Ne: operator.ne, sympy.Gt: operator.gt, sympy.Ge: operator.ge,
        sympy.Lt: operator.lt, sympy.Le: operator.le,
    }
    _IR_FUNCS = {
        'exp': math.exp, 'log': lambda x, *b: math.log(x, *b), 'Abs': abs,
        'sign': lambda x: (x > 0) - (x < 0), 'floor': math.floor, 'ceiling': math.ceil,
        'sin': math.sin, 'cos': math.cos, 'tan': math.tan, 'asin': math.asin, 'acos': math.acos,
        'atan': math.atan, 'loggamma': math.lgamma, 'sqrt': math.sqrt,
        'Mod': lambda a, p: a - p * math.floor(a / p),  # sympy Mod: result has the sign of p
        'Min': min, 'Max': max,
        'PHI': lambda x: 0.5 * (1.0 + math.erf(x / math.sqrt(2.0))),
        'erf': math.erf,
    }


_IR_REL = None
_IR_FUNCS = None


def ir_run(statements, env):
    """Evaluate pharmpy statements in order.  env maps name -> float (None = undefined)."""
    import sympy

    for s in statements:
        if not hasattr(s, 'expression'):
            continue
        try:
            v = ir_eval(sympy.sympify(s.expression), env)
            if isinstance(v, bool):
                v = float(v)
        except IRUndefined:
            v = None
        env[s.symbol.name] = v
    return env


def close(a, b, rtol=1e-9):
    return a == b or abs(a - b) <= rtol * max(abs(a), abs(b))


# --------------------------------------------------------------------------------------------------
# (1) bounded_abbreviated_code
# --------------------------------------------------------------------------------------------------

GRID = [{'WGT': float(w), 'AGE': float(a)} for w in (40, 60, 80) for a in (20, 50)]

_PRED_TEMPLATE = '''$PROBLEM bounded
$INPUT ID TIME DV WGT AGE
$DATA file.csv IGNORE=@
$PRED
%s
Y = THETA(1) + ETA(1) + EPS(1)
$THETA 1
$OMEGA 0.1
$SIGMA 1
$ESTIMATION METHOD=1
'''

_KIND_TEXT = {
    'block/plain': 'IF block (every symbol assigned in every branch, no data flow inside the block)',
    'block/reads': 'IF block (a right hand side reads a symbol assigned in the block)',
    'block/symcond': 'IF block (a condition reads a symbol assigned in the block)',
    'block/partial': 'IF block (a symbol is assigned in only some of the branches)',
    'block/dup': 'IF block (a branch assigns the same symbol twice)',
    'nested': 'nested IF',
    'logif': 'logical IF',
    'seq': 'sequence of statements assigning one symbol (assignment, logical IF, IF blocks with and without ELSE)',
    'expr': 'arithmetic expression',
    'cond': 'logical condition without parentheses',
    'cond/par': 'logical condition with parenthesised logical sub-expressions',
}


def _kind_text(kind):
    if kind.startswith('func/'):
        return 'intrinsic function ' + kind[5:]
    return _KIND_TEXT[kind]


def _parse_clause(kind):
    return _kind_text(kind) + ': valid NM-TRAN abbreviated code is read without error'


def _value_clause(kind):
    if kind.startswith('func/'):
        return _kind_text(kind) + ': value equals the NM-TRAN definition of the function'
    if kind == 'expr':
        return 'arithmetic expression: value follows Fortran operator precedence and associativity'
    if kind.startswith('cond'):
        return (_kind_text(kind) + ': truth value follows Fortran precedence (.NOT. over .AND. over .OR.)'
                ' and the relational operator meaning')
    return (_kind_text(kind) + ': every symbol assigned on the executed path has the value given by'
            ' sequential NM-TRAN semantics')


def _unassigned_clause(kind):
    return (_kind_text(kind) + ': a symbol that NM-TRAN leaves unassigned on the executed path is not'
            ' given a value')


def _suffix(lines, i):
    """rename the program variables VA/VB/VC/VX to VA<i>... so that programs can share one $PRED"""
    return [re.sub(r'\b(V[ABCX])\b', lambda m: f'{m.group(1)}{i}', ln) for ln in lines]


def gen_block_programs(tier):
    """all block-IF programs within the bound (lists of source lines over symbols VA, VB)"""
    thorough = tier == 'thorough'
    predefs = [(), ('VA',), ('VB',), ('VA', 'VB')]
    predef_line = {'VA': 'VA = WGT - 60', 'VB': 'VB = AGE'}
    cond_modes = {
        'data': ['WGT.GT.50', 'WGT.GT.70', 'AGE.GT.30'],
        'symbol': ['VA.GT.0', 'VA.GE.0', 'VB.GT.30'],
    }
    other = {'VA': 'VB', 'VB': 'VA'}

    def branch_bodies(b, maxlen, rhs_kinds):
        single = []
        for p in range(2):
            opts = []
            for tgt in ('VA', 'VB'):
                for kind in rhs_kinds:
                    k = 10 * (b + 1) + p + 1
                    if kind == 'const':
                        rhs = str(k)
                    elif kind == 'other':
                        rhs = f'{other[tgt]} + {k}'
                    else:
                        rhs = f'{tgt}*2 + {k}'
                    opts.append(f'{tgt} = {rhs}')
            single.append(opts)
        out = [[]]
        if maxlen >= 1:
            out += [[a] for a in single[0]]
        if maxlen >= 2:
            out += [[a, c] for a in single[0] for c in single[1]]
        return out

    shapes = [('if',), ('if', 'else'), ('if', 'elif'), ('if', 'elif', 'else'), ('if', 'elif', 'elif')]
    for shape in shapes:
        maxlen = 2 if (thorough or len(shape) < 3) else 1
        rhs_kinds = ('const', 'other', 'self') if (thorough and len(shape) < 3) else ('const', 'other')
        for bodies in itertools.product(
            *[branch_bodies(b, maxlen, rhs_kinds) for b in range(len(shape))]
        ):
            if not any(bodies):
                continue
            for mode, conds in cond_modes.items():
                for predef in (predefs if not (thorough and len(shape) == 3) else [(), ('VA', 'VB')]):
                    if mode == 'symbol':
                        # conditions must read defined symbols
                        need = {'VA'} | ({'VB'} if shape.count('elif') == 2 else set())
                        if not need <= set(predef):
                            continue
                    lines = [predef_line[s] for s in predef]
                    ci = 0
                    for kind, body in zip(shape, bodies):
                        if kind == 'if':
                            lines.append(f'IF ({conds[ci]}) THEN')
                            ci += 1
                        elif kind == 'elif':
                            lines.append(f'ELSE IF ({conds[ci]}) THEN')
                            ci += 1
                        else:
                            lines.append('ELSE')
                        lines.extend('  ' + b for b in body)
                    lines.append('ENDIF')
                    yield ('block/' + _block_class(shape, bodies, mode), lines)


def _block_class(shape, bodies, mode):
    targets = [[a.split('=')[0].strip() for a in body] for body in bodies]
    assigned = set(t for ts in targets for t in ts)
    if any(len(ts) != len(set(ts)) for ts in targets):
        return 'dup'
    if 'else' not in shape or any(set(ts) != assigned for ts in targets):
        return 'partial'
    if mode == 'symbol':
        nconds = sum(1 for k in shape if k != 'else')
        cond_reads = {'VA'} | ({'VB'} if nconds == 3 else set())
        if cond_reads & assigned:
            return 'symcond'
    reads = set(m for body in bodies for a in body for m in re.findall(r'V[AB]', a.split('=')[1]))
    if reads & assigned:
        return 'reads'
    return 'plain'


def gen_nested_programs(tier):
    """IF blocks nested one level inside the first or the ELSE branch of an outer block"""
    inner_shapes = [
        ['IF (AGE.GT.30) THEN', '  VB = 21', 'ENDIF'],
        ['IF (AGE.GT.30) THEN', '  VB = 21', 'ELSE', '  VB = 22', 'ENDIF'],
        ['IF (AGE.GT.30) THEN', '  VA = 23', 'ELSE', '  VB = 24', 'ENDIF'],
        ['IF (AGE.GT.30) VB = 25'],
    ]
    for predef in ([], ['VA = 1', 'VB = 2']):
        for inner in inner_shapes:
            for where in ('then', 'else'):
                for before in ([], ['  VA = 11']):
                    lines = list(predef) + ['IF (WGT.GT.50) THEN']
                    if where == 'then':
                        lines += before + ['  ' + ln for ln in inner]
                        lines += ['ELSE', '  VA = 12']
                    else:
                        lines += ['  VA = 12', 'ELSE'] + before + ['  ' + ln for ln in inner]
                    lines.append('ENDIF')
                    yield ('nested', lines)


def gen_logif_programs(tier):
    conds = ['WGT.GT.50', 'VA.GT.0', 'AGE.LT.30']
    for predef in ([], ['VA = WGT - 60'], ['VA = WGT - 60', 'VB = AGE']):
        for c1 in conds:
            for t1, r1 in (('VA', '5'), ('VA', 'VA + 5'), ('VB', 'VA + 7'), ('VB', '6')):
                if ('VA' in c1 or 'VA' in r1) and not predef:
                    continue
                one = list(predef) + [f'IF ({c1}) {t1} = {r1}']
                yield ('logif', one)
                for c2 in conds:
                    for t2, r2 in (('VA', '8'), ('VB', 'VB + 1'), ('VB', '9')):
                        if 'VB + 1' == r2 and len(predef) < 2 and t1 != 'VB':
                            continue
                        yield ('logif', one + [f'IF ({c2}) {t2} = {r2}'])


# sequences of statements that assign the same symbol ------------------------------------------------

# per position: (condition of the statement, second condition for its ELSE IF branch)
_SEQ_CONDS = (('WGT.GT.50', 'AGE.GT.30'), ('AGE.GT.30', 'WGT.GT.70'), ('WGT.GT.70', 'AGE.LT.30'),
              ('WGT.LT.50', 'AGE.GT.30'))
_SEQ_FORMS = ('assign', 'update', 'logif', 'logif/update', 'logif/symcond', 'block', 'block/else',
              'block/elseif', 'block/elseif/else', 'read')


def _seq_statement(form, pos):
    """source lines of the statement of the given form at position pos of a sequence; every form but 'read'
    assigns VA (and only VA), 'read' copies the current value of VA into VB"""
    c, d = _SEQ_CONDS[pos]
    k = 100 * (pos + 1)
    if form == 'assign':
        return [f'VA = {k + 1}']
    if form == 'update':
        return [f'VA = VA*2 + {k + 2}']
    if form == 'logif':
        return [f'IF ({c}) VA = {k + 3}']
    if form == 'logif/update':
        return [f'IF ({c}) VA = VA + {k + 4}']
    if form == 'logif/symcond':
        return [f'IF (VA.GT.{k - 92}) VA = {k + 5}']  # true for some, false for other values left by position pos-1
    if form == 'block':
        return [f'IF ({c}) THEN', f'  VA = {k + 6}', 'ENDIF']
    if form == 'block/else':
        return [f'IF ({c}) THEN', f'  VA = {k + 7}', 'ELSE', f'  VA = {k + 8}', 'ENDIF']
    if form == 'block/elseif':
        return [f'IF ({c}) THEN', f'  VA = {k + 9}', f'ELSE IF ({d}) THEN', f'  VA = {k + 10}', 'ENDIF']
    if form == 'block/elseif/else':
        return [f'IF ({c}) THEN', f'  VA = {k + 11}', f'ELSE IF ({d}) THEN', f'  VA = {k + 12}', 'ELSE',
                f'  VA = {k + 13}', 'ENDIF']
    if form == 'read':
        return [f'VB = VA + {k + 14}']
    raise ValueError(form)


def gen_seq_programs(tier):
    """every sequence of <=3 (thorough: <=4) statements, each in one of the forms of _SEQ_FORMS: what a
    conditional statement leaves behind when its condition is false depends on how (and whether) the symbol
    was assigned by the statements before it"""
    for n in range(1, (4 if tier == 'thorough' else 3) + 1):
        for forms in itertools.product(_SEQ_FORMS, repeat=n):
            lines = []
            for pos, form in enumerate(forms):
                lines += _seq_statement(form, pos)
            yield ('seq', lines)


# expression trees --------------------------------------------------------------------------------

_BIN = ('add', 'sub', 'mul', 'div', 'pow')
_OPERANDS = ('WGT', 'AGE', '2')
_PREC = {'add': 1, 'sub': 1, 'neg': 1, 'mul': 2, 'div': 2, 'pow': 3, 'leaf': 4}
_SYM = {'add': '+', 'sub': '-', 'mul': '*', 'div': '/', 'pow': '**'}


def _trees(depth):
    """all expression trees of depth <= depth with all operand fillings"""
    if depth == 0:
        return [('leaf', o) for o in _OPERANDS]
    sub = _trees(depth - 1)
    out = [('leaf', o) for o in _OPERANDS]
    out += [('neg', a) for a in sub]
    out += [(op, a, b) for op in _BIN for a in sub for b in sub]
    return out


def _shapes(depth):
    """all operator skeletons of depth <= depth (leaves unfilled)"""
    if depth == 0:
        return [('leaf',)]
    sub = _shapes(depth - 1)
    return [('leaf',)] + [('neg', a) for a in sub] + [(op, a, b) for op in _BIN for a in sub for b in sub]


def _fill(shape, counter):
    if shape[0] == 'leaf':
        o = _OPERANDS[counter[0] % 3]
        counter[0] += 1
        return ('leaf', o)
    return (shape[0],) + tuple(_fill(s, counter) for s in shape[1:])


def render_fortran(t):
    """print a tree with the MINIMAL parentheses that standard Fortran needs"""
    k = t[0]
    if k == 'leaf':
        return t[1]

    def par(x, minprec, allow_neg=False):
        s = render_fortran(x)
        if _PREC[x[0]] < minprec or (x[0] == 'neg' and not allow_neg):
            return '(' + s + ')'
        return s

    if k == 'neg':
        return '-' + par(t[1], 2)
    a, b = t[1], t[2]
    if k in ('add', 'sub'):
        return par(a, 1, allow_neg=True) + _SYM[k] + par(b, 2)
    if k in ('mul', 'div'):
        return par(a, 2) + _SYM[k] + par(b, 3)
    return par(a, 4) + '**' + par(b, 3)


def tree_eval(t, env):
    """direct evaluation of the enumerated tree (cross-check of renderer + reference parser)"""
    k = t[0]
    if k == 'leaf':
        return env[t[1]] if t[1] in env else float(t[1])
    if k == 'neg':
        return -tree_eval(t[1], env)
    a = tree_eval(t[1], env)
    b = tree_eval(t[2], env)
    try:
        r = {'add': lambda: a + b, 'sub': lambda: a - b, 'mul': lambda: a * b, 'div': lambda: a / b,
             'pow': lambda: a**b}[k]()
    except (OverflowError, ZeroDivisionError, ValueError):
        raise RefDomain(k)
    return _chk(r)


def gen_expr_programs(tier):
    if tier == 'thorough':
        seen = set()
        for t in _trees(2):
            s = render_fortran(t)
            seen.add(s)
            yield ('expr', ['VX = ' + s])
        for n, shape in enumerate(_shapes(3)):
            t = _fill(shape, [n])
            s = render_fortran(t)
            if s not in seen:
                seen.add(s)
                yield ('expr', ['VX = ' + s])
    else:
        for t in _trees(2):
            yield ('expr', ['VX = ' + render_fortran(t)])
    # spellings the minimal renderer never produces: redundant parentheses, unary plus,
    # real/double constants, blanks, long chains
    for s in ('+WGT-AGE', '(WGT)', '((WGT+AGE))*2', 'WGT - AGE - 2 - WGT', 'WGT/AGE/2/WGT',
              'WGT*AGE/2*WGT/AGE', '2**2**2**2', '2.**3.', '1.5D0*WGT', '1.5E+1*WGT', '.5*WGT',
              '2.E0**0.5', '1D1+WGT', 'WGT**0.5', 'WGT**(-0.5)', '-WGT**0.5', '-2**2', '2-2**2*2',
              '-(WGT-AGE)**2', 'WGT-(AGE-2)', 'WGT/(AGE/2)', '(WGT**AGE)**2', 'WGT**(1/2)',
              '1/2*WGT', 'WGT*1/2', '3/2', 'WGT**3/2', '-WGT/AGE*2', '-WGT+AGE*2', '- WGT - AGE'):
        yield ('expr', ['VX = ' + s])


def gen_cond_programs(tier):
    atoms = ['WGT.GT.50', 'AGE<30', 'WGT.EQ.60', 'AGE/=20', 'WGT>=60', 'AGE.LE.20']
    if tier != 'thorough':
        atoms3 = atoms[:4]
    else:
        atoms3 = atoms
    lits = lambda pool: [a for x in pool for a in (x, '.NOT.' + x)]  # noqa: E731
    seen = set()

    def emit(c, kind='cond'):
        if c not in seen:
            seen.add(c)
            return [(kind, ['VX = 0', f'IF ({c}) VX = 1'])]
        return []

    for a in lits(atoms):
        yield from emit(a)
    for a in lits(atoms):
        for b in lits(atoms):
            for op in ('.AND.', '.OR.'):
                yield from emit(a + op + b)
    for a in lits(atoms3):
        for b in lits(atoms3):
            for c in lits(atoms3):
                for op1 in ('.AND.', '.OR.'):
                    for op2 in ('.AND.', '.OR.'):
                        yield from emit(a + op1 + b + op2 + c)
    # every spelling of every relational operator, both operand orders, constants on the left,
    # lower case, blanks, parenthesised logical sub-expressions
    for op in ('.EQ.', '.NE.', '.GT.', '.GE.', '.LT.', '.LE.', '==', '/=', '>', '>=', '<', '<='):
        for lhs, rhs in (('WGT', '60'), ('60', 'WGT'), ('WGT', 'AGE+30'), ('WGT-AGE', '30'),
                         ('WGT', '60.'), ('60.0', 'WGT'), ('WGT', '6.E1')):
            yield from emit(lhs + op + rhs)
            yield from emit(f'{lhs} {op} {rhs}')
        yield from emit('wgt' + op.lower() + '60')
    for c in ('(WGT.GT.50.OR.AGE.LT.30).AND.WGT.EQ.60', 'WGT.GT.50.OR.(AGE.LT.30.AND.WGT.EQ.60)',
              '.NOT.(WGT.GT.50.OR.AGE.LT.30)', '.NOT.(WGT.GT.50.AND.AGE.LT.30)',
              '.NOT.(WGT.GT.50).AND.AGE.LT.30', '(WGT.GT.50)', '((WGT.GT.50).AND.(AGE.LT.30))',
              '(WGT.GT.50.AND.AGE.LT.30).OR.(WGT.EQ.40.AND.AGE.GE.30)',
              '.NOT.(WGT.GT.50.OR.AGE.LT.30).AND.(WGT.EQ.40.OR.AGE.GE.30)'):
        yield from emit(c, 'cond/par')
    for c in ('WGT.GT.50 .AND. AGE.LT.30 .OR. WGT.EQ.40', 'WGT.GT.50.AND..NOT.AGE.LT.30'):
        yield from emit(c)


_CANON = {'DEXP': 'EXP', 'DLOG': 'LOG', 'ALOG': 'LOG', 'DLOG10': 'LOG10', 'ALOG10': 'LOG10',
          'DSQRT': 'SQRT', 'DSIN': 'SIN', 'DCOS': 'COS', 'DTAN': 'TAN', 'PTAN': 'TAN', 'DABS': 'ABS',
          'DINT': 'INT', 'DMOD': 'MOD'}


def gen_func_programs(tier):
    args1 = ['WGT', 'WGT-60', '-WGT', 'WGT/100', 'WGT*2', '(WGT-60)/40', '-WGT/7', 'WGT/7',
             'AGE/7-5', '0']
    fn1 = ['EXP', 'DEXP', 'LOG', 'DLOG', 'ALOG', 'LOG10', 'DLOG10', 'ALOG10', 'SQRT', 'DSQRT', 'SIN',
           'DSIN', 'COS', 'DCOS', 'TAN', 'DTAN', 'PTAN', 'ASIN', 'ACOS', 'ATAN', 'ABS', 'DABS',
           'INT', 'DINT', 'GAMLN', 'PEXP', 'PLOG', 'PLOG10', 'PSQRT', 'PDZ', 'PZR', 'PNP', 'PHE', 'PNG',
           'PHI']
    for f in fn1:
        for a in args1:
            yield ('func/' + _CANON.get(f, f), [f'VX = {f}({a})'])
    yield ('func/EXP', ['VX = exp(wgt/100)'])
    yield ('func/EXP', ['VX = 2*EXP(-WGT/100)**2+LOG(AGE)'])
    args2 = [('WGT', '7'), ('-WGT', '7'), ('WGT', '-7'), ('-WGT', '-7'), ('WGT', 'AGE'), ('AGE', 'WGT'),
             ('WGT/7', '2.5'), ('WGT', '60'), ('60', 'WGT')]
    for f in ('MOD', 'DMOD', 'MIN', 'MAX'):
        for a, b in args2:
            yield ('func/' + _CANON.get(f, f), [f'VX = {f}({a},{b})'])
            if tier == 'thorough':
                yield ('func/' + _CANON.get(f, f), [f'VX = 1 + {f}({a}, {b})*2'])


_GENERATORS = {
    'block': gen_block_programs, 'nested': gen_nested_programs, 'logif': gen_logif_programs,
    'expr': gen_expr_programs, 'cond': gen_cond_programs, 'func': gen_func_programs,
}
# generators added later: their programs are enumerated (and batched) after all programs of _GENERATORS
_GENERATORS_LATER = {'seq': gen_seq_programs}


def _speedup():
    """pharmpy asks importlib.metadata for the lark version once per parse-tree node (half of the
    parse time).  The answer is a constant of the installation, so it is memoised for this process.
    Pure performance: the value returned is the one the unpatched call returns."""
    import functools

    import pharmpy.internals.parse.ignored as ign

    if not hasattr(ign.version, 'cache_info'):
        ign.version = functools.lru_cache(maxsize=None)(ign.version)


def _pool_init():
    warnings.filterwarnings('ignore')
    import pharmpy.modeling  # noqa: F401

    _speedup()
    _init_ir_tables()


def _check_programs(progs):
    """progs: list of (kind, lines).  Reads ONE $PRED model holding all programs (renamed apart).
    returns list of (index, nontrivial, [(clause_kind, clause, detail)])"""
    from pharmpy.modeling import read_model_from_string

    if _IR_REL is None:
        _init_ir_tables()
        _speedup()
    renamed = [_suffix(lines, i) for i, (_, lines) in enumerate(progs)]
    body = '\n'.join('\n'.join(r) for r in renamed)
    try:
        model = read_model_from_string(_PRED_TEMPLATE % body)
        statements = list(model.statements)
    except Exception as exc:  # any exception: the programs are valid NM-TRAN
        if len(progs) == 1:
            kind = progs[0][0]
            return [(0, True, [(_parse_clause(kind), f'{type(exc).__name__}: {str(exc)[:200]}')])]
        out = []
        for i, p in enumerate(progs):
            r = _check_programs([p])
            out.append((i, r[0][1], r[0][2]))
        return out

    ir_envs = []
    for point in GRID:
        ir_envs.append(ir_run(statements, dict(point)))

    out = []
    for i, (kind, _) in enumerate(progs):
        fails = []
        nontrivial = False
        try:
            prog = ref_parse_program(renamed[i])
        except RefSyntax as exc:  # a bug in this file, never hide it
            out.append((i, True, [('checker: reference parser accepts the enumerated program', str(exc))]))
            continue
        symbols = ref_assigned_symbols(prog)
        for point, ir_env in zip(GRID, ir_envs):
            try:
                ref_env = ref_run(prog, dict(point))
            except (RefUndefined, RefDomain):
                continue  # no NM-TRAN meaning at this data point: precondition false
            nontrivial = True
            for s in symbols:
                got = ir_env.get(s)
                if s in ref_env:
                    want = ref_env[s]
                    if got is None or not close(got, want):
                        fails.append((_value_clause(kind),
                                      f'at WGT={point["WGT"]:g} AGE={point["AGE"]:g}: NM-TRAN gives '
                                      f'{_unsuffix(s)}={want:.12g}, model statements give {got}'))
                        break
                elif got is not None and got != 0:
                    fails.append((_unassigned_clause(kind),
                                  f'at WGT={point["WGT"]:g} AGE={point["AGE"]:g}: NM-TRAN leaves '
                                  f'{_unsuffix(s)} unassigned, model statements give {got}'))
                    break
        seen = set()
        uniq = []
        for c, d in fails:
            if c not in seen:
                seen.add(c)
                uniq.append((c, d))
        out.append((i, nontrivial, uniq))
    return out


def _unsuffix(s):
    return re.sub(r'^(V[ABCX])\d+$', r'\1', s)


def _selfcheck_expr_renderer(tier):
    """the minimal-parenthesis renderer and the reference parser must agree with the tree itself"""
    bad = []
    for t in _trees(2):
        text = render_fortran(t)
        p = _P(ref_tokenize(text))
        ast = p.expr()
        for point in GRID:
            try:
                a = tree_eval(t, point)
            except RefDomain:
                a = None
            try:
                b = ref_eval(ast, dict(point))
            except RefDomain:
                b = None
            if (a is None) != (b is None) or (a is not None and not close(a, b)):
                bad.append(text)
                break
    return bad


def _run_pool(worker, jobs, chunksize=1):
    import multiprocessing as mp

    ctx = mp.get_context('fork')
    with ctx.Pool(NPROC, initializer=_pool_init) as pool:
        return pool.map(worker, jobs, chunksize=chunksize)


class _Also:
    """every failing case of each (fid, clause) key, in enumeration order, without repetitions
    (the `also` list of tools/BOUNDED_GUIDE.md)"""

    CAP = 300

    def __init__(self):
        self.cases = {}
        self.seen = set()

    def add(self, key, case):
        import json

        k = (key, json.dumps(case, sort_keys=True))
        if k not in self.seen:
            self.seen.add(k)
            self.cases.setdefault(key, []).append(case)

    def get(self, key, case):
        """the list for the entry whose reported (smallest) case is `case`; `case` is always a member: when it
        lies behind the cap it takes the last place"""
        every = self.cases.get(key, [case])
        out = every[: self.CAP]
        if case not in out:
            out = every[: self.CAP - 1] + [case]
        return out


def bounded_abbreviated_code(tier='quick'):
    programs = []
    counts = {}
    for gname, gen in _GENERATORS.items():
        n0 = len(programs)
        programs.extend(gen(tier))
        counts[gname] = len(programs) - n0
    nfirst = len(programs)
    for gname, gen in _GENERATORS_LATER.items():
        n0 = len(programs)
        programs.extend(gen(tier))
        counts[gname] = len(programs) - n0

    fails = {}
    bad = _selfcheck_expr_renderer(tier)
    if bad:
        fails[('checker', 'renderer')] = {
            'fid': FID_EXPR, 'clause': 'checker: expression renderer and reference parser agree',
            'detail': f'{bad[:3]}', 'case': {'kind': 'expr', 'lines': ['VX = ' + bad[0]]},
            'replay_fn': 'bounded_abbreviated_code_replay'}

    batch = 60
    jobs = [programs[i : min(i + batch, nfirst)] for i in range(0, nfirst, batch)]
    jobs += [programs[i : i + batch] for i in range(nfirst, len(programs), batch)]
    results = _run_pool(_check_programs, jobs)

    nontrivial = 0
    also = _Also()
    for job, res in zip(jobs, results):
        for i, nt, fl in res:
            nontrivial += bool(nt)
            kind, lines = job[i]
            for clause, detail in fl:
                fid = FID_PARSE_TREE if kind.split('/')[0] in ('block', 'nested', 'logif', 'seq') else FID_EXPR
                key = (fid, clause)
                size = (len(lines), sum(len(x) for x in lines), lines)
                also.add(key, {'kind': kind, 'lines': lines, 'clause': clause})
                if key not in fails or size < fails[key]['_size']:
                    fails[key] = {
                        'fid': fid, 'clause': clause,
                        'detail': detail + ' for program ' + ' | '.join(x.strip() for x in lines),
                        'case': {'kind': kind, 'lines': lines, 'clause': clause},
                        'replay_fn': 'bounded_abbreviated_code_replay', '_size': size}
    for key, f in fails.items():
        f.pop('_size', None)
        f['also'] = also.get(key, f['case'])
    depth = 3 if tier == 'thorough' else 2
    return {
        'cases': len(programs),
        'nontrivial': nontrivial,
        'bound': (
            f'$PRED programs: all IF blocks with <=3 branches (IF/ELSE IF/ELSE) x <=2 assignments per '
            f'branch{"" if tier == "thorough" else " (<=1 when 3 branches)"} over 2 target symbols, right '
            f'hand sides constant / other symbol+constant{" / self*2+constant (<=2 branches)" if tier == "thorough" else ""}'
            f', conditions on data or on symbols assigned in the block, 4 pre-definition patterns{" (2 when 3 branches)" if tier == "thorough" else ""} '
            f'[{counts["block"]}]; one-level nested IFs [{counts["nested"]}]; 1-2 logical IFs '
            f'[{counts["logif"]}]; all arithmetic trees of depth <=2 over + - * / ** unary- with operands '
            f'WGT, AGE, 2 printed with minimal parentheses'
            f'{" plus all operator skeletons of depth 3 with rotating operands" if depth == 3 else ""} '
            f'[{counts["expr"]}]; all conditions with <=3 relational atoms (optionally .NOT.) joined by '
            f'.AND./.OR. without parentheses, all 12 relational spellings [{counts["cond"]}]; 39 intrinsic/'
            f'protected functions x 10 arguments [{counts["func"]}]; all sequences of <={4 if tier == "thorough" else 3} '
            f'statements in {len(_SEQ_FORMS)} forms that assign one symbol (assignment, self-update, logical IF with '
            f'constant / self-update / condition on the symbol, IF block without ELSE, with ELSE, with ELSE IF, '
            f'with ELSE IF and ELSE) or copy its current value into a second symbol [{counts["seq"]}]; evaluated on '
            f'WGT in {{40,60,80}} x AGE in {{20,50}}'),
        'samples': [' | '.join(programs[i][1]) for i in (0, len(programs) // 2, len(programs) - 1)],
        'fails': sorted(fails.values(), key=lambda f: (f['fid'], f['clause'])),
    }


def bounded_abbreviated_code_replay(rp):
    case = rp['case']
    res = _check_programs([(case['kind'], list(case['lines']))])
    fl = [(c, d) for c, d in res[0][2] if case.get('clause') in (None, c)]
    if fl:
        return (False, '; '.join(f'{c}: {d}' for c, d in fl))
    return (True, 'ok')


# --------------------------------------------------------------------------------------------------
# (2) bounded_omega_theta_parse
# --------------------------------------------------------------------------------------------------

FID_THETA = 'src/pharmpy/model/external/nonmem/parsing.py:parse_thetas'
FID_THETA_REC = 'src/pharmpy/model/external/nonmem/records/theta_record.py:ThetaRecord'
FID_OMEGA_REC = 'src/pharmpy/model/external/nonmem/records/omega_record.py:OmegaRecord.parse'
FID_OMEGA_PARAMS = 'src/pharmpy/model/external/nonmem/parsing.py:parameters_from_blocks'
FID_RVS = 'src/pharmpy/model/external/nonmem/parsing.py:rvs_from_blocks'

_INF = math.inf


def _num(text):
    t = text.upper()
    if t in ('INF', '1000000'):
        return _INF
    if t in ('-INF', '-1000000'):
        return -_INF
    return float(t)


def gen_theta_items(tier):
    """-> list of (text, [(init, lower, upper, fix), ...]) : every documented $THETA form with an
    explicit initial estimate (NM-TRAN help, $THETA)"""
    inits = ['2', '-0.5', '1E-2', '.3'] + (['+4', '2.', '2.5E+1'] if tier == 'thorough' else [])
    lows = ['-INF', '-1000000', '0', '-3.5']
    ups = ['INF', '1000000', '10', '2.75']
    items = []

    def add(text, init, low, up, fix, n=1):
        items.append((text, [(float(init), low, up, fix)] * n))

    for i in inits:
        add(i, i, -_INF, _INF, False)
        add(f'{i} FIX', i, -_INF, _INF, True)
        add(f'{i} FIXED', i, -_INF, _INF, True)
        add(f'({i})', i, -_INF, _INF, False)
        add(f'({i} FIX)', i, -_INF, _INF, True)
        add(f'({i}) FIX', i, -_INF, _INF, True)
        add(f'({i})x2', i, -_INF, _INF, False, 2)
        add(f'({i} FIX)x3', i, -_INF, _INF, True, 3)
        # all bounds equal to the initial estimate: fixed (with or without the keyword)
        add(f'({i},{i},{i})', i, float(i), float(i), True)
        add(f'({i},{i},{i} FIX)', i, float(i), float(i), True)
        add(f'({i},{i} FIXED)', i, float(i), _INF, True)
        for lo in lows:
            if not _num(lo) < float(i):
                continue
            add(f'({lo},{i})', i, _num(lo), _INF, False)
            add(f'( {lo} , {i} )', i, _num(lo), _INF, False)
            add(f'({lo},{i}) FIX', i, _num(lo), _INF, True)
            add(f'({lo},{i})x2', i, _num(lo), _INF, False, 2)
            add(f'({lo},{i},)', i, _num(lo), _INF, False)
            for up in ups:
                if not float(i) < _num(up):
                    continue
                add(f'({lo},{i},{up})', i, _num(lo), _num(up), False)
                add(f'({lo}, {i}, {up}) FIXED', i, _num(lo), _num(up), True)
                add(f'({lo},{i},{up})x2', i, _num(lo), _num(up), False, 2)
    return items


def gen_theta_cases(tier):
    """-> list of (records text, expected thetas).  Items are packed 3 per record, 2 records per case
    (so every item also appears next to others and in a second record); plus all ordered pairs of a
    small pool within one record (keyword FIX / xn must attach to the right theta)."""
    items = gen_theta_items(tier)
    cases = []
    for k in range(0, len(items), 6):
        chunk = items[k : k + 6]
        recs = []
        exp = []
        for r in (chunk[:3], chunk[3:]):
            if r:
                recs.append('$THETA ' + ' '.join(t for t, _ in r))
                for _, e in r:
                    exp.extend(e)
        cases.append(('\n'.join(recs), exp, chunk))
    pool = [
        ('2', [(2.0, -_INF, _INF, False)]),
        ('3 FIX', [(3.0, -_INF, _INF, True)]),
        ('(0,4)', [(4.0, 0.0, _INF, False)]),
        ('(0,5,10)', [(5.0, 0.0, 10.0, False)]),
        ('(6)x2', [(6.0, -_INF, _INF, False)] * 2),
        ('(7 FIX)', [(7.0, -_INF, _INF, True)]),
        ('(-INF,8,INF) FIX', [(8.0, -_INF, _INF, True)]),
        ('(0,9)x2', [(9.0, 0.0, _INF, False)] * 2),
    ]
    for a, ea in pool:
        for b, eb in pool:
            cases.append((f'$THETA {a} {b}', ea + eb, [(a, ea), (b, eb)]))
            cases.append((f'$THETA {a}\n  {b} ; 2nd\n', ea + eb, [(a, ea), (b, eb)]))
    return cases


def _sym_from_lower(nums, n):
    import numpy as np

    A = np.zeros((n, n))
    k = 0
    for i in range(n):
        for j in range(i + 1):
            A[i, j] = A[j, i] = nums[k]
            k += 1
    return A


def ref_block_matrix(nums, n, mode):
    """covariance matrix defined by the numbers of a BLOCK(n) record under the NM-TRAN options
    mode: set of {'SD', 'CORR', 'CHOL'} (VARIANCE and COVARIANCE are the defaults)"""
    import numpy as np

    if 'CHOL' in mode:
        L = np.zeros((n, n))
        k = 0
        for i in range(n):
            for j in range(i + 1):
                L[i, j] = nums[k]
                k += 1
        return L @ L.T
    A = _sym_from_lower(nums, n)
    sd = np.array([A[i, i] if 'SD' in mode else math.sqrt(A[i, i]) for i in range(n)])
    C = np.zeros((n, n))
    for i in range(n):
        for j in range(n):
            if i == j:
                C[i, i] = sd[i] ** 2
            elif 'CORR' in mode:
                C[i, j] = A[i, j] * sd[i] * sd[j]
            else:
                C[i, j] = A[i, j]
    return C


_BLOCK_NUMS = {1: [0.3], 2: [0.8, -0.3, 0.7], 3: [0.8, 0.2, 0.7, -0.1, 0.3, 0.9],
               4: [0.8, 0.2, 0.7, -0.1, 0.3, 0.9, 0.05, -0.2, 0.1, 0.6]}
_MODES = [
    ('', ''), ('VARIANCE', 'VAR'), ('STANDARD', 'SD'), ('CORRELATION', 'CORR'),
    ('STANDARD CORRELATION', 'SD CORR'), ('CORRELATION STANDARD', 'CORR SD'),
    ('VARIANCE CORRELATION', 'VAR CORR'), ('VARIANCE COVARIANCE', 'VAR COV'),
    ('STANDARD COVARIANCE', 'SD COV'), ('COVARIANCE', 'COV'), ('CHOLESKY', 'CHOL'),
]


def _mode_set(long):
    m = set()
    if 'STANDARD' in long:
        m.add('SD')
    if 'CORRELATION' in long:
        m.add('CORR')
    if 'CHOLESKY' in long:
        m.add('CHOL')
    return m


def _fmt_rows(nums, n):
    rows = []
    k = 0
    for i in range(n):
        rows.append(' '.join(f'{x:g}' for x in nums[k : k + i + 1]))
        k += i + 1
    return rows


def gen_cov_records(tier):
    """-> list of (family, record body (without $OMEGA/$SIGMA), blocks)
    blocks: list of {'cov': matrix, 'fix': bool} | {'same': m}"""
    import numpy as np

    recs = []

    def diag(text, entries):
        recs.append(('diagonal', text,
                     [{'cov': np.array([[v]]), 'fix': f} for v, f in entries]))

    diag('0.09', [(0.09, False)])
    diag('0.09 FIX', [(0.09, True)])
    diag('0.09 FIXED', [(0.09, True)])
    diag('(0.09)', [(0.09, False)])
    diag('(0.09 FIX)', [(0.09, True)])
    diag('(FIX 0.09)', [(0.09, True)])
    diag('(0.09,FIXED)', [(0.09, True)])
    diag('0.3 SD', [(0.09, False)])
    diag('(0.3 SD)', [(0.09, False)])
    diag('(SD 0.3)', [(0.09, False)])
    diag('(0.3 STANDARD)', [(0.09, False)])
    diag('(0.3 STANDARD FIX)', [(0.09, True)])
    diag('(0.3 FIX SD)', [(0.09, True)])
    diag('0.09 VARIANCE', [(0.09, False)])
    diag('(0.09 VARIANCE)', [(0.09, False)])
    diag('(0.09)x2', [(0.09, False)] * 2)
    diag('(0.09 FIX)x2', [(0.09, True)] * 2)
    diag('(0.3 SD)x3', [(0.09, False)] * 3)
    diag('0.09 0.25', [(0.09, False), (0.25, False)])
    diag('0.09\n 0.25 ; 2nd value\n', [(0.09, False), (0.25, False)])
    diag('DIAGONAL(2) 0.09 0.25', [(0.09, False), (0.25, False)])
    diag('DIAG(3) 0.09 0.25 0.16', [(0.09, False), (0.25, False), (0.16, False)])
    diag('0.09 FIX 0.25', [(0.09, True), (0.25, False)])
    diag('0.09 0.25 FIX', [(0.09, False), (0.25, True)])
    diag('(0.3 SD) 0.25', [(0.09, False), (0.25, False)])
    diag('0.25 (0.3 SD)', [(0.25, False), (0.09, False)])
    diag('0.3 SD 0.5 SD', [(0.09, False), (0.25, False)])
    diag('(0.09)x2 0.25 FIX', [(0.09, False), (0.09, False), (0.25, True)])
    diag('0 FIX', [(0.0, True)])
    diag('1E-2 2.5E-1', [(0.01, False), (0.25, False)])

    for n in ((1, 2, 3, 4) if tier == 'thorough' else (1, 2, 3)):
        nums = _BLOCK_NUMS[n]
        rows = _fmt_rows(nums, n)
        flat = ' '.join(rows)
        for long, short in _MODES:
            mode = _mode_set(long)
            if n == 1 and 'CORR' in mode:
                continue
            cov = ref_block_matrix(nums, n, mode)
            for fix in (False, True):
                fx = ' FIX' if fix else ''
                blk = [{'cov': cov, 'fix': fix}]
                # options before BLOCK(n), rows on separate lines
                recs.append(('block', f'{long} BLOCK({n}){fx}\n ' + '\n '.join(rows) + '\n', blk))
                # abbreviated options after BLOCK(n), one line
                recs.append(('block', f'BLOCK({n}) {short}{fx} {flat}', blk))
                # options after the values
                recs.append(('block', f'BLOCK({n}) {flat} {short}{" FIXED" if fix else ""}', blk))
                # options / FIX in parentheses with the first value
                inner = ' '.join(x for x in (short, 'FIX' if fix else '') if x)
                if inner:
                    rest = ' '.join(f'{x:g}' for x in nums[1:])
                    recs.append(('block', f'BLOCK({n}) ({nums[0]:g} {inner}) {rest}', blk))
    # (value)xn inside a block
    nums = [0.8, 0.1, 0.7, 0.1, 0.1, 0.9]
    recs.append(('block', 'BLOCK(3) 0.8 0.1 0.7 (0.1)x2 0.9',
                 [{'cov': ref_block_matrix(nums, 3, set()), 'fix': False}]))
    nums = [0.8, 0.1, 0.7, 0.1, 0.1, 0.9]
    recs.append(('block', 'BLOCK(3) FIX 0.8 (0.1)x1 0.7 (0.1)x2 0.9',
                 [{'cov': ref_block_matrix(nums, 3, set()), 'fix': True}]))
    nums = [0.5, 0.1, 0.5]
    recs.append(('block', 'BLOCK(2) 0.5 0.1 0.5 ; 3 values\n',
                 [{'cov': ref_block_matrix(nums, 2, set()), 'fix': False}]))
    # BLOCK(n) VALUES(diag,odiag)
    for n in (2, 3):
        cov = np.full((n, n), 0.1)
        np.fill_diagonal(cov, 0.5)
        recs.append(('values', f'BLOCK({n}) VALUES(0.5,0.1)', [{'cov': cov, 'fix': False}]))
        recs.append(('values', f'BLOCK({n}) VALUES(0.5, 0.1) FIX', [{'cov': cov, 'fix': True}]))
        recs.append(('values', f'BLOCK({n}) FIX VALUES(0.5,0.1)', [{'cov': cov, 'fix': True}]))
    return recs


def gen_cov_cases(tier):
    """-> list of record sequences [(family, body, blocks), ...]"""
    import numpy as np

    singles = gen_cov_records(tier)
    cases = [[r] for r in singles]
    # SAME after a block
    starts = [
        ('block', 'BLOCK(1) 0.3', [{'cov': np.array([[0.3]]), 'fix': False}]),
        ('block', 'BLOCK(2) 0.8 -0.3 0.7',
         [{'cov': ref_block_matrix(_BLOCK_NUMS[2], 2, set()), 'fix': False}]),
        ('block', 'BLOCK(2) SD CORR FIX 0.8 -0.3 0.7',
         [{'cov': ref_block_matrix(_BLOCK_NUMS[2], 2, {'SD', 'CORR'}), 'fix': True}]),
        ('block', 'BLOCK(3) 0.8 0.2 0.7 -0.1 0.3 0.9',
         [{'cov': ref_block_matrix(_BLOCK_NUMS[3], 3, set()), 'fix': False}]),
    ]
    tail = ('diagonal', '0.25', [{'cov': np.array([[0.25]]), 'fix': False}])
    for st in starts:
        n = len(st[2][0]['cov'])
        sames = [
            ('same', f'BLOCK({n}) SAME', [{'same': 1}]),
            ('same', 'BLOCK SAME', [{'same': 1}]),
            ('same', f'BLOCK({n}) SAME(2)', [{'same': 2}]),
            ('same', 'BLOCK SAME(3)', [{'same': 3}]),
        ]
        for s1 in sames:
            cases.append([st, s1])
            cases.append([st, s1, tail])
            cases.append([tail, st, s1])
            for s2 in sames[:2]:
                cases.append([st, s1, s2])
    # ordered pairs of ordinary records
    pool = [r for r in singles if r[1] in (
        '0.09', '0.09 FIX', '(0.3 SD)', '(0.09)x2', '0.09 0.25 FIX',
        'BLOCK(2) SD CORR 0.8 -0.3 0.7', 'BLOCK(2) 0.8 -0.3 0.7 FIXED', 'BLOCK(1) VAR 0.3',
        'BLOCK(3) CHOL 0.8 0.2 0.7 -0.1 0.3 0.9')]
    for a in pool:
        for b in pool:
            cases.append([a, b])
    return cases


_PARAM_TEMPLATE = '''$PROBLEM bounded
$INPUT ID TIME DV WGT AGE
$DATA file.csv IGNORE=@
$PRED
Y = THETA(1) + ETA(1) + EPS(1)
%s
$ESTIMATION METHOD=1
'''

_TRIVIAL = {'THETA': '$THETA 1', 'OMEGA': '$OMEGA 0.1', 'SIGMA': '$SIGMA 1'}


def _cov_text(seq, name):
    return '\n'.join(f'${name} {body}' for _, body, _ in seq)


def _expand_blocks(seq):
    """-> per record: list of (cov, fix, shares_previous)"""
    out = []
    prev = None
    for fam, body, blocks in seq:
        cur = []
        for b in blocks:
            if 'same' in b:
                for _ in range(b['same']):
                    cur.append((prev[0], prev[1], True))
            else:
                prev = (b['cov'], b['fix'])
                cur.append((b['cov'], b['fix'], False))
        out.append(cur)
    return out


def _check_cov(model, seq, name):
    """compare the etas ($OMEGA) or epsilons ($SIGMA) of the model with the record sequence"""
    import numpy as np
    import sympy

    rvs = model.random_variables.etas if name == 'OMEGA' else model.random_variables.epsilons
    params = model.parameters
    pdict = {p.name: p for p in params}
    M = sympy.Matrix(rvs.covariance_matrix) if len(rvs.names) else sympy.zeros(0, 0)
    inits = {sympy.Symbol(p.name): p.init for p in params}
    fails = []
    expanded = _expand_blocks(seq)
    ntot = sum(len(c) for blocks in expanded for c, _, _ in blocks)
    off = 0
    prev_syms = None
    used_syms = []
    for (fam, body, _), blocks in zip(seq, expanded):
        where = f'${name} {body.strip()}'
        for cov, fix, shared in blocks:
            n = len(cov)
            if off + n > M.shape[0]:
                fails.append((fam, 'matrix', f'{where}: the model has only {M.shape[0]} random '
                              f'variables, the records define {ntot}'))
                return fails
            sub = M[off : off + n, off : off + n]
            rows = M[off : off + n, :]
            num = np.array(rows.subs(inits).tolist(), dtype=float)
            want = np.zeros((n, M.shape[1]))
            want[:, off : off + n] = cov
            if want.shape != num.shape or not np.allclose(num, want, rtol=1e-9, atol=1e-14):
                fails.append((fam, 'matrix', f'{where}: rows {off + 1}..{off + n} of the covariance '
                              f'matrix are {num.tolist()}, the record defines {want.tolist()}'))
                return fails
            syms = [sub[i, j] for i in range(n) for j in range(i + 1)]
            for s in syms:
                if not s.is_Symbol or s.name not in pdict:
                    fails.append((fam, 'matrix', f'{where}: covariance entry {s} is not a parameter'))
                    return fails
            fx = [pdict[s.name].fix for s in syms]
            if any(f != fix for f in fx):
                fails.append((fam, 'fix', f'{where}: FIX of the block is {fix}, parameters '
                              f'{[s.name for s in syms]} have fix={fx}'))
            if shared:
                if syms != prev_syms:
                    fails.append((fam, 'same', f'{where}: SAME block uses parameters '
                                  f'{[s.name for s in syms]}, previous block {[str(s) for s in prev_syms]}'))
            else:
                used_syms.extend(s.name for s in syms)
            prev_syms = syms
            off += n
    if off != M.shape[0]:
        fam = seq[-1][0]
        fails.append((fam, 'matrix', f'the model has {M.shape[0]} random variables, the ${name} records '
                      f'define {off}'))
    prefix = name + '_'
    declared = [p.name for p in params if p.name.startswith(prefix)]
    if sorted(declared) != sorted(set(used_syms)) and not fails:
        fam = 'same' if any(f == 'same' for f, _, _ in seq) else seq[-1][0]
        fails.append((fam, 'count', f'${name} parameters of the model are {declared}, the records '
                      f'define {len(set(used_syms))} distinct parameters ({sorted(set(used_syms))})'))
    return fails


def _check_theta(model, expected):
    rvp = set(model.random_variables.parameter_names)
    got = [(p.init, p.lower, p.upper, p.fix) for p in model.parameters if p.name not in rvp]
    if len(got) != len(expected):
        return f'{len(got)} thetas read, {len(expected)} written'
    for k, (g, e) in enumerate(zip(got, expected), 1):
        if not (close(g[0], e[0], 1e-14) and g[1] == e[1] and g[2] == e[2] and g[3] == e[3]):
            return f'THETA({k}): read (init, lower, upper, fix)={g}, written {e}'
    return None


THETA_VALUE_CLAUSE = ('$THETA: number, initial estimate, bounds and fixedness of the thetas equal the '
                      'values written in the record')
_COV_CLAUSE = {
    'matrix': 'the covariance matrix of the random variables at the initial estimates equals the matrix the record defines under its VARIANCE/STANDARD, COVARIANCE/CORRELATION, CHOLESKY options (zero between blocks)',
    'fix': 'every parameter of a block/value is fixed exactly if FIX is given for it',
    'same': 'a SAME block has the parameters of the previous block',
    'count': 'the records define exactly the covariance parameters of the model (SAME adds none)',
}
_COV_FID = {'matrix': FID_OMEGA_REC, 'fix': FID_OMEGA_PARAMS, 'same': FID_RVS, 'count': FID_OMEGA_PARAMS}
_FAMILY_TEXT = {
    'diagonal': 'diagonal record', 'block': 'BLOCK(n) record', 'same': 'BLOCK SAME record',
    'values': 'BLOCK(n) VALUES(diag,odiag) record',
}


def _check_param_case(case):
    """case = {'theta': (text, expected) , 'omega': seq, 'sigma': seq} -> list of fail tuples
    (fid, clause, detail, part)"""
    from pharmpy.modeling import read_model_from_string

    _speedup()
    ttext, texp, titems = case['theta']
    parts = {'THETA': ttext, 'OMEGA': _cov_text(case['omega'], 'OMEGA'),
             'SIGMA': _cov_text(case['sigma'], 'SIGMA')}
    fails = []

    def read(p):
        return read_model_from_string(_PARAM_TEMPLATE % '\n'.join(p[k] for k in ('THETA', 'OMEGA', 'SIGMA')))

    def family(seq):
        fams = [f for f, _, _ in seq]
        for f in ('values', 'same'):
            if f in fams:
                return f
        return fams[-1] if len(set(fams)) == 1 else 'block' if 'block' in fams else fams[-1]

    def check_part(model, which):
        if which == 'THETA':
            d = _check_theta(model, texp)
            if d:
                fails.append((FID_THETA, THETA_VALUE_CLAUSE, f'{ttext!r}: {d}', which))
        else:
            seq = case['omega'] if which == 'OMEGA' else case['sigma']
            seen = set()
            for fam, what, detail in _check_cov(model, seq, which):
                clause = f'${which} {_FAMILY_TEXT[fam]}: {_COV_CLAUSE[what]}'
                if clause not in seen:
                    seen.add(clause)
                    fails.append((_COV_FID[what], clause, detail, which))

    try:
        model = read(parts)
    except Exception:
        # find the part(s) that cannot be read: each alone with trivial other records
        for which in ('THETA', 'OMEGA', 'SIGMA'):
            p = dict(_TRIVIAL)
            p[which] = parts[which]
            try:
                m1 = read(p)
            except Exception as exc:
                if which == 'THETA':
                    # one item per model, so that one unreadable form does not hide the others
                    for itext, iexp in titems:
                        p1 = dict(_TRIVIAL)
                        p1['THETA'] = '$THETA ' + itext
                        try:
                            m2 = read(p1)
                        except Exception as exc2:
                            fails.append((FID_THETA_REC, '$THETA: documented record form is read without error',
                                          f'{p1["THETA"]!r}: {type(exc2).__name__}: {str(exc2)[:150]}', which))
                        else:
                            d = _check_theta(m2, iexp)
                            if d:
                                fails.append((FID_THETA, THETA_VALUE_CLAUSE, f'{p1["THETA"]!r}: {d}', which))
                    continue
                else:
                    seq = case['omega'] if which == 'OMEGA' else case['sigma']
                    fid = FID_OMEGA_REC
                    clause = f'${which} {_FAMILY_TEXT[family(seq)]}: documented record form is read without error'
                fails.append((fid, clause, f'{parts[which]!r}: {type(exc).__name__}: {str(exc)[:150]}', which))
            else:
                check_part(m1, which)
        return fails
    for which in ('THETA', 'OMEGA', 'SIGMA'):
        try:
            check_part(model, which)
        except Exception as exc:
            fails.append((FID_RVS, f'${which}: parameters and random variables of the read model can be '
                          'evaluated', f'{parts[which]!r}: {type(exc).__name__}: {str(exc)[:150]}', which))
    return fails


def _param_cases(tier):
    thetas = gen_theta_cases(tier)
    covs = gen_cov_cases(tier)
    n = max(len(thetas), len(covs))
    cases = []
    for i in range(n):
        # $SIGMA runs through the same list shifted, so that every form is read for both records
        cases.append({'theta': thetas[i % len(thetas)], 'omega': covs[i % len(covs)],
                      'sigma': covs[(i + len(covs) // 2) % len(covs)]})
    return cases, len(thetas), len(covs)


def _enc(x):
    if isinstance(x, float) and math.isinf(x):
        return 'inf' if x > 0 else '-inf'
    return x


def _case_json(case, which):
    """json-serialisable, self-contained description of one part of a case"""
    if which == 'THETA':
        return {'part': 'THETA', 'text': case['theta'][0],
                'expected': [[_enc(v) for v in e] for e in case['theta'][1]]}
    seq = case['omega'] if which == 'OMEGA' else case['sigma']
    return {'part': which, 'bodies': [b for _, b, _ in seq], 'families': [f for f, _, _ in seq],
            'blocks': [[({'same': b['same']} if 'same' in b else
                         {'cov': [list(map(float, r)) for r in b['cov']], 'fix': b['fix']})
                        for b in blocks] for _, _, blocks in seq]}


def bounded_omega_theta_parse(tier='quick'):
    cases, nt, nc = _param_cases(tier)
    results = _run_pool(_check_param_case, cases)
    fails = {}
    also = _Also()
    for case, res in zip(cases, results):
        for fid, clause, detail, which in res:
            cj = _case_json(case, which)
            size = len(str(cj))
            key = (fid, clause)
            also.add(key, dict(cj, clause=clause))
            if key not in fails or size < fails[key]['_size']:
                fails[key] = {'fid': fid, 'clause': clause, 'detail': detail,
                              'case': dict(cj, clause=clause),
                              'replay_fn': 'bounded_omega_theta_parse_replay', '_size': size}
    for key, f in fails.items():
        f.pop('_size')
        f['also'] = also.get(key, f['case'])
    nthetas = sum(len(c['theta'][1]) for c in cases[:nt])
    return {
        'cases': len(cases),
        'nontrivial': len(cases),
        'bound': (
            f'{len(cases)} control streams covering: every $THETA form with explicit initial estimate '
            f'(init | (init) | (low,init) | (low,init,up) | xn repeats | FIX inside/outside | all bounds equal) '
            f'over {4 if tier != "thorough" else 7} initial values x 4 lower x 4 upper bounds ({nthetas} thetas in '
            f'{nt} record sets) and all ordered pairs of 8 forms; {nc} $OMEGA and $SIGMA record sequences: 30 '
            f'diagonal forms, BLOCK(n) n<={4 if tier == "thorough" else 3} x 11 option sets (VARIANCE|STANDARD x COVARIANCE|CORRELATION, '
            f'CHOLESKY) x 4 option placements x FIX, (v)xn in blocks, VALUES(d,o), SAME / SAME(m) after 4 '
            f'blocks (<=3 records), all ordered pairs of 9 records'),
        'samples': [cases[0]['theta'][0], _cov_text(cases[40]['omega'], 'OMEGA'),
                    _cov_text(cases[-1]['omega'], 'OMEGA')],
        'fails': sorted(fails.values(), key=lambda f: (f['fid'], f['clause'])),
    }


def bounded_omega_theta_parse_replay(rp):
    import numpy as np

    c = rp['case']
    trivial_seq = [('diagonal', '0.1', [{'cov': np.array([[0.1]]), 'fix': False}])]
    case = {'theta': ('$THETA 1', [(1.0, -_INF, _INF, False)], [('1', [(1.0, -_INF, _INF, False)])]),
            'omega': trivial_seq, 'sigma': trivial_seq}
    if c['part'] == 'THETA':
        exp = [tuple(float(v) if isinstance(v, str) else v for v in e) for e in c['expected']]
        case['theta'] = (c['text'], exp, [(c['text'].replace('$THETA ', '', 1), exp)])
    else:
        seq = []
        for fam, body, blocks in zip(c['families'], c['bodies'], c['blocks']):
            seq.append((fam, body, [b if 'same' in b else {'cov': np.array(b['cov']), 'fix': b['fix']}
                                    for b in blocks]))
        case['omega' if c['part'] == 'OMEGA' else 'sigma'] = seq
    res = [r for r in _check_param_case(case) if r[3] == c['part'] and r[1] == c.get('clause', r[1])]
    if res:
        return (False, res[0][2])
    return (True, 'ok')


# --------------------------------------------------------------------------------------------------
# (3) bounded_advan_trans
# --------------------------------------------------------------------------------------------------

FID_ADVAN = 'src/pharmpy/model/external/nonmem/advan.py:_compartmental_model'
FID_FLINK = 'src/pharmpy/model/external/nonmem/advan.py:_f_link_assignment'
FID_DOSING = 'src/pharmpy/model/external/nonmem/advan.py:dosing'

# PREDPP library (NONMEM Users Guide VI / help ADVANn, TRANSn) -------------------------------------
# compartments are numbered as in PREDPP; 0 is the output compartment
PREDPP_ADVAN = {
    # advan: (n compartments, default dose, default obs, {(from, to): micro constant})
    1: (1, 1, 1, {(1, 0): 'K'}),
    2: (2, 1, 2, {(1, 2): 'KA', (2, 0): 'K'}),
    3: (2, 1, 1, {(1, 0): 'K', (1, 2): 'K12', (2, 1): 'K21'}),
    4: (3, 1, 2, {(1, 2): 'KA', (2, 0): 'K', (2, 3): 'K23', (3, 2): 'K32'}),
    10: (1, 1, 1, {(1, 0): 'VM/(KM+A1)'}),
    11: (3, 1, 1, {(1, 0): 'K', (1, 2): 'K12', (2, 1): 'K21', (1, 3): 'K13', (3, 1): 'K31'}),
    12: (4, 1, 2, {(1, 2): 'KA', (2, 0): 'K', (2, 3): 'K23', (3, 2): 'K32', (2, 4): 'K24',
                   (4, 2): 'K42'}),
}

# (advan, trans): (basic PK parameters in $PK, [(micro constant, definition)...] in evaluation order)
_T56_2 = lambda kpc, kcp: [  # noqa: E731  two-compartment TRANS6 (kpc: periph->central)
    ('K', f'ALPHA*BETA/{kpc}'), (kcp, f'ALPHA+BETA-{kpc}-K')]
_T6_3 = lambda k21, k31, k12, k13: [  # noqa: E731  three-compartment TRANS6
    ('K', f'ALPHA*BETA*GAMMA/({k21}*{k31})'),
    (k13, f'(ALPHA*BETA+ALPHA*GAMMA+BETA*GAMMA+{k31}*{k31}-{k31}*(ALPHA+BETA+GAMMA)-K*{k21})/({k21}-{k31})'),
    (k12, f'ALPHA+BETA+GAMMA-K-{k13}-{k21}-{k31}')]
PREDPP_TRANS = {
    (1, 1): (['K'], []),
    (1, 2): (['CL', 'V'], [('K', 'CL/V')]),
    (2, 1): (['K', 'KA'], []),
    (2, 2): (['CL', 'V', 'KA'], [('K', 'CL/V')]),
    (3, 1): (['K', 'K12', 'K21'], []),
    (3, 3): (['CL', 'V', 'Q', 'VSS'], [('K', 'CL/V'), ('K12', 'Q/V'), ('K21', 'Q/(VSS-V)')]),
    (3, 4): (['CL', 'V1', 'Q', 'V2'], [('K', 'CL/V1'), ('K12', 'Q/V1'), ('K21', 'Q/V2')]),
    (3, 5): (['AOB', 'ALPHA', 'BETA'], [('K21', '(AOB*BETA+ALPHA)/(AOB+1)')] + _T56_2('K21', 'K12')),
    (3, 6): (['ALPHA', 'BETA', 'K21'], _T56_2('K21', 'K12')),
    (4, 1): (['K', 'K23', 'K32', 'KA'], []),
    (4, 3): (['CL', 'V', 'Q', 'VSS', 'KA'], [('K', 'CL/V'), ('K23', 'Q/V'), ('K32', 'Q/(VSS-V)')]),
    (4, 4): (['CL', 'V2', 'Q', 'V3', 'KA'], [('K', 'CL/V2'), ('K23', 'Q/V2'), ('K32', 'Q/V3')]),
    (4, 5): (['AOB', 'ALPHA', 'BETA', 'KA'],
             [('K32', '(AOB*BETA+ALPHA)/(AOB+1)')] + _T56_2('K32', 'K23')),
    (4, 6): (['ALPHA', 'BETA', 'K32', 'KA'], _T56_2('K32', 'K23')),
    (10, 1): (['VM', 'KM'], []),
    (11, 1): (['K', 'K12', 'K21', 'K13', 'K31'], []),
    (11, 4): (['CL', 'V1', 'Q2', 'V2', 'Q3', 'V3'],
              [('K', 'CL/V1'), ('K12', 'Q2/V1'), ('K21', 'Q2/V2'), ('K13', 'Q3/V1'), ('K31', 'Q3/V3')]),
    (11, 6): (['ALPHA', 'BETA', 'GAMMA', 'K21', 'K31'], _T6_3('K21', 'K31', 'K12', 'K13')),
    (12, 1): (['K', 'K23', 'K32', 'K24', 'K42', 'KA'], []),
    (12, 4): (['CL', 'V2', 'Q3', 'V3', 'Q4', 'V4', 'KA'],
              [('K', 'CL/V2'), ('K23', 'Q3/V2'), ('K32', 'Q3/V3'), ('K24', 'Q4/V2'), ('K42', 'Q4/V4')]),
    (12, 6): (['ALPHA', 'BETA', 'GAMMA', 'K32', 'K42', 'KA'], _T6_3('K32', 'K42', 'K23', 'K24')),
}


def predpp_rates(advan, trans, basic_values):
    """{(from, to): sympy expression} of the rate constants in terms of basic_values (name -> expr)"""
    import sympy

    env = dict(basic_values)
    for name, definition in PREDPP_TRANS[(advan, trans)][1]:
        env[name] = sympy.sympify(definition, locals={k: v for k, v in env.items()})
    env['A1'] = sympy.Symbol('__A1')
    rates = {}
    for ft, k in PREDPP_ADVAN[advan][3].items():
        rates[ft] = sympy.sympify(k, locals=env)
    return rates


def _selfcheck_predpp_table():
    """TRANS5/TRANS6 tables: -ALPHA, -BETA(, -GAMMA) must be the eigenvalues of the rate matrix and
    AOB the ratio of the bolus response coefficients (defining properties of these parameters)"""
    import numpy as np
    import sympy

    bad = []
    vals = {'ALPHA': 1.7, 'BETA': 0.23, 'GAMMA': 0.041, 'AOB': 3.1, 'K21': 0.5, 'K32': 0.5,
            'K31': 0.08, 'K42': 0.08, 'KA': 2.9}
    for (advan, trans), (basic, _) in PREDPP_TRANS.items():
        if trans not in (5, 6):
            continue
        bv = {b: sympy.Float(vals[b]) for b in basic}
        rates = predpp_rates(advan, trans, bv)
        n = PREDPP_ADVAN[advan][0]
        M = np.zeros((n, n))
        for (f, t), r in rates.items():
            M[f - 1, f - 1] -= float(r)
            if t != 0:
                M[t - 1, f - 1] += float(r)
        ev = sorted(-np.linalg.eigvals(M).real)
        want = sorted([vals[x] for x in ('ALPHA', 'BETA', 'GAMMA') if x in basic]
                      + ([vals['KA']] if 'KA' in basic else []))
        if not np.allclose(ev, want, rtol=1e-9):
            bad.append((advan, trans, ev, want))
        if trans == 5:
            central = PREDPP_ADVAN[advan][2]
            kpc = float([r for (f, t), r in rates.items() if t == central and f == central + 1][0])
            aob = (vals['ALPHA'] - kpc) / (kpc - vals['BETA'])
            if not math.isclose(aob, vals['AOB'], rel_tol=1e-9):
                bad.append((advan, trans, 'AOB', aob))
    return bad


_SCALE_VARIANTS = ('none', 'Sobs', 'SC', 'Sother', 'Sboth', 'Sout')
_ATTR_VARIANTS = ('none', 'ALAGdose', 'Fdose', 'ALAGother', 'Fother', 'all')
_DATA_VARIANTS = ('nodata', 'rate-2', 'rate-1', 'rate10', 'rate0', 'cmt2')


def gen_advan_cases(tier):
    cases = []
    for (advan, trans) in PREDPP_TRANS:
        n, dose, obs, _ = PREDPP_ADVAN[advan]
        for scale in _SCALE_VARIANTS:
            for attr in _ATTR_VARIANTS:
                if n == 1 and attr in ('ALAGother', 'Fother'):
                    continue
                cases.append({'advan': advan, 'trans': trans, 'scale': scale, 'attr': attr,
                              'data': 'nodata'})
        for data in _DATA_VARIANTS[1:]:
            if data == 'cmt2' and n < 2:
                continue
            attrs = _ATTR_VARIANTS if tier == 'thorough' else ('none', 'all')
            for attr in attrs:
                if n == 1 and attr in ('ALAGother', 'Fother'):
                    continue
                for scale in (_SCALE_VARIANTS if tier == 'thorough' else ('Sobs',)):
                    cases.append({'advan': advan, 'trans': trans, 'scale': scale, 'attr': attr,
                                  'data': data})
    return cases


def _advan_code(case):
    """-> (control stream, csv text or None, expectation dict)"""
    advan, trans = case['advan'], case['trans']
    n, dose, obs, _ = PREDPP_ADVAN[advan]
    basic = PREDPP_TRANS[(advan, trans)][0]
    pk = []
    k = 0
    for b in basic:
        k += 1
        pk.append(f'{b} = THETA({k})' + ('*EXP(ETA(1))' if k == 1 else ''))
    other = 1 if obs != 1 else (2 if n >= 2 else None)
    if case['data'] == 'cmt2':
        dose = 2
    otherd = [c for c in range(1, n + 1) if c != dose]
    otherd = otherd[-1] if otherd else None
    exp = {'scale': None, 'lag': {}, 'bio': {}, 'dose_cmt': dose, 'obs_cmt': obs}
    thetas = {}

    def newtheta(name):
        nonlocal k
        k += 1
        pk.append(f'{name} = THETA({k})')
        thetas[name] = k

    sc = case['scale']
    if sc in ('Sobs', 'Sboth'):
        newtheta(f'S{obs}')
        exp['scale'] = thetas[f'S{obs}']
    if sc == 'SC':
        newtheta('SC')
        exp['scale'] = thetas['SC']
    if sc in ('Sother', 'Sboth'):
        newtheta(f'S{other}' if other else f'S{n + 1}')
    if sc == 'Sout':
        newtheta('S0')
    at = case['attr']
    if at in ('ALAGdose', 'all'):
        newtheta(f'ALAG{dose}')
        exp['lag'][dose] = thetas[f'ALAG{dose}']
    if at in ('Fdose', 'all'):
        newtheta(f'F{dose}')
        exp['bio'][dose] = thetas[f'F{dose}']
    if at in ('ALAGother', 'all') and otherd:
        newtheta(f'ALAG{otherd}')
        exp['lag'][otherd] = thetas[f'ALAG{otherd}']
    if at in ('Fother', 'all') and otherd:
        newtheta(f'F{otherd}')
        exp['bio'][otherd] = thetas[f'F{otherd}']
    data = case['data']
    exp['dose'] = ('Bolus', None)
    if data == 'rate-2':
        newtheta(f'D{dose}')
        exp['dose'] = ('Infusion', ('duration', f'THETA_{thetas[f"D{dose}"]}'))
    elif data == 'rate-1':
        newtheta(f'R{dose}')
        exp['dose'] = ('Infusion', ('rate', f'THETA_{thetas[f"R{dose}"]}'))
    elif data == 'rate10':
        exp['dose'] = ('Infusion', ('rate', 'RATE'))
    cols = ['ID', 'TIME', 'AMT']
    csv = None
    if data != 'nodata':
        rate = {'rate-2': '-2', 'rate-1': '-1', 'rate10': '10', 'rate0': '0', 'cmt2': None}[data]
        if rate is not None:
            cols.append('RATE')
        if data == 'cmt2':
            cols.append('CMT')
        cols += ['DV', 'WGT']
        rows = []
        for i in (1, 2):
            for t, amt, dv in ((0, 100, 0), (1, 0, 5.5), (2, 0, 3.25), (12, 100, 0), (13, 0, 6.5)):
                r = [str(i), str(t), str(amt)]
                if rate is not None:
                    r.append(rate if amt else '0')
                if data == 'cmt2':
                    r.append('2')
                r += [str(dv), '70']
                rows.append(','.join(r))
        csv = ','.join(cols) + '\n' + '\n'.join(rows) + '\n'
    else:
        cols += ['DV', 'WGT']
    code = (f'$PROBLEM bounded\n$INPUT {" ".join(cols)}\n$DATA data.csv IGNORE=@\n'
            f'$SUBROUTINE ADVAN{advan} TRANS{trans}\n$PK\n' + '\n'.join(pk) +
            '\n$ERROR\nIPRED = F\nY = IPRED + IPRED*EPS(1)\n$THETA ' +
            ' '.join(f'(0,{1 + 0.5 * i:g})' for i in range(k)) +
            '\n$OMEGA 0.1\n$SIGMA 0.1\n$ESTIMATION METHOD=1\n')
    if data == 'cmt2' and obs != 2:
        # every record (also the observations) has CMT=2: compartment 2 is observed, scaled by S2
        exp['obs_cmt'] = 2
        exp['scale'] = thetas.get('S2')
    exp['obs_record'] = {'CMT': 2, 'AMT': 0} if data == 'cmt2' else {}
    exp['nbasic'] = len(basic)
    return code, csv, exp


def _is_zero(e):
    import sympy

    e = sympy.sympify(e)
    if e == 0:
        return True
    return sympy.cancel(sympy.together(e)) == 0


def _check_advan_case(case):
    """-> list of (fid, clause, detail)"""
    import tempfile

    import sympy
    from pharmpy.model import output
    from pharmpy.modeling import read_model, read_model_from_string

    _speedup()
    advan, trans = case['advan'], case['trans']
    tag = f'ADVAN{advan} TRANS{trans}'
    code, csv, exp = _advan_code(case)
    n, _, _, _ = PREDPP_ADVAN[advan]
    fails = []
    try:
        if csv is None:
            model = read_model_from_string(code)
        else:
            with tempfile.TemporaryDirectory() as d:
                with open(os.path.join(d, 'data.csv'), 'w') as fh:
                    fh.write(csv)
                with open(os.path.join(d, 'run1.mod'), 'w') as fh:
                    fh.write(code)
                model = read_model(os.path.join(d, 'run1.mod'))
                model.dataset  # noqa: B018
        sset = model.statements
        cs = sset.ode_system
        if cs is None:
            raise ValueError('no ODE system in the model')
        before = sset.before_odes
        names = list(cs.compartment_names)
    except Exception as exc:
        return [(FID_ADVAN, f'$SUBROUTINE with library ADVAN/TRANS{trans}: control stream is read without error',
                 f'{tag}: {type(exc).__name__}: {str(exc)[:200]}')]

    def full(e):
        return sympy.sympify(before.full_expression(e))

    th = lambda i: sympy.Symbol(f'THETA_{i}')  # noqa: E731
    basic = PREDPP_TRANS[(advan, trans)][0]
    bv = {b: (th(i) * sympy.exp(sympy.Symbol('ETA_1')) if i == 1 else th(i))
          for i, b in enumerate(basic, 1)}
    want_rates = predpp_rates(advan, trans, bv)

    if len(names) != n:
        return [(FID_ADVAN, 'the compartmental system has the compartments of the PREDPP ADVAN',
                 f'{tag}: PREDPP defines {n} compartments, the model has {names}')]

    comps = [cs.find_compartment(nm) for nm in names]
    known = ({p.name for p in model.parameters} | set(model.random_variables.names)
             | set(model.datainfo.names) | {'t'})
    fexpr = sympy.sympify(sset.after_odes.full_expression(sympy.Symbol('Y')))
    amounts = [sympy.sympify(c.amount) for c in comps]
    afuncs = []
    for a in amounts:
        afuncs.append(sympy.Function(a.name)(sympy.Symbol('t')) if a.is_Symbol else a)

    best = None
    for perm in itertools.permutations(range(n)):
        # perm[i] = index of the model compartment that plays PREDPP compartment i+1
        probs = []
        amap = {}
        for i in range(n):
            amap[afuncs[perm[i]]] = sympy.Symbol(f'__A{i + 1}')
            amap[amounts[perm[i]]] = sympy.Symbol(f'__A{i + 1}')
        undefined = set()
        for f in range(1, n + 1):
            for t in range(0, n + 1):
                if f == t:
                    continue
                src = comps[perm[f - 1]]
                dst = output if t == 0 else comps[perm[t - 1]]
                got = full(cs.get_flow(src, dst)).subs(amap)
                want = want_rates.get((f, t), sympy.Integer(0))
                undefined |= {s.name for s in got.free_symbols} - known - {f'__A{i + 1}' for i in range(n)}
                if not _is_zero(got - want):
                    probs.append(('rate', f'flow {f}->{t}: model {got}, PREDPP {want}'))
        if undefined:
            probs.append(('undefined', f'symbols {sorted(undefined)} of the ODE system are neither '
                          'defined in $PK nor parameters/data'))
        # dosing
        dosed = [i + 1 for i in range(n) if comps[perm[i]].doses]
        if dosed != [exp['dose_cmt']]:
            probs.append(('dosecmt', f'doses enter compartments {dosed}, PREDPP/data: {exp["dose_cmt"]}'))
        else:
            doses = comps[perm[exp['dose_cmt'] - 1]].doses
            d = doses[0]
            kind, par = exp['dose']
            ok = len(doses) == 1 and type(d).__name__ == kind and str(d.amount) == 'AMT'
            if ok and par:
                v = getattr(d, par[0])
                other = getattr(d, 'duration' if par[0] == 'rate' else 'rate')
                ok = v is not None and str(full(v)) == par[1] and other is None
            if not ok:
                probs.append(('dosekind', f'dose of compartment {exp["dose_cmt"]} is {doses}, expected '
                              f'{kind} {par or ""}'))
        for i in range(n):
            c = comps[perm[i]]
            wl = th(exp['lag'][i + 1]) if (i + 1) in exp['lag'] else sympy.Integer(0)
            wb = th(exp['bio'][i + 1]) if (i + 1) in exp['bio'] else sympy.Integer(1)
            if not _is_zero(full(c.lag_time) - wl):
                probs.append(('lag', f'lag time of compartment {i + 1} is {c.lag_time}, $PK defines {wl}'))
            if not _is_zero(full(c.bioavailability) - wb):
                probs.append(('bio', f'bioavailability of compartment {i + 1} is {c.bioavailability}, '
                              f'$PK defines {wb}'))
        # observation link
        aobs = sympy.Symbol(f'__A{exp["obs_cmt"]}')
        wantf = aobs / th(exp['scale']) if exp['scale'] else aobs
        wanty = wantf * (1 + sympy.Symbol('EPS_1'))
        goty = full(fexpr).subs(amap)
        if exp['obs_record']:  # value on the observation records of the data set
            goty = goty.subs({sympy.Symbol(k): v for k, v in exp['obs_record'].items()})
            goty = sympy.piecewise_fold(goty) if goty.has(sympy.Piecewise) else goty
        if not _is_zero(goty - wanty):
            probs.append(('flink', f'Y = {goty}, PREDPP: {wanty}'))
        if best is None or len(probs) < len(best):
            best = probs
        if not probs:
            break
    clause_of = {
        'rate': (FID_ADVAN, f'TRANS{trans}: every flow of the compartmental system equals the PREDPP rate '
                 'constant expressed in the basic PK parameters of the TRANS (and no other flow exists)'),
        'undefined': (FID_ADVAN, f'TRANS{trans}: every symbol of the ODE system is defined by $PK, a '
                      'parameter, a random variable or a data column'),
        'dosecmt': (FID_DOSING, 'doses enter the PREDPP default dose compartment (or the compartment given by CMT)'),
        'dosekind': (FID_DOSING, 'dose is a bolus, or an infusion with RATE / modelled rate Rn / modelled '
                     'duration Dn, as the RATE data item says'),
        'lag': (FID_ADVAN, 'ALAGn of $PK is the lag time of compartment n and of no other compartment'),
        'bio': (FID_ADVAN, 'Fn of $PK is the bioavailability of compartment n and of no other compartment'),
        'flink': (FID_FLINK, 'F is the amount of the default observation compartment divided by its scale '
                  'parameter (Sn, or SC for the central compartment) when that is defined in $PK'),
    }
    seen = set()
    for what, detail in best:
        if what not in seen:
            seen.add(what)
            fid, clause = clause_of[what]
            fails.append((fid, clause, f'{tag} scale={case["scale"]} attr={case["attr"]} data={case["data"]}: {detail}'))
    return fails


# $DES models --------------------------------------------------------------------------------------

FID_DES = 'src/pharmpy/model/statements.py:to_compartmental_system'

# topology: (compartment names in $MODEL order, transfers (from, to), compartment that is eliminated from)
_DES_TOPOLOGIES = {
    '1cmt': (('CENTRAL',), (), 1),
    'oral': (('DEPOT', 'CENTRAL'), ((1, 2),), 2),
    '2cmt': (('CENTRAL', 'PERI'), ((1, 2), (2, 1)), 1),
    'oral2cmt': (('DEPOT', 'CENTRAL', 'PERI'), ((1, 2), (2, 3), (3, 2)), 2),
}
# how the rate of one first-order transfer / of the elimination is written.  Every form is a list of
# additive terms of the source equation (each a product containing the source amount) and the
# parameters it needs; {t} is a tag that keeps the parameters of different edges apart, {a} the source
# amount A(i).  'sumfact': the source equation has the factored form, the destination the sum.
_DES_FORMS = {
    'single': (['K{t}*{a}'], ['K{t}']),
    'ratio': (['Q{t}/V{t}*{a}'], ['Q{t}', 'V{t}']),
    'sum2': (['KF{t}*{a}', 'KS{t}*{a}'], ['KF{t}', 'KS{t}']),
    'factored': (['(KF{t}+KS{t})*{a}'], ['KF{t}', 'KS{t}']),
    'sumfact': (['KF{t}*{a}', 'KS{t}*{a}'], ['KF{t}', 'KS{t}']),
    'cov': (['Q{t}/V{t}*(1+W{t}*WT/70)*{a}'], ['Q{t}', 'V{t}', 'W{t}']),
    'sum3': (['KF{t}*{a}', 'KS{t}*{a}', 'Q{t}/V{t}*{a}'], ['KF{t}', 'KS{t}', 'Q{t}', 'V{t}']),
    'mm': (['VM{t}*{a}/(KM{t}+{a})'], ['VM{t}', 'KM{t}']),
    'mixed': (['CL{t}/V{t}*{a}', 'VM{t}*{a}/(KM{t}+{a})'], ['CL{t}', 'V{t}', 'VM{t}', 'KM{t}']),
}


def gen_des_cases(tier):
    thorough = tier == 'thorough'
    tforms = ['single', 'sum2', 'factored', 'cov'] + (['ratio', 'sumfact', 'sum3'] if thorough else [])
    eforms = ['single', 'ratio', 'sum2', 'mm', 'mixed'] + (['cov', 'sum3'] if thorough else [])
    cases = []
    for topo, (names, transfers, _) in _DES_TOPOLOGIES.items():
        tf, ef = tforms, eforms
        if len(transfers) == 3 and not thorough:
            tf, ef = ['single', 'sum2', 'cov'], ['single', 'sum2', 'mm']
        for forms in itertools.product(tf, repeat=len(transfers)):
            for e in ef:
                cases.append({'des': topo, 'transfers': list(forms), 'elim': e, 'zo': False})
        # a zero-order input into the first compartment next to the transfers
        for f in (tf if transfers else ['single']):
            for e in ef[:3]:
                cases.append({'des': topo, 'transfers': [f] * len(transfers), 'elim': e, 'zo': True})
    return cases


def _des_code(case):
    """-> (control stream, $DES lines, parameter names in THETA order, compartment names)"""
    names, transfers, elim_from = _DES_TOPOLOGIES[case['des']]
    n = len(names)
    rhs = {i: [] for i in range(1, n + 1)}
    params = []

    def use(form, tag, src):
        terms, pars = _DES_FORMS[form]
        a = f'A({src})'
        for p in pars:
            p = p.format(t=tag)
            if p not in params:
                params.append(p)
        return [t.format(t=tag, a=a) for t in terms]

    for (f, t), form in zip(transfers, case['transfers']):
        tag = f'{f}{t}'
        dst_terms = use(form, tag, f)
        src_terms = use('factored', tag, f) if form == 'sumfact' else dst_terms
        rhs[f] += ['-' + x for x in src_terms]
        rhs[t] += ['+' + x for x in dst_terms]
    rhs[elim_from] += ['-' + x for x in use(case['elim'], 'E', elim_from)]
    if case['zo']:
        params.append('RZ')
        rhs[1].insert(0, '+RZ')
    des = []
    for i in range(1, n + 1):
        text = ' '.join(rhs[i])
        des.append(f'DADT({i}) = ' + (text[1:] if text.startswith('+') else text))
    pk = [f'{p} = THETA({k})' for k, p in enumerate(params, 1)]
    obs = names.index('CENTRAL') + 1
    model = ' '.join(
        'COMPARTMENT=(' + nm + (' DEFDOSE' if i == 0 else '') + (' DEFOBS' if i + 1 == obs else '') + ')'
        for i, nm in enumerate(names))
    code = ('$PROBLEM bounded\n$INPUT ID TIME AMT DV WT\n$DATA data.csv IGNORE=@\n'
            '$SUBROUTINE ADVAN13 TOL=9\n$MODEL ' + model + '\n$PK\n' + '\n'.join(pk) + '\n$DES\n'
            + '\n'.join(des) + '\n$ERROR\nY = F + F*EPS(1)\n$THETA '
            + ' '.join(f'(0,{1 + 0.5 * i:g})' for i in range(len(params)))
            + '\n$OMEGA 0.1\n$SIGMA 0.1\n$ESTIMATION METHOD=1\n')
    return code, des, params, names


def _des_tag(case):
    return (f'$DES {case["des"]} transfers={",".join(case["transfers"]) or "-"} elimination={case["elim"]}'
            + (' zero-order input' if case['zo'] else ''))


DES_READ_CLAUSE = '$MODEL/$DES: control stream is read without error'
DES_ODE_CLAUSE = ('$DES: the rate of change of every compartment amount given by the compartmental system '
                  '(inflows - outflows + zero-order input) equals DADT(n) of the $DES code for equal '
                  'parameters, data and amounts')


def _check_des_case(case):
    """-> list of (fid, clause, detail)"""
    import sympy
    from pharmpy.model import output
    from pharmpy.modeling import read_model_from_string

    _speedup()
    if _IR_REL is None:
        _init_ir_tables()
    code, des, params, names = _des_code(case)
    tag = _des_tag(case)
    n = len(names)
    try:
        model = read_model_from_string(code)
        sset = model.statements
        cs = sset.ode_system
        if cs is None:
            raise ValueError('no ODE system in the model')
        comps = [cs.find_compartment(nm) for nm in cs.compartment_names]
        rvp = set(model.random_variables.parameter_names)
        thetas = [p.name for p in model.parameters if p.name not in rvp]
    except Exception as exc:
        return [(FID_DES, DES_READ_CLAUSE, f'{tag}: {type(exc).__name__}: {str(exc)[:200]} for ' + ' | '.join(des))]
    if len(comps) != n or len(thetas) != len(params):
        return [(FID_DES, DES_ODE_CLAUSE, f'{tag}: $MODEL defines compartments {list(names)} and $PK {len(params)} '
                 f'parameters, the model has compartments {cs.compartment_names} and thetas {thetas}')]
    # reference: the $DES lines under NM-TRAN rules
    ref_lines = [re.sub(r'\bDADT\((\d+)\)', r'DADT_\1', re.sub(r'\bA\((\d+)\)', r'A_\1', ln)) for ln in des]
    try:
        prog = ref_parse_program(ref_lines)
    except RefSyntax as exc:  # a bug in this file, never hide it
        return [(FID_DES, 'checker: reference parser accepts the enumerated $DES code', f'{tag}: {exc}')]
    best = None
    for perm in itertools.permutations(range(n)):
        # perm[i] = index of the model compartment that plays compartment i+1 of $MODEL
        probs = []
        for k in range(3):
            pvals = [0.35 + 0.27 * j + 0.11 * k + 0.05 * ((j * 7 + k * 3) % 5) for j in range(len(params))]
            avals = [1.3 + 0.8 * i + 0.45 * k for i in range(n)]
            wt = 52.0 + 13.0 * k
            ref_env = dict(zip(params, pvals))
            ref_env['WT'] = wt
            for i in range(n):
                ref_env[f'A_{i + 1}'] = avals[i]
            try:
                ref_run(prog, ref_env)
            except (RefUndefined, RefDomain) as exc:
                return [(FID_DES, 'checker: reference interpreter evaluates the enumerated $DES code',
                         f'{tag}: {exc!r}')]
            env = dict(zip(thetas, pvals))
            env['WT'] = wt
            env['t'] = 1.5 + k
            for i in range(n):
                a = sympy.sympify(comps[perm[i]].amount)
                env[str(a)] = avals[i]
                env[a.name if a.is_Symbol else str(a.func)] = avals[i]
            ir_run(sset.before_odes, env)

            def val(e):
                return ir_eval(sympy.sympify(e), env)

            for i in range(n):
                c = comps[perm[i]]
                try:
                    d = val(c.input)
                    for j in range(n):
                        if j != i:
                            d += val(cs.get_flow(comps[perm[j]], c)) * avals[j]
                            d -= val(cs.get_flow(c, comps[perm[j]])) * avals[i]
                    d -= val(cs.get_flow(c, output)) * avals[i]
                except IRUndefined as exc:
                    d = f'undefined({exc})'
                want = ref_env[f'DADT_{i + 1}']
                if isinstance(d, str) or not close(d, want, 1e-9):
                    probs.append(f'at ' + ' '.join(f'{p}={v:.4g}' for p, v in zip(params, pvals))
                                 + f' WT={wt:g} ' + ' '.join(f'A({q + 1})={v:g}' for q, v in enumerate(avals))
                                 + f': NM-TRAN gives DADT({i + 1})={want:.12g}, the compartmental system gives {d}')
            if probs:
                break
        if best is None or len(probs) < len(best):
            best = probs
        if not probs:
            break
    if best:
        return [(FID_DES, DES_ODE_CLAUSE, f'{tag}: {best[0]} for ' + ' | '.join(des))]
    return []


def _check_c01_case(case):
    return _check_des_case(case) if 'des' in case else _check_advan_case(case)


def bounded_advan_trans(tier='quick'):
    cases = gen_advan_cases(tier)
    nlib = len(cases)
    des_cases = gen_des_cases(tier)
    fails = {}
    bad = _selfcheck_predpp_table()
    if bad:
        fails[('checker',)] = {'fid': FID_ADVAN, 'clause': 'checker: PREDPP table is self-consistent',
                               'detail': str(bad[:2]), 'case': cases[0],
                               'replay_fn': 'bounded_advan_trans_replay'}
    results = _run_pool(_check_c01_case, cases + des_cases)

    def size(c):
        if 'des' in c:
            nterms = sum(len(_DES_FORMS[f][0]) + len(_DES_FORMS[f][1]) for f in c['transfers'] + [c['elim']])
            return (True, True, True, 99, len(c['transfers']), c['zo'], nterms, str(c))
        return (c['data'] != 'nodata', c['attr'] != 'none', c['scale'] != 'none', c['advan'], c['trans'])

    also = _Also()
    for case, res in zip(cases + des_cases, results):
        for fid, clause, detail in res:
            key = (fid, clause)
            also.add(key, dict(case, clause=clause))
            if key not in fails or size(case) < size(fails[key]['case']):
                fails[key] = {'fid': fid, 'clause': clause, 'detail': detail,
                              'case': dict(case, clause=clause), 'replay_fn': 'bounded_advan_trans_replay'}
    for key, f in fails.items():
        f['also'] = also.get(key, f['case'])
    thorough = tier == 'thorough'
    return {
        'cases': len(cases) + len(des_cases),
        'nontrivial': len(cases) + len(des_cases),
        'bound': (
            'all 21 library combinations ADVAN{1,2,3,4,10,11,12} x TRANS allowed by NM-TRAN, $PK defining '
            'exactly the basic parameters of the TRANS as THETAs, x 6 scale-parameter patterns (none, S<obs>, '
            'SC, S<other>, both, S0) x 6 ALAGn/Fn patterns without data set; x 5 data sets (RATE=-2 with Dn, '
            'RATE=-1 with Rn, RATE>0, RATE=0, doses with CMT=2)'
            + (' x all patterns' if thorough else ' x 2 ALAGn/Fn patterns')
            + f'; compartments matched to PREDPP numbers by searching all bijections [{nlib}]; ADVAN13 $MODEL/$DES '
            'models on 4 topologies (1 compartment, depot+central, central+peripheral, depot+central+peripheral) '
            f'where the rate of every first-order transfer is written in each of {7 if thorough else 4} forms (one '
            'product, sum of 2 products, factored sum, covariate factor Q/V*(1+W*WT/70)'
            + (', ratio, sum in the destination with factored source, sum of 3 products' if thorough else '')
            + f') and the elimination in each of {7 if thorough else 5} forms (first order as product / ratio / sum'
            + (' / covariate / sum of 3' if thorough else '')
            + ', Michaelis-Menten, mixed)' + ('' if thorough else ' (3 x 3 forms on the 3-compartment topology)')
            + ', plus the same with a zero-order input into compartment 1 (all transfers in one form x 3 '
            f'elimination forms); DADT(n) compared numerically at 3 points over all compartment numberings [{len(des_cases)}]'),
        'samples': [f'ADVAN{c["advan"]} TRANS{c["trans"]} {c["scale"]} {c["attr"]} {c["data"]}'
                    for c in (cases[0], cases[len(cases) // 2], cases[-1])] + [_des_tag(des_cases[len(des_cases) // 2])],
        'fails': sorted(fails.values(), key=lambda f: (f['fid'], f['clause'])),
    }


def bounded_advan_trans_replay(rp):
    case = {k: v for k, v in rp['case'].items() if k != 'clause'}
    res = [r for r in _check_c01_case(case) if r[1] == rp['case'].get('clause', r[1])]
    if res:
        return (False, res[0][2])
    return (True, 'ok')


# --------------------------------------------------------------------------------------------------
# (4) bounded_codegen_roundtrip
# --------------------------------------------------------------------------------------------------

FID_UPDATE_SOURCE = 'src/pharmpy/model/external/nonmem/model.py:Model.update_source'
FID_UPDATE_ODE = 'src/pharmpy/model/external/nonmem/update.py:update_ode_system'
FID_UPDATE_PARAMS = 'src/pharmpy/model/external/nonmem/update.py:update_thetas'
FID_UPDATE_RVS = 'src/pharmpy/model/external/nonmem/update.py:update_random_variables'
FID_PRINTER = CODE_RECORD + ':NMTranPrinter'
FID_PIECEWISE = CODE_RECORD + ':_translate_condition'
FID_UPDATE_STATEMENTS = CODE_RECORD + ':CodeRecord.update_statements'
FID_UPDATE_LAG = 'src/pharmpy/model/external/nonmem/update.py:update_lag_time'
FID_UPDATE_BIO = 'src/pharmpy/model/external/nonmem/update.py:update_bio'
FID_UPDATE_INFUSION = 'src/pharmpy/model/external/nonmem/update.py:update_infusion'


def _transformations():
    import pharmpy.modeling as pm

    return {
        'set_first_order_absorption': pm.set_first_order_absorption,
        'set_zero_order_absorption': pm.set_zero_order_absorption,
        'set_seq_zo_fo_absorption': pm.set_seq_zo_fo_absorption,
        'add_peripheral_compartment': pm.add_peripheral_compartment,
        'set_peripheral_compartments_2': lambda m: pm.set_peripheral_compartments(m, 2),
        'set_michaelis_menten_elimination': pm.set_michaelis_menten_elimination,
        'set_mixed_mm_fo_elimination': pm.set_mixed_mm_fo_elimination,
        'set_zero_order_elimination': pm.set_zero_order_elimination,
        'set_transit_compartments_2': lambda m: pm.set_transit_compartments(m, 2),
        'add_lag_time': pm.add_lag_time,
        'add_bioavailability': pm.add_bioavailability,
        'set_ode_solver_LSODA': lambda m: pm.set_ode_solver(m, 'LSODA'),
        # second-step candidates (identity on the start model)
        'remove_peripheral_compartment': pm.remove_peripheral_compartment,
        'remove_lag_time': pm.remove_lag_time,
        'remove_bioavailability': pm.remove_bioavailability,
        'set_instantaneous_absorption': pm.set_instantaneous_absorption,
        'set_first_order_elimination': pm.set_first_order_elimination,
    }


def gen_roundtrip_cases(tier):
    names = list(_transformations())
    cases = [[]] + [[a] for a in names]
    if tier == 'thorough':
        cases += [[a, b] for a in names for b in names]
    else:
        # the pairs that combine a $DES model (non-linear elimination) with a dose compartment change
        elim = ['set_michaelis_menten_elimination', 'set_mixed_mm_fo_elimination', 'set_zero_order_elimination']
        absorption = ['set_first_order_absorption', 'set_zero_order_absorption', 'set_seq_zo_fo_absorption',
                      'set_transit_compartments_2']
        cases += [[a, b] for a in elim for b in absorption] + [[b, a] for a in elim for b in absorption]
    # through the $DES representation and back to a library ADVAN with another structure than before
    back = [[a, s, 'set_first_order_elimination']
            for a in ('set_michaelis_menten_elimination', 'set_mixed_mm_fo_elimination')
            for s in ('add_peripheral_compartment', 'set_peripheral_compartments_2', 'set_first_order_absorption',
                      'set_transit_compartments_2')]
    cases += [c for c in back if c not in cases]
    return cases


# start models of the round trip.  'pheno' is the start of every case recorded before the other starts
# were added: its cases keep the form without a 'start' key.
_RT_STARTS = {
    'pheno': 'pheno example model (bolus, ADVAN1 TRANS2, no RATE/CMT column)',
    'moxo': 'moxo example model (oral ADVAN2 TRANS1 with lag time ALAG1, IOV, SAME blocks)',
    'pheno RATE0': 'pheno with a RATE data column that is 0 on every record (bolus doses)',
}
_EXISTING_FEATURE = ('add_lag_time', 'add_bioavailability')
_RT_STARTS_FIRST = tuple(_RT_STARTS)  # the starts of the jobs enumerated first (see gen_roundtrip_jobs)

# start models added later (appended: the enumeration order and the case form of the jobs of the first three starts
# are kept).  They are the pheno example model with another layout of the $OMEGA / $SIGMA records: the records a
# later update has to keep, to rewrite in place or to split.  ETA(3) is an IIV on the residual error, ETA(4) on the
# covariate effect, EPS(2), EPS(3) are an additive and a weight-proportional residual error.
_RV_LAYOUTS = {
    'pheno OMEGA BLOCK(3)': (3, 1, ['$OMEGA BLOCK(3)', ' 0.0309626 ; IIV_CL', ' 0.0011 ; COV_CL_VC', ' 0.031128 ; IIV_VC',
                                    ' 0.0022 ; COV_CL_RUV', ' 0.0033 ; COV_VC_RUV', ' 0.09 ; IIV_RUV'], None),
    'pheno OMEGA DIAG(3)': (3, 1, ['$OMEGA 0.0309626 ; IIV_CL', ' 0.031128 ; IIV_VC', ' 0.09 ; IIV_RUV'], None),
    'pheno OMEGA BLOCK(2)+1': (3, 1, ['$OMEGA BLOCK(2)', ' 0.0309626 ; IIV_CL', ' 0.0011 ; COV_CL_VC', ' 0.031128 ; IIV_VC',
                                      '$OMEGA 0.09 ; IIV_RUV'], None),
    'pheno OMEGA BLOCK(3) SD CORR': (3, 1, ['$OMEGA BLOCK(3) STANDARD CORRELATION', ' 0.176 ; IIV_CL', ' 0.05 ; COV_CL_VC',
                                            ' 0.1764 ; IIV_VC', ' 0.1 ; COV_CL_RUV', ' 0.15 ; COV_VC_RUV',
                                            ' 0.3 ; IIV_RUV'], None),
    'pheno SIGMA BLOCK(3)': (2, 3, None, ['$SIGMA BLOCK(3)', ' 0.0130865 ; SIGMA', ' 0.0005 ; COV_PROP_ADD', ' 0.02 ; SIGMA_ADD',
                                          ' 0.0007 ; COV_PROP_WGT', ' 0.0009 ; COV_ADD_WGT', ' 0.03 ; SIGMA_WGT']),
    'pheno OMEGA BLOCK(4)': (4, 1, ['$OMEGA BLOCK(4)', ' 0.0309626 ; IIV_CL', ' 0.0011 ; COV_CL_VC', ' 0.031128 ; IIV_VC',
                                    ' 0.0022 ; COV_CL_RUV', ' 0.0033 ; COV_VC_RUV', ' 0.09 ; IIV_RUV', ' 0.0044 ; COV_CL_COV',
                                    ' 0.0055 ; COV_VC_COV', ' 0.0066 ; COV_RUV_COV', ' 0.04 ; IIV_COV'], None),
}
_RT_STARTS.update({
    'pheno OMEGA BLOCK(3)': 'pheno with a third eta (IIV on the residual error) and one $OMEGA BLOCK(3) with distinct values',
    'pheno OMEGA DIAG(3)': 'pheno with a third eta and one diagonal $OMEGA record with 3 values',
    'pheno OMEGA BLOCK(2)+1': 'pheno with a third eta, $OMEGA BLOCK(2) followed by a diagonal $OMEGA',
    'pheno OMEGA BLOCK(3) SD CORR': 'pheno with a third eta and $OMEGA BLOCK(3) STANDARD CORRELATION',
    'pheno SIGMA BLOCK(3)': 'pheno with three epsilons and one $SIGMA BLOCK(3) with distinct values',
    'pheno OMEGA BLOCK(4)': 'pheno with four etas and one $OMEGA BLOCK(4) with distinct values',
})
_RV_STARTS_QUICK = list(_RV_LAYOUTS)[:5]
# transformations that add or remove compartments (they renumber the compartments of the generated code)
_RENUMBERING = ('set_first_order_absorption', 'set_zero_order_absorption', 'set_seq_zo_fo_absorption',
                'set_instantaneous_absorption', 'set_transit_compartments_2', 'add_peripheral_compartment',
                'set_peripheral_compartments_2', 'remove_peripheral_compartment')


def _rv_transformations():
    """transformations of the parameters and of the random effects (the second family of transformations of the
    round trip; kept apart from _transformations(), whose order defines the recorded enumeration)"""
    import pharmpy.modeling as pm

    def scale_initial_estimates(m):
        # covariance parameters x 1.25 (a scaled covariance matrix stays positive definite), thetas x 1.1 within bounds
        cov = set(m.random_variables.parameter_names)
        new = {}
        for p in m.parameters:
            if p.fix or p.init == 0:
                continue
            v = p.init * (1.25 if p.name in cov else 1.1)
            if p.lower < v < p.upper:
                new[p.name] = v
        return pm.set_initial_estimates(m, new)

    return {
        'scale_initial_estimates': scale_initial_estimates,
        'fix_covariance_parameters': lambda m: pm.fix_parameters(m, list(m.random_variables.parameter_names)),
        'create_joint_distribution': pm.create_joint_distribution,
        'split_joint_distribution': pm.split_joint_distribution,
        'remove_iiv_first': lambda m: pm.remove_iiv(m, [m.random_variables.etas.names[0]]),
        'remove_iiv_last': lambda m: pm.remove_iiv(m, [m.random_variables.etas.names[-1]]),
        'add_iiv_TVCL': lambda m: pm.add_iiv(m, 'TVCL', 'exp'),
        'set_iiv_on_ruv': pm.set_iiv_on_ruv,
        'transform_etas_boxcox': pm.transform_etas_boxcox,
        'add_covariate_effect_CL_APGR': lambda m: pm.add_covariate_effect(m, 'CL', 'APGR', 'exp'),
    }


def gen_roundtrip_jobs(tier):
    """-> list of (start, sequence); the (pheno, sequence) jobs of gen_roundtrip_cases come first, in their order"""
    names = list(_transformations())
    jobs = [('pheno', seq) for seq in gen_roundtrip_cases(tier)]
    singles = [[]] + [[a] for a in names]
    for start in _RT_STARTS_FIRST[1:]:
        if tier == 'thorough':
            jobs += [(start, seq) for seq in singles + [[a, b] for a in names for b in names]]
        else:
            jobs += [(start, seq) for seq in singles]
    # a transformation applied to a model that already has what it adds: twice in a row
    for start in _RT_STARTS_FIRST:
        for a in (names if start == 'pheno' or tier == 'thorough' else _EXISTING_FEATURE):
            if (start, [a, a]) not in jobs:
                jobs.append((start, [a, a]))
    if tier != 'thorough':
        # ... and with the other feature added in between
        for a in _EXISTING_FEATURE:
            for b in _EXISTING_FEATURE:
                if a != b and ('pheno', [a, b, a]) not in jobs:
                    jobs.append(('pheno', [a, b, a]))
    # --- jobs added later (appended) ---
    more = []
    # two (thorough: also three) transformations that renumber the compartments, one after the other
    more += [('pheno', [a, b]) for a in _RENUMBERING for b in _RENUMBERING]
    if tier == 'thorough':
        more += [('pheno', [a, b, c]) for a in _RENUMBERING for b in _RENUMBERING for c in _RENUMBERING]
    # parameter / random effect transformations, on pheno and on the starts with other $OMEGA / $SIGMA layouts
    rv = list(_rv_transformations())
    rv_starts = list(_RV_LAYOUTS) if tier == 'thorough' else _RV_STARTS_QUICK
    for start in ['pheno'] + rv_starts:
        more += [(start, [])] + [(start, [a]) for a in rv]
    # structural transformations of a model whose random effect records have to be kept
    for start in (rv_starts if tier == 'thorough' else rv_starts[:1]):
        more += [(start, [a]) for a in _RENUMBERING]
    # a second transformation after one that created, split or rewrote the records
    joint = ('create_joint_distribution', 'split_joint_distribution')
    for start in rv_starts:
        if tier == 'thorough':
            more += [(start, [a, b]) for a in rv for b in rv]
        elif start in rv_starts[:2]:
            more += [(start, [a, b]) for a in joint for b in rv] + [(start, [b, a]) for a in joint for b in rv]
    if tier == 'thorough':
        start = rv_starts[0]
        more += [(start, [a, b]) for a in _RENUMBERING for b in rv] + [(start, [b, a]) for a in _RENUMBERING for b in rv]
    for job in more:
        if job not in jobs:
            jobs.append(job)
    return jobs


def _rt_start(start):
    """the start model of a round-trip case (built with the public reading functions only)"""
    import shutil
    import tempfile

    from pharmpy.modeling import load_example_model, read_model, read_model_from_string

    if start == 'pheno':
        return load_example_model('pheno')
    if start == 'moxo':
        model = load_example_model('moxo')
        if model.dataset is None:
            # the $DATA record of the packaged control stream names a file that is packaged under another
            # name: read the same control stream next to the data set under the name it asks for
            src = os.path.dirname(str(model.datainfo.path))
            csv = os.path.join(src, 'moxo.csv')
            if os.path.exists(csv) and os.path.exists(os.path.join(src, 'moxo.mod')):
                with tempfile.TemporaryDirectory() as d:
                    shutil.copy(os.path.join(src, 'moxo.mod'), os.path.join(d, 'moxo.mod'))
                    shutil.copy(csv, os.path.join(d, os.path.basename(str(model.datainfo.path))))
                    model = read_model(os.path.join(d, 'moxo.mod'))
                    model.dataset  # noqa: B018
        return model
    if start == 'pheno RATE0':
        base = load_example_model('pheno')
        lines = base.code.split('\n')
        k = [i for i, ln in enumerate(lines) if ln.startswith('$INPUT')]
        assert len(k) == 1
        lines[k[0]] = lines[k[0]].rstrip() + ' RATE'
        df = base.dataset.copy()
        df['RATE'] = 0
        model = read_model_from_string('\n'.join(lines))
        return model.replace(dataset=df).update_source()
    if start in _RV_LAYOUTS:
        netas, neps, omega, sigma = _RV_LAYOUTS[start]
        base = load_example_model('pheno')
        lines = base.code.split('\n')

        def replace(prefix, new):
            k = [i for i, ln in enumerate(lines) if ln.startswith(prefix)]
            assert k, prefix
            lines[k[0] : k[-1] + 1] = new

        if netas >= 3:
            replace('Y = F + F*EPS(1)', ['Y = F + F*EPS(1)*EXP(ETA(3))'])
        if netas >= 4:
            replace('IF(APGR.LT.5) TVV', ['IF(APGR.LT.5) TVV = TVV*(1 + THETA(3)*EXP(ETA(4)))'])
        if neps == 3:
            replace('Y = F + F*EPS(1)', ['Y = F + F*EPS(1) + EPS(2) + WGT*EPS(3)'])
        if omega is not None:
            replace('$OMEGA', omega)
        if sigma is not None:
            replace('$SIGMA', sigma)
        model = read_model_from_string('\n'.join(lines))
        assert len(model.random_variables.etas.names) == netas and len(model.random_variables.epsilons.names) == neps
        return model.replace(dataset=base.dataset).update_source()
    raise ValueError(start)


# reserved PREDPP parameters and data items that the in-memory compartments imply -------------------

# fixed compartment numbers of the library routines (NONMEM Users Guide VI): role -> number
_LIB_NUMBERS = {'ADVAN1': {'central': 1}, 'ADVAN2': {'depot': 1, 'central': 2}, 'ADVAN3': {'central': 1},
                'ADVAN4': {'depot': 1, 'central': 2}, 'ADVAN10': {'central': 1}, 'ADVAN11': {'central': 1},
                'ADVAN12': {'depot': 1, 'central': 2}}


def _records(code):
    """control stream text -> list of (record name upper case, text without the name and without comments)"""
    out = []
    for ln in code.split('\n'):
        m = re.match(r'^\s*\$([A-Za-z]+)(.*)$', ln)
        if m:
            out.append([m.group(1).upper(), m.group(2).split(';')[0]])
        elif out:
            out[-1][1] += '\n' + ln.split(';')[0]
    return out


def _assigned_names(text):
    """names assigned by abbreviated code (left hand sides, also of logical IF statements)"""
    names = []
    for ln in text.split('\n'):
        m = re.match(r'^\s*(?:IF\s*\(.*\)\s*)?([A-Za-z_]\w*)\s*=(?!=)', ln, flags=re.I)
        if m and m.group(1).upper() not in names:
            names.append(m.group(1).upper())
    return names


def _code_numbering(model, code):
    """in-memory compartment name -> number under NM-TRAN's reading of the generated code ($MODEL order, or the
    fixed numbers of the library ADVAN for the central and the depot compartment); the others are left out"""
    recs = _records(code)
    sub = ' '.join(t for r, t in recs if r.startswith('SUB'))
    m = re.search(r'ADVAN(\d+)', sub, flags=re.I)
    if not m:
        return {}
    advan = 'ADVAN' + m.group(1)
    odes = model.statements.ode_system
    mod = ' '.join(t for r, t in recs if r.startswith('MOD'))
    if mod.strip():
        names = [c.split()[0].upper() for c in re.findall(r'COMP\w*\s*=\s*\(([^)]*)\)', mod, flags=re.I)]
        return {nm: names.index(nm.upper()) + 1 for nm in odes.compartment_names if nm.upper() in names}
    lib = _LIB_NUMBERS.get(advan)
    if lib is None:
        return {}
    num = {odes.central_compartment.name: lib['central']}
    if 'depot' in lib:
        first = [nm for nm in odes.compartment_names
                 if odes.get_flow(odes.find_compartment(nm), odes.central_compartment) != 0
                 and odes.get_flow(odes.central_compartment, odes.find_compartment(nm)) == 0]
        if len(first) == 1:
            num[first[0]] = lib['depot']
    return num


def _dose_kind(d):
    if type(d).__name__ == 'Bolus':
        return 'bolus'
    if getattr(d, 'duration', None) is not None:
        return 'duration'
    if str(d.rate) == 'RATE':
        return 'data rate'
    return 'rate'


def _reserved_diffs(model, code):
    """-> list of (what, detail): reserved parameters ALAGn, Fn, Dn, Rn assigned in $PK of the generated code vs.
    the ones the dosed compartments of the in-memory model imply (the scale parameter Sn is covered numerically
    by the comparison of the dependent variables)"""
    odes = model.statements.ode_system
    if odes is None:
        return []
    num = _code_numbering(model, code)
    pk = '\n'.join(t for r, t in _records(code) if r == 'PK')
    assigned = _assigned_names(pk)
    implied = {'ALAG': {}, 'F': {}, 'D': {}, 'R': {}}
    unnumbered = False
    dosed = set()
    for nm in odes.compartment_names:
        c = odes.find_compartment(nm)
        feats = []
        # PREDPP applies ALAGn and Fn to the doses into compartment n: only compartments with doses count
        if c.doses and nm in num:
            dosed.add(num[nm])
        if c.doses and c.lag_time != 0:
            feats.append(('ALAG', f'lag time {c.lag_time}'))
        if c.doses and c.bioavailability != 1:
            feats.append(('F', f'bioavailability {c.bioavailability}'))
        for d in c.doses:
            k = _dose_kind(d)
            if k == 'duration':
                feats.append(('D', f'dose {d}'))
            elif k == 'rate':
                feats.append(('R', f'dose {d}'))
        for pre, why in feats:
            if nm in num:
                implied[pre][num[nm]] = f'compartment {nm} (number {num[nm]} of the generated code) has {why}'
            else:
                unnumbered = True
    out = []
    for what, pre in (('lag', 'ALAG'), ('bio', 'F'), ('dose', 'D'), ('dose', 'R')):
        have = sorted(int(a[len(pre):]) for a in assigned if re.fullmatch(pre + r'\d+', a))
        for n, why in sorted(implied[pre].items()):
            if n not in have:
                out.append(('res_' + what, f'{why}, $PK assigns {[pre + str(k) for k in have] or "no " + pre + "n"}'))
        if not unnumbered:
            for n in have:
                if n not in implied[pre] and n in dosed:
                    out.append(('only_' + what, f'$PK assigns {pre}{n}, the doses into compartment {n} of the generated '
                                f'code have no such property in the model (implied: '
                                f'{[pre + str(k) for k in sorted(implied[pre])]})'))
    return out


def _rate_diffs(model, df, di=None):
    """-> list of (what, detail): the RATE data item of the records of df under PREDPP rules (no RATE item or 0:
    bolus, -2: duration Dn, -1: rate Rn, >0: rate given in the data) vs. the doses of the in-memory model"""
    odes = model.statements.ode_system
    if odes is None or df is None or 'AMT' not in df.columns:
        return []
    kinds = sorted({_dose_kind(d) for nm in odes.compartment_names for d in odes.find_compartment(nm).doses})
    if len(kinds) != 1:
        return []
    kind = kinds[0]
    dose = df['AMT'] != 0
    if 'EVID' in df.columns:
        dose = dose & df['EVID'].isin([1, 4])
    has_rate = 'RATE' in df.columns and not (di is not None and 'RATE' in di.names and di['RATE'].drop)
    if not has_rate:
        if kind != 'bolus':
            return [('rate', f'the doses of the model are of kind "{kind}", the data set has no RATE item (bolus doses)')]
        return []
    vals = sorted(set(float(v) for v in df.loc[dose, 'RATE']))
    want = {'bolus': lambda v: v == 0, 'duration': lambda v: v == -2, 'rate': lambda v: v == -1,
            'data rate': lambda v: v > 0}[kind]
    out = []
    if not all(want(v) for v in vals):
        out.append(('rate', f'the doses of the model are of kind "{kind}", the dose records have RATE in {vals}'))
    obs = sorted(set(float(v) for v in df.loc[df['AMT'] == 0, 'RATE']))
    if any(v != 0 for v in obs):
        out.append(('rate', f'records without dose have RATE in {obs}'))
    return out


def _ir_eval_model(model, point, amount_values):
    """Numeric meaning of a model at one point: evaluates the statements before the ODE system in
    order, then the flows / doses / lag / bioavailability of every compartment, then the statements
    after the ODE system.  amount_values[i] is the amount given to compartment i (model order)."""
    import sympy
    from pharmpy.model import output

    sset = model.statements
    cs = sset.ode_system
    env = dict(point)
    comps = []
    if cs is not None:
        comps = [cs.find_compartment(nm) for nm in cs.compartment_names]
        for c, v in zip(comps, amount_values):
            a = sympy.sympify(c.amount)
            env[str(a)] = v
            env[a.name if a.is_Symbol else str(a.func)] = v
            env[f'{a.name if a.is_Symbol else a.func}(t)'] = v
    ir_run(sset.before_odes if cs is not None else sset, env)

    def val(e):
        if e is None:
            return None
        try:
            return ir_eval(sympy.sympify(e), env)
        except IRUndefined as exc:
            return f'undefined({exc})'

    sig = {'n': len(comps), 'flows': {}, 'doses': [], 'lag': [], 'bio': []}
    for i, c in enumerate(comps):
        for j, d in enumerate(comps + [output]):
            if i != j:
                sig['flows'][(i, j)] = val(cs.get_flow(c, d))
        sig['doses'].append(sorted(
            (type(d).__name__, val(d.amount), val(getattr(d, 'rate', None)),
             val(getattr(d, 'duration', None)), int(d.admid)) for d in c.doses))
        sig['lag'].append(val(c.lag_time))
        sig['bio'].append(val(c.bioavailability))
    if cs is not None:
        ir_run(sset.after_odes, env)
    sig['dvs'] = {str(dv): (env.get(str(dv)) if env.get(str(dv)) is not None else 'undefined')
                  for dv in model.dependent_variables}
    return sig


def _num_eq(a, b):
    if isinstance(a, str) or isinstance(b, str):
        return False  # an undefined value is never equal to anything
    if a is None or b is None:
        return a is None and b is None
    return close(a, b, 1e-8)


def _sig_diff(s1, s2, perm):
    """differences between signature s1 and signature s2 whose compartment perm[i] plays s1's i"""
    n = s1['n']
    out = []
    for i in range(n):
        for j in range(n + 1):
            if i == j:
                continue
            pi = perm[i]
            pj = perm[j] if j < n else n
            a, b = s1['flows'][(i, j)], s2['flows'][(pi, pj)]
            if not _num_eq(a, b):
                out.append(('flows', f'flow {i}->{j if j < n else "out"}: {a} vs {b}'))
        d1, d2 = s1['doses'][i], s2['doses'][perm[i]]
        if len(d1) != len(d2) or any(
            x[0] != y[0] or x[4] != y[4] or not all(_num_eq(p, q) for p, q in zip(x[1:4], y[1:4]))
            for x, y in zip(d1, d2)
        ):
            out.append(('doses', f'doses of compartment {i}: {d1} vs {d2}'))
        if not _num_eq(s1['lag'][i], s2['lag'][perm[i]]):
            out.append(('lag', f'lag time of compartment {i}: {s1["lag"][i]} vs {s2["lag"][perm[i]]}'))
        if not _num_eq(s1['bio'][i], s2['bio'][perm[i]]):
            out.append(('bio', f'bioavailability of compartment {i}: {s1["bio"][i]} vs {s2["bio"][perm[i]]}'))
    if set(s1['dvs']) != set(s2['dvs']):
        out.append(('dvs', f'dependent variables {sorted(s1["dvs"])} vs {sorted(s2["dvs"])}'))
    else:
        for k in s1['dvs']:
            if not _num_eq(s1['dvs'][k], s2['dvs'][k]):
                out.append(('dvs', f'{k}: {s1["dvs"][k]} vs {s2["dvs"][k]}'))
    return out


def _points(m1, m2):
    """3 deterministic numeric points for all parameters, random variables and data columns"""
    names = set()
    for m in (m1, m2):
        names |= {p.name for p in m.parameters} | set(m.random_variables.names) | set(m.datainfo.names)
    pts = []
    for k in range(3):
        pt = {'t': 2.5 + k}
        for nm in sorted(names):
            h = sum((i + 1) * ord(c) for i, c in enumerate(nm)) % 23
            pt[nm] = 0.3 + h / 11.0 + 0.17 * k
        for m in (m1, m2):
            for p in m.parameters:
                lo = p.lower if p.lower > -1e5 else -10.0
                up = p.upper if p.upper < 1e5 else lo + 10.0
                h = sum((i + 1) * ord(c) for i, c in enumerate(p.name)) % 23
                pt[p.name] = lo + (up - lo) * (0.15 + 0.03 * k + h / 40.0) if not p.fix else p.init
            for nm in m.random_variables.names:
                h = sum((i + 1) * ord(c) for i, c in enumerate(nm)) % 23
                pt[nm] = (h - 11) / 40.0 + 0.01 * k
        pt['APGR'] = [3.0, 6.0, 5.0][k]
        pt['AMT'] = [25.0, 0.0, 10.0][k]
        pt['RATE'] = [-2.0, 0.0, 4.0][k]
        pts.append(pt)
    return pts


def _compare_models(m1, m2):
    """-> list of (what, detail): m2 (read back from generated code) must denote the same model"""
    out = []
    p1 = {p.name: (p.init, p.lower, p.upper, p.fix) for p in m1.parameters}
    p2 = {p.name: (p.init, p.lower, p.upper, p.fix) for p in m2.parameters}
    if set(p1) != set(p2):
        out.append(('params', f'parameter names differ: only in model {sorted(set(p1) - set(p2))}, only '
                    f'in code {sorted(set(p2) - set(p1))}'))
    else:
        # $OMEGA / $SIGMA elements have no bounds in NM-TRAN (a variance is non-negative by definition): the bounds
        # of covariance parameters cannot be denoted by the code, so only initial estimate and fixedness are compared
        cov = set(m1.random_variables.parameter_names) | set(m2.random_variables.parameter_names)
        for k in p1:
            a, b = p1[k], p2[k]
            if k in cov:
                a, b = (a[0], None, None, a[3]), (b[0], None, None, b[3])
            if not (close(a[0], b[0], 1e-6) and a[1] == b[1] and a[2] == b[2] and a[3] == b[3]):
                out.append(('params', f'{k}: model (init, lower, upper, fix)={a}, code {b}'))
                break
    r1 = sorted((tuple(d.names), str(d.mean), str(d.variance)) for d in m1.random_variables)
    r2 = sorted((tuple(d.names), str(d.mean), str(d.variance)) for d in m2.random_variables)
    if r1 != r2:
        out.append(('rvs', f'random variables: model {r1}, code {r2}'))
    if out:
        return out
    c1 = m1.statements.ode_system
    c2 = m2.statements.ode_system
    n1 = len(c1.compartment_names) if c1 is not None else 0
    n2 = len(c2.compartment_names) if c2 is not None else 0
    if n1 != n2:
        return [('flows', f'model has compartments {c1 and c1.compartment_names}, code '
                 f'{c2 and c2.compartment_names}')]
    best = None
    pts = _points(m1, m2)
    avals = [1.7 + 0.9 * i for i in range(n1)]
    sigs1 = [_ir_eval_model(m1, pt, avals) for pt in pts]
    for perm in itertools.permutations(range(n1)):
        diffs = []
        a2 = [None] * n1
        for i in range(n1):
            a2[perm[i]] = avals[i]
        for pt, s1 in zip(pts, sigs1):
            s2 = _ir_eval_model(m2, pt, a2)
            diffs = _sig_diff(s1, s2, perm)
            if diffs:
                break
        if best is None or len(diffs) < len(best):
            best = diffs
        if not diffs:
            break
    return best or []


_RT_CLAUSE = {
    'params': (FID_UPDATE_PARAMS, 'the generated code has the parameters of the model (name, initial '
               'estimate, bounds, fixedness)'),
    'rvs': (FID_UPDATE_RVS, 'the generated code has the random variables of the model (names, covariance '
            'parameters)'),
    'flows': (FID_UPDATE_ODE, 'the compartmental system read back from the generated code has numerically '
              'the same flows as the model for some numbering of the compartments'),
    'doses': (FID_UPDATE_ODE, 'the generated code and data set give every compartment the doses (bolus / '
              'infusion rate / duration) of the model'),
    'lag': (FID_UPDATE_ODE, 'the generated ALAGn gives every compartment the lag time of the model'),
    'bio': (FID_UPDATE_ODE, 'the generated Fn gives every compartment the bioavailability of the model'),
    'dvs': (FID_UPDATE_SOURCE, 'the dependent variables (Y) of the generated code have numerically the '
            'values of the model for equal parameters, etas, epsilons, data and amounts'),
    'res_lag': (FID_UPDATE_LAG, 'the generated $PK assigns the reserved parameter ALAGn for every dosed compartment n '
                '(numbering of the generated code) that has a lag time in the model'),
    'only_lag': (FID_UPDATE_LAG, 'the generated $PK assigns the reserved parameter ALAGn of a dosed compartment n '
                 '(numbering of the generated code) only if that compartment has a lag time in the model'),
    'res_bio': (FID_UPDATE_BIO, 'the generated $PK assigns the reserved parameter Fn for every dosed compartment n '
                '(numbering of the generated code) whose bioavailability is not 1 in the model'),
    'only_bio': (FID_UPDATE_BIO, 'the generated $PK assigns the reserved parameter Fn of a dosed compartment n '
                 '(numbering of the generated code) only if the bioavailability of that compartment is not 1 in the model'),
    'res_dose': (FID_UPDATE_INFUSION, 'the generated $PK assigns the reserved parameter Dn / Rn for every dosed '
                 'compartment n (numbering of the generated code) whose dose is an infusion with modelled duration / '
                 'rate in the model'),
    'only_dose': (FID_UPDATE_INFUSION, 'the generated $PK assigns the reserved parameter Dn / Rn of a dosed compartment '
                  'n (numbering of the generated code) only if its dose is an infusion with modelled duration / rate '
                  'in the model'),
    'rate': (FID_UPDATE_INFUSION, 'the RATE data item of the written data set gives every dose record the kind of '
             'dose the model has (none or 0: bolus, -2: modelled duration, -1: modelled rate, >0: rate in the '
             'data) and is 0 on the other records'),
}


# functions behind the parameter / random effect transformations (fid of a model that is ill-formed after one of them)
_RV_FIDS = {
    'scale_initial_estimates': 'src/pharmpy/modeling/parameters.py:set_initial_estimates',
    'fix_covariance_parameters': 'src/pharmpy/modeling/parameters.py:fix_parameters',
    'create_joint_distribution': 'src/pharmpy/modeling/parameter_variability.py:create_joint_distribution',
    'split_joint_distribution': 'src/pharmpy/modeling/parameter_variability.py:split_joint_distribution',
    'remove_iiv_first': 'src/pharmpy/modeling/parameter_variability.py:remove_iiv',
    'remove_iiv_last': 'src/pharmpy/modeling/parameter_variability.py:remove_iiv',
    'add_iiv_TVCL': 'src/pharmpy/modeling/parameter_variability.py:add_iiv',
    'set_iiv_on_ruv': 'src/pharmpy/modeling/error.py:set_iiv_on_ruv',
    'transform_etas_boxcox': 'src/pharmpy/modeling/parameter_variability.py:transform_etas_boxcox',
    'add_covariate_effect_CL_APGR': 'src/pharmpy/modeling/covariate_effect.py:add_covariate_effect',
}
TIED_CLAUSE = ('the transformed model has a distinct parameter for every element of the lower triangle of each '
               'covariance block (NM-TRAN cannot tie two elements of one block: no code can denote a model that does)')


def _tied_covariance_elements(model):
    """-> description of the first covariance block of the model in which one parameter stands at two places of the
    lower triangle, or None"""
    import sympy

    for dist in model.random_variables:
        names = list(dist.names)
        if len(names) < 2:
            continue
        V = sympy.Matrix(dist.variance)
        seen = {}
        for i in range(len(names)):
            for j in range(i + 1):
                e = V[i, j]
                if e.is_Symbol:
                    if e.name in seen:
                        return (f'parameter {e.name} is both cov({names[seen[e.name][0]]}, {names[seen[e.name][1]]}) and '
                                f'cov({names[i]}, {names[j]})')
                    seen[e.name] = (i, j)
    return None


def _check_roundtrip_case(job):
    """job = (start, sequence), or the sequence alone for the start pheno -> (nontrivial, [(fid, clause, detail)])"""
    import tempfile

    from pharmpy.modeling import read_model, write_model

    _speedup()
    tr = dict(_rv_transformations())
    tr.update(_transformations())
    start, seq = job if isinstance(job, tuple) else ('pheno', job)
    try:
        model = _rt_start(start)
    except Exception as exc:
        return (True, [(FID_UPDATE_SOURCE, 'checker: the start model of the round trip can be built',
                        f'{start}: {type(exc).__name__}: {str(exc)[:150]}')])
    tag = ('' if start == 'pheno' else f'{start} ; ') + (' ; '.join(seq) or f'({start} unchanged)')
    try:
        for name in seq:
            model = tr[name](model)
            if name in _RV_FIDS:
                tied = _tied_covariance_elements(model)
                if tied:  # no NM-TRAN code denotes this model: reported for the transformation that produced it
                    return (True, [(_RV_FIDS[name], TIED_CLAUSE, f'{tag}: after {name}: {tied}')])
    except Exception:
        return (False, [])  # the sequence is not in the domain: a transformation did not succeed
    extra = []
    try:
        with tempfile.TemporaryDirectory() as d:
            path = os.path.join(d, 'run1.mod')
            write_model(model, path, force=True)
            back = read_model(path)
            back.dataset  # noqa: B018
            diffs = _compare_models(model, back)
            with open(path) as fh:
                code = fh.read()
            extra = _reserved_diffs(model, code) + _rate_diffs(model, back.dataset)
    except Exception as exc:
        import traceback

        tb = traceback.extract_tb(exc.__traceback__)[-1]
        return (True, [(FID_UPDATE_SOURCE, 'code generation, writing and reading back succeed for a model '
                        'reached by successful transformations',
                        f'{tag}: {type(exc).__name__}: {str(exc)[:150]} at {os.path.basename(tb.filename)}:{tb.lineno}')])
    fails = []
    seen = set()
    for what, detail in diffs + extra:
        if what not in seen:
            seen.add(what)
            fid, clause = _RT_CLAUSE[what]
            fails.append((fid, clause, f'{tag}: {detail}'))
    return (True, fails)


# printer: expression -> NM-TRAN text -> expression ------------------------------------------------

_PR_UN = ('neg', 'exp', 'log', 'sqrt')
_PR_ATOMS = ('WGT>50', 'AGE<30', 'WGT==60', 'AGE!=20', 'WGT>=60', 'AGE<=20')


def _pr_trees(depth):
    leaves = [('leaf', o) for o in _OPERANDS]
    if depth == 0:
        return leaves
    sub = _pr_trees(depth - 1)
    return (leaves + [(u, a) for u in _PR_UN for a in sub]
            + [(op, a, b) for op in _BIN for a in sub for b in sub])


def _pr_build(t):
    import sympy

    k = t[0]
    if k == 'leaf':
        return sympy.Integer(2) if t[1] == '2' else sympy.Symbol(t[1])
    if k == 'neg':
        return -_pr_build(t[1])
    if k in ('exp', 'log', 'sqrt'):
        return getattr(sympy, k)(_pr_build(t[1]))
    a, b = _pr_build(t[1]), _pr_build(t[2])
    return {'add': lambda: a + b, 'sub': lambda: a - b, 'mul': lambda: a * b, 'div': lambda: a / b,
            'pow': lambda: a**b}[k]()


def _pr_atom(i):
    import sympy

    W, A = sympy.Symbol('WGT'), sympy.Symbol('AGE')
    return [W > 50, A < 30, sympy.Eq(W, 60), sympy.Ne(A, 20), W >= 60, A <= 20][i]


def _pr_cond(c):
    import sympy

    k = c[0]
    at = [_pr_atom(i) for i in c[1:]]
    if k == 'and':
        return sympy.And(*at)
    if k == 'or':
        return sympy.Or(*at)
    if k == 'and_or':
        return sympy.And(sympy.Or(at[0], at[1]), at[2])
    if k == 'or_and':
        return sympy.Or(sympy.And(at[0], at[1]), at[2])
    if k == 'not_and':
        return sympy.Not(sympy.And(*at))
    if k == 'not_or':
        return sympy.Not(sympy.Or(*at))
    if k == 'atom':
        return at[0]
    raise ValueError(k)


def _pr_build_case(case):
    """case -> sympy expression"""
    import sympy

    if case[0] == 'expr':
        return _pr_build(case[1])
    form, conds = case[1], [_pr_cond(c) for c in case[2]]
    W, A = sympy.Symbol('WGT'), sympy.Symbol('AGE')
    if form == 'else3':
        return sympy.Piecewise((1, conds[0]), (3, True))
    if form == 'else0':
        return sympy.Piecewise((1, conds[0]), (0, True))
    if form == 'noelse':
        return sympy.Piecewise((W, conds[0]))
    if form == 'two_else':
        return sympy.Piecewise((W, conds[0]), (A, conds[1]), (2, True))
    if form == 'two_noelse_expr':
        return sympy.Piecewise((W + 1, conds[0]), (A * 2, conds[1]))
    raise ValueError(form)


def gen_print_cases(tier):
    import sympy

    cases = []
    seen = set()
    for t in _pr_trees(2):
        try:
            e = _pr_build(t)
        except Exception:
            continue
        if e.has(sympy.zoo, sympy.nan, sympy.oo, -sympy.oo):
            continue
        key = sympy.srepr(e)
        if key not in seen:
            seen.add(key)
            cases.append(('expr', t))
    nexpr = len(cases)
    idx = range(len(_PR_ATOMS))
    conds = [('atom', i) for i in idx]
    conds += [(k, i, j) for k in ('and', 'or', 'not_and', 'not_or') for i, j in itertools.combinations(idx, 2)]
    conds += [(k, i, j, l) for k in ('and', 'or') for i, j, l in itertools.combinations(idx, 3)]
    trip = list(itertools.combinations(idx, 3)) if tier == 'thorough' else list(itertools.combinations(range(4), 3))
    for i, j, l in trip:
        for a, b, c in ((i, j, l), (i, l, j), (j, l, i)):
            conds += [('and_or', a, b, c), ('or_and', a, b, c)]
    for c in conds:
        for form in ('else3', 'else0', 'noelse'):
            cases.append(('pw', form, [c]))
    two = [c for c in conds if c[0] in ('atom', 'and', 'or') and len(c) <= 3][: (60 if tier == 'thorough' else 24)]
    for c1 in two[:8]:
        for c2 in two:
            if c1 != c2:
                cases.append(('pw', 'two_else', [c1, c2]))
                cases.append(('pw', 'two_noelse_expr', [c1, c2]))
    return cases, nexpr


_COND_CLASSES = ['atoms or And/Or of 2 atoms', 'And/Or of 3 atoms', 'And of Or / Or of And',
                 'Not of And/Or']


def _print_kind(case):
    if case[0] == 'expr':
        return 'arithmetic expression'
    rank = 0
    for c in case[2]:
        if c[0] in ('not_and', 'not_or'):
            r = 3
        elif c[0] in ('and_or', 'or_and'):
            r = 2
        elif len(c) == 4:
            r = 1
        else:
            r = 0
        rank = max(rank, r)
    return f'Piecewise (conditions: {_COND_CLASSES[rank]})'


def _statement_text(pred, name):
    """source lines of the top level statements (whole IF blocks) that mention name"""
    groups = []
    cur = []
    depth = 0
    for ln in pred:
        s = ln.strip()
        if not s:
            continue
        cur.append(s)
        up = re.sub(r'\s+', '', s.upper())
        if up.startswith('IF(') and up.endswith('THEN'):
            depth += 1
        elif up == 'ENDIF':
            depth -= 1
        if depth == 0:
            groups.append(cur)
            cur = []
    return ' | '.join(' | '.join(g) for g in groups if any(re.search(rf'\b{name}\b', x) for x in g))


def _extract_pred(code):
    lines = code.split('\n')
    out = []
    inside = False
    for ln in lines:
        if ln.startswith('$'):
            inside = ln.upper().startswith('$PRED')
            continue
        if inside:
            out.append(ln)
    return out


def _check_print_batch(cases):
    """-> list of (index, nontrivial, [(fid, clause, detail)])"""
    import sympy
    from pharmpy.model import Assignment, Statements
    from pharmpy.modeling import read_model_from_string

    if _IR_REL is None:
        _init_ir_tables()
    _speedup()
    base = read_model_from_string(_PRED_TEMPLATE % 'VZ = WGT')
    exprs = [_pr_build_case(c) for c in cases]
    new = [Assignment.create(sympy.Symbol(f'X{i}'), e) for i, e in enumerate(exprs)]
    kindtxt = _print_kind
    fid_of = lambda c: FID_PRINTER if c[0] == 'expr' else FID_PIECEWISE  # noqa: E731
    try:
        model = base.replace(statements=Statements(new) + base.statements)
        model = model.update_source()
        code = model.code
    except Exception as exc:
        if len(cases) == 1:
            return [(0, True, [(fid_of(cases[0]), f'{kindtxt(cases[0])}: NONMEM code is generated without error',
                                f'X = {exprs[0]}: {type(exc).__name__}: {str(exc)[:150]}')])]
        h = len(cases) // 2
        a = _check_print_batch(cases[:h])
        b = _check_print_batch(cases[h:])
        return a + [(i + h, nt, fl) for i, nt, fl in b]
    pred = _extract_pred(code)
    # (i) meaning of the printed text under NM-TRAN rules (reference interpreter)
    ref_envs = None
    ref_err = None
    try:
        prog = ref_parse_program(pred)
        ref_envs = []
        for point in GRID:
            env = dict(point)
            env.update({'THETA': 0.0})
            try:
                ref_run([st for st in prog if not (st[0] == 'assign' and st[1] == 'Y')], env)
            except (RefUndefined, RefDomain) as exc:
                env['__error__'] = repr(exc)
            ref_envs.append(env)
    except RefSyntax as exc:
        ref_err = str(exc)
    if (ref_err or any('__error__' in e for e in (ref_envs or []))) and len(cases) > 1:
        # isolate: one statement per model
        out = []
        for i, c in enumerate(cases):
            r = _check_print_batch([c])
            out.append((i, r[0][1], r[0][2]))
        return out
    # (ii) reading the generated code back
    back_envs = None
    back_err = None
    try:
        back = read_model_from_string(code)
        sts = list(back.statements)
        back_envs = [ir_run(sts, dict(point)) for point in GRID]
    except Exception as exc:
        back_err = f'{type(exc).__name__}: {str(exc)[:120]}'
        if len(cases) > 1:
            out = []
            for i, c in enumerate(cases):
                r = _check_print_batch([c])
                out.append((i, r[0][1], r[0][2]))
            return out
    out = []
    for i, (c, e) in enumerate(zip(cases, exprs)):
        name = f'X{i}'
        fails = []
        nontrivial = False
        text = _statement_text(pred, name)
        for gi, point in enumerate(GRID):
            try:
                want = ir_eval(e, dict(point))
                if isinstance(want, bool):
                    want = float(want)
            except IRUndefined:
                continue
            nontrivial = True
            at = f'at WGT={point["WGT"]:g} AGE={point["AGE"]:g}'
            if ref_err is not None:
                fails.append((fid_of(c), f'{kindtxt(c)}: the generated text is valid NM-TRAN abbreviated code',
                              f'X = {e} is printed as {text!r}: {ref_err}'))
            else:
                env = ref_envs[gi]
                got = env.get(name)
                if '__error__' in env and got is None:
                    fails.append((fid_of(c), f'{kindtxt(c)}: the generated text means, under NM-TRAN rules, the value of the expression',
                                  f'{at}: X = {e} has value {want:.12g}; printed as {text!r} which NM-TRAN cannot evaluate ({env["__error__"]})'))
                elif got is None and want != 0 or got is not None and not close(got, want):
                    fails.append((fid_of(c), f'{kindtxt(c)}: the generated text means, under NM-TRAN rules, the value of the expression',
                                  f'{at}: X = {e} has value {want:.12g}; printed as {text!r} which NM-TRAN evaluates to {got}'))
            if back_err is not None:
                fails.append((FID_UPDATE_STATEMENTS, f'{kindtxt(c)}: the generated code is read back without error',
                              f'X = {e} printed as {text!r}: {back_err}'))
            else:
                got = back_envs[gi].get(name)
                if got is None and want != 0 or got is not None and not close(got, want):
                    fails.append((FID_UPDATE_STATEMENTS, f'{kindtxt(c)}: reading the generated code back gives a statement with the value of the original expression',
                                  f'{at}: X = {e} has value {want:.12g}; printed as {text!r}, read back value {got}'))
            if fails:
                break
        seen = set()
        uniq = []
        for f in fails:
            if f[1] not in seen:
                seen.add(f[1])
                uniq.append(f)
        out.append((i, nontrivial, uniq))
    return out


def bounded_codegen_roundtrip(tier='quick'):
    import multiprocessing as mp

    rt_jobs = gen_roundtrip_jobs(tier)
    base_cases = gen_roundtrip_cases(tier)
    rt_cases = [seq for _, seq in rt_jobs]
    pr_cases, nexpr = gen_print_cases(tier)
    batch = 40
    pr_jobs = [pr_cases[i : i + batch] for i in range(0, len(pr_cases), batch)]
    ctx = mp.get_context('fork')
    with ctx.Pool(NPROC, initializer=_pool_init) as pool:
        rt_async = pool.map_async(_check_roundtrip_case, rt_jobs, chunksize=1)
        pr_async = pool.map_async(_check_print_batch, pr_jobs, chunksize=1)
        rt_res = rt_async.get()
        pr_res = pr_async.get()
    fails = {}
    also = _Also()
    nontrivial = 0
    for (start, seq), (nt, fl) in zip(rt_jobs, rt_res):
        nontrivial += bool(nt)
        for fid, clause, detail in fl:
            key = (fid, clause)
            # the cases of the start pheno (recorded without 'start') stay the smallest ones
            size = (list(_RT_STARTS).index(start), len(seq), len(' '.join(seq)))
            case = {'kind': 'roundtrip', 'transformations': seq, 'clause': clause}
            if start != 'pheno':
                case = {'kind': 'roundtrip', 'start': start, 'transformations': seq, 'clause': clause}
            also.add(key, case)
            if key not in fails or size < fails[key]['_size']:
                fails[key] = {'fid': fid, 'clause': clause, 'detail': detail, 'case': case,
                              'replay_fn': 'bounded_codegen_roundtrip_replay', '_size': size}
    for job, res in zip(pr_jobs, pr_res):
        for i, nt, fl in res:
            nontrivial += bool(nt)
            for fid, clause, detail in fl:
                key = (fid, clause)
                size = (0, 1, len(str(job[i])))
                also.add(key, {'kind': 'print', 'case': job[i], 'clause': clause})
                if key not in fails or size < fails[key]['_size']:
                    fails[key] = {'fid': fid, 'clause': clause, 'detail': detail,
                                  'case': {'kind': 'print', 'case': job[i], 'clause': clause},
                                  'replay_fn': 'bounded_codegen_roundtrip_replay', '_size': size}
    for key, f in fails.items():
        f.pop('_size')
        f['also'] = also.get(key, f['case'])
    ntr = len(_transformations())
    return {
        'cases': len(rt_cases) + len(pr_cases),
        'nontrivial': nontrivial,
        'bound': (
            f'pheno example model and all models reached by <={2 if tier == "thorough" else 1} of {ntr} structural '
            f'transformations (absorption, elimination, peripheral/transit compartments, lag time, '
            f'bioavailability, ODE solver){"" if tier == "thorough" else " plus the 24 ordered pairs elimination x absorption"} '
            f'plus 8 sequences non-linear elimination ; structure change ; first-order elimination '
            f'[{sum(1 for st, _ in rt_jobs if st == "pheno" and _ in base_cases)}]; the same <={2 if tier == "thorough" else 1} '
            f'transformations from 2 more start models (moxo example model: oral ADVAN2 with ALAG1, IOV; pheno with '
            f'a RATE data column that is 0 on all records); every transformation twice in a row '
            f'{"from every start" if tier == "thorough" else "from pheno, add_lag_time / add_bioavailability twice in a row from every start and alternating (a ; b ; a) from pheno"} '
            f'; all ordered pairs{" and triples" if tier == "thorough" else ""} of the {len(_RENUMBERING)} transformations that add or remove '
            f'compartments (absorption, transit, peripheral compartments) from pheno; {len(_rv_transformations())} parameter / '
            f'random effect transformations (scale initial estimates, fix covariance parameters, create / split joint '
            f'distribution, remove first / last IIV, add IIV, IIV on RUV, Box-Cox, covariate effect) singly from pheno and '
            f'from {len(_RV_LAYOUTS) if tier == "thorough" else len(_RV_STARTS_QUICK)} variants of pheno with other $OMEGA / $SIGMA layouts (3 etas in BLOCK(3), '
            f'one diagonal record, BLOCK(2)+diagonal, BLOCK(3) SD CORR; 3 epsilons in $SIGMA BLOCK(3)'
            f'{"; 4 etas in BLOCK(4)" if tier == "thorough" else ""}), the compartment transformations from '
            f'{"every layout" if tier == "thorough" else "the BLOCK(3) layout"}, '
            + ('all pairs of parameter transformations from every layout, pairs compartment x parameter transformation '
               '(both orders) from the BLOCK(3) layout ' if tier == 'thorough' else
               'pairs create / split joint distribution x parameter transformation (both orders) from the first 2 layouts ')
            + f'[{len(rt_jobs)} in all]; written to disk and read back, compared '
            f'numerically at 3 points over all compartment numberings, reserved parameters ALAGn/Fn/Dn/Rn assigned '
            f'in the written $PK and RATE item of the written data compared with what the compartments of the model imply; printer: all {nexpr} distinct sympy '
            f'expressions from trees of depth <=2 over + - * / ** unary- exp log sqrt with operands WGT, AGE, '
            f'2, and {len(pr_cases) - nexpr} Piecewise statements (5 shapes) whose conditions are atoms, And/Or '
            f'of 2-3 atoms, Not(And/Or), And(Or(..),..), Or(And(..),..) over 6 relational atoms; printed text '
            f'evaluated by the NM-TRAN reference interpreter and read back, on WGT in {{40,60,80}} x AGE in {{20,50}}'),
        'samples': [str(rt_cases[1]), str(pr_cases[nexpr // 2]), str(pr_cases[-1])],
        'fails': sorted(fails.values(), key=lambda f: (f['fid'], f['clause'])),
    }


def _tuplify(x):
    return tuple(_tuplify(y) for y in x) if isinstance(x, list) else x


def bounded_codegen_roundtrip_replay(rp):
    c = rp['case']
    if c['kind'] == 'roundtrip':
        if _IR_REL is None:
            _init_ir_tables()
        _, fl = _check_roundtrip_case((c.get('start', 'pheno'), list(c['transformations'])))
    else:
        case = _tuplify(c['case'])
        if case[0] == 'pw':
            case = (case[0], case[1], list(case[2]))
        fl = _check_print_batch([case])[0][2]
    fl = [f for f in fl if f[1] == c.get('clause', f[1])]
    if fl:
        return (False, fl[0][2])
    return (True, 'ok')
