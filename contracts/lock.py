"""Contracts for src/pharmpy/internals/fs/lock.py (serves C15): monitor invariants of
ShareableThreadLock, ShareableProcessLock and ThreadSafeKeyedRefPool, for any number of threads.
"""
from pyvc.api import *

M = ModuleSpec('src/pharmpy/internals/fs/lock.py', prop='C15')
MONITORS = {}
M.exec_class = 'monitor'

TRUSTED = [
    'CPython semantics of threading.Lock/RLock/Condition as modelled in pyvc.monitor (owner/depth; '
    'wait() releases the lock completely and re-acquires it before returning; notify_all() wakes '
    'every waiter)',
    'fcntl.lockf replaces the calling process\'s lock on the file (LOCK_EX/LOCK_SH), LOCK_UN clears '
    'it, a failed non-blocking request changes nothing',
    '@contextmanager generators: code after `yield` runs exactly once when the with-body ends, '
    'normally or by exception',
    'Owicki-Gries reasoning restricted to state protected by the modelled locks (lock discipline '
    'itself is a generated obligation)',
]


def _symbolic():
    """everything that needs z3 lives here so that the native runner can import this module"""
    import z3

    from pyvc import sym
    from pyvc.monitor import MonitorSpec, install_lock_intrinsics
    from pyvc.symexec import CounterVal, LockVal, SObj, MDict, Val, PyTuple
    from pyvc.sym import TInt, TBool, TOpaque

    install_lock_intrinsics(M)
    I = z3.IntSort()

    def arr(name, rng):
        return z3.Const(sym.fresh_name(name), z3.ArraySort(I, rng))

    # ---------------------------------------------------------------------------------------
    class ThreadLock(MonitorSpec):
        """ShareableThreadLock.
        ghost: sh[t] / ex[t] = number of shared / exclusive with-bodies thread t is inside;
               waiting[t] = t is blocked in self._condition.wait() of _lock_ex."""

        name = 'ShareableThreadLock'
        protected = {'_acquired_by': '_condition'}

        def setup(self, ex, st):
            st.env['self'] = SObj('ShareableThreadLock', {})

        def havoc(self, ex, st):
            f = st.env['self'].fields
            f['_acquired_by'] = CounterVal.fresh(TInt, 'acq')
            f['_condition'] = LockVal(z3.Int(sym.fresh_name('owner')), z3.Int(sym.fresh_name('depth')),
                                      True, '_condition')
            st.mon['sh'], st.mon['ex'] = arr('sh', I), arr('ex', I)
            st.mon['shx'] = arr('shx', I)  # shared bodies entered while inside an exclusive body
            st.mon['waiting'] = arr('waiting', z3.BoolSort())

        def snapshot(self, ex, st):
            f = st.env['self'].fields
            return {'acq': f['_acquired_by'].copy(), 'sh': st.mon['sh'], 'ex': st.mon['ex'],
                    'shx': st.mon['shx'],
                    'waiting': st.mon['waiting'], 'owner': f['_condition'].owner,
                    'depth': f['_condition'].depth}

        def G(self, acq, w):
            u = z3.Int(sym.fresh_name('u'))
            return z3.Exists([u], z3.And(u != w, acq.get(u) > 0), patterns=[z3.Select(acq.cnt, u)])

        def inv(self, ex, st):
            f = st.env['self'].fields
            acq, lk = f['_acquired_by'], f['_condition']
            sh, exg, waiting, shx = st.mon['sh'], st.mon['ex'], st.mon['waiting'], st.mon['shx']
            t, u, w = z3.Ints(' '.join(sym.fresh_name(x) for x in 'tuw'))
            cnt, keys = acq.cnt, acq.keys
            S = z3.Select
            return [
                ('I0 0 is not a thread id (it encodes "no owner")',
                 z3.And(S(cnt, 0) == 0, S(sh, 0) == 0, S(exg, 0) == 0, z3.Not(S(waiting, 0)),
                        S(shx, 0) == 0)),
                ('I1 zero-count entries are deleted (keys == threads with a positive count)',
                 z3.ForAll([t], z3.And(S(keys, t) == (S(cnt, t) > 0), S(cnt, t) >= 0),
                           patterns=[S(keys, t), S(cnt, t)])),
                ('I2 count of a thread == number of with-bodies it is inside',
                 z3.ForAll([t], z3.And(S(cnt, t) == S(sh, t) + S(exg, t), S(sh, t) >= 0, S(exg, t) >= 0),
                           patterns=[S(cnt, t), S(sh, t), S(exg, t)])),
                ('I3a a thread inside an exclusive body owns the condition lock',
                 z3.ForAll([t], z3.Implies(S(exg, t) > 0, lk.owner == t), patterns=[S(exg, t)])),
                ('I3b while a thread is inside an exclusive body no other thread holds',
                 z3.ForAll([t, u], z3.Implies(z3.And(S(exg, t) > 0, u != t), S(cnt, u) == 0),
                           patterns=[z3.MultiPattern(S(exg, t), S(cnt, u))])),
                ('I4 lock owner/depth consistent',
                 z3.And(lk.depth >= 0, (lk.owner == 0) == (lk.depth == 0))),
                ('I6 no lost wake-up: every thread blocked in wait() still has a reason to wait',
                 z3.ForAll([w], z3.Implies(S(waiting, w), self.G(acq, w)), patterns=[S(waiting, w)])),
                ('I8 while a thread is inside an exclusive body every waiter is kept waiting by a shared '
                 'hold that thread took before its exclusive one',
                 z3.ForAll([t, w], z3.Implies(z3.And(S(exg, t) > 0, S(waiting, w)), S(sh, t) - S(shx, t) >= 1),
                           patterns=[z3.MultiPattern(S(exg, t), S(waiting, w))])),
                ('I9 ghost: shared bodies entered inside an exclusive body',
                 z3.ForAll([t], z3.And(0 <= S(shx, t), S(shx, t) <= S(sh, t),
                                       z3.Implies(S(exg, t) == 0, S(shx, t) == 0)),
                           patterns=[S(shx, t)])),
                ('I10 the condition lock is held at least as deep as the exclusive nesting',
                 z3.ForAll([t], z3.Implies(S(exg, t) > 0, lk.depth >= S(exg, t)), patterns=[S(exg, t)])),
                ('I7 a waiting thread does not own the condition lock',
                 z3.ForAll([w], z3.Implies(S(waiting, w), lk.owner != w), patterns=[S(waiting, w)])),
            ]

        def frame(self, ex, st, pre):
            f = st.env['self'].fields
            acq = f['_acquired_by']
            tid = st.mon['tid']
            u = z3.Int(sym.fresh_name('u'))
            return [
                ('F1 a thread changes only its own count and ghost counters',
                 z3.ForAll([u], z3.Implies(u != tid, z3.And(
                     acq.get(u) == pre['acq'].get(u),
                     z3.Select(st.mon['sh'], u) == z3.Select(pre['sh'], u),
                     z3.Select(st.mon['ex'], u) == z3.Select(pre['ex'], u),
                     z3.Select(st.mon['shx'], u) == z3.Select(pre['shx'], u))),
                     patterns=[acq.get(u), z3.Select(st.mon['sh'], u), z3.Select(st.mon['ex'], u)])),
                ('F2 another thread is never put to sleep by this one',
                 z3.ForAll([u], z3.Implies(z3.And(u != tid, z3.Select(st.mon['waiting'], u)),
                                           z3.Select(pre['waiting'], u)),
                           patterns=[z3.Select(st.mon['waiting'], u)])),
            ]

        def local_pre(self, ex, st, point):
            f = st.env['self'].fields
            lk = f['_condition']
            tid = st.mon['tid']
            res = [z3.Not(z3.Select(st.mon['waiting'], tid))]
            bal = st.mon['bal'].get('_condition')
            own = st.mon.get('own')
            if own is not None and point in ('yield', 'wait'):
                # other threads never change this thread's entries (frame F1 of every segment), and
                # the with-body restores them (bracket discipline of nested `with` blocks)
                acq = f['_acquired_by']
                res += [acq.get(tid) == own['cnt'], acq.has(tid) == own['key'],
                        z3.Select(st.mon['sh'], tid) == own['sh'], z3.Select(st.mon['ex'], tid) == own['ex'],
                        z3.Select(st.mon['shx'], tid) == own['shx']]
            if point == 'entry':
                # the thread is running: it is not blocked; nesting inside its own exclusive body
                # is allowed (then it owns the lock)
                pass
            elif point == 'yield':
                meth = ex.c.qualname.split('.')[-1]
                if meth == '_lock_ex':
                    # the exclusive body runs while this thread keeps the condition lock
                    res.append(lk.owner == tid)
                    res.append(lk.depth >= bal)
            elif point == 'wait':
                # returning from wait(): the condition lock was free and has been re-acquired
                res.append(lk.owner == 0)
            return res

        def normalize(self, ex, st):
            acq = st.env['self'].fields['_acquired_by']
            acq.cnt = self.named(st, acq.cnt, 'n_cnt')
            acq.keys = self.named(st, acq.keys, 'n_keys')
            for g in ('sh', 'ex', 'shx', 'waiting'):
                st.mon[g] = self.named(st, st.mon[g], 'n_' + g)

        def own(self, st):
            tid = st.mon['tid']
            acq = st.env['self'].fields['_acquired_by']
            return {'cnt': acq.get(tid), 'key': acq.has(tid), 'sh': z3.Select(st.mon['sh'], tid),
                    'ex': z3.Select(st.mon['ex'], tid), 'shx': z3.Select(st.mon['shx'], tid)}

        def before_wait(self, ex, st):
            st.mon['waiting'] = z3.Store(st.mon['waiting'], st.mon['tid'], True)
            st.mon['own'] = self.own(st)

        def after_wait(self, ex, st):
            st.mon['waiting'] = z3.Store(st.mon['waiting'], st.mon['tid'], False)

        def on_notify_all(self, ex, st):
            st.mon['waiting'] = z3.K(I, z3.BoolVal(False))

        def before_yield(self, ex, st, node):
            tid = st.mon['tid']
            meth = ex.c.qualname.split('.')[-1]
            acq = st.env['self'].fields['_acquired_by']
            g = 'sh' if meth == '_lock_sh' else 'ex'
            if meth == '_lock_sh':
                inner = z3.If(z3.Select(st.mon['ex'], tid) > 0, 1, 0)
                st.mon['shx'] = z3.Store(st.mon['shx'], tid, z3.Select(st.mon['shx'], tid) + inner)
            st.mon[g] = z3.Store(st.mon[g], tid, z3.Select(st.mon[g], tid) + 1)
            st.mon['own'] = self.own(st)
            pre = st.mon['pre']
            # success means: a non-reentrant request was not recursive
            ex.oblige(st, 'raises', 'lock granted to a non-reentrant request only if the thread held nothing',
                      z3.Or(ex.truthy(st.env['reentrant'], st), acq.get(tid) == 1), node.lineno,
                      'granted => reentrant or not held before')
            if meth == '_lock_ex':
                u = z3.Int(sym.fresh_name('u'))
                ex.oblige(st, 'exclusion', 'exclusive lock granted only when no other thread holds',
                          z3.ForAll([u], z3.Implies(u != tid, acq.get(u) == 0)), node.lineno,
                          'granted exclusive => no other holder')

        def after_yield(self, ex, st):
            tid = st.mon['tid']
            meth = ex.c.qualname.split('.')[-1]
            g = 'sh' if meth == '_lock_sh' else 'ex'
            if meth == '_lock_sh':
                inner = z3.If(z3.Select(st.mon['ex'], tid) > 0, 1, 0)
                st.mon['shx'] = z3.Store(st.mon['shx'], tid, z3.Select(st.mon['shx'], tid) - inner)
            st.mon[g] = z3.Store(st.mon[g], tid, z3.Select(st.mon[g], tid) - 1)

        def on_raise(self, ex, st, exc, lineno):
            tid = st.mon['tid']
            pre = st.mon['pre']
            acq = st.env['self'].fields['_acquired_by']
            if exc == 'BodyException':
                return
            # refusals leave this thread's count untouched
            ex.oblige(st, 'raises', f'{exc}: the count of the refused thread is unchanged',
                      acq.get(tid) == pre['acq'].get(tid), lineno, f'{exc} leaves counts unchanged')
            if exc == 'RecursiveDeadlockError':
                ex.oblige(st, 'raises', 'RecursiveDeadlockError only for a non-reentrant request of a holder',
                          z3.And(z3.Not(ex.truthy(st.env['reentrant'], st)), pre['acq'].get(tid) > 0),
                          lineno, 'RecursiveDeadlockError => not reentrant and held')
            elif exc == 'AcquiringThreadLevelLockWouldBlockError':
                ex.oblige(st, 'raises', 'WouldBlock only for a non-blocking request',
                          z3.Not(ex.truthy(st.env['blocking'], st)), lineno, 'WouldBlock => not blocking')
                if ex.c.qualname.endswith('_lock_ex'):
                    ex.oblige(st, 'raises', 'exclusive WouldBlock only if the lock is busy or another thread holds',
                              z3.Or(z3.And(pre['owner'] != 0, pre['owner'] != tid), self.G(pre['acq'], tid)),
                              lineno, 'WouldBlock => busy or other holder')
            else:
                ex.oblige(st, 'raises', f'unexpected exception {exc}', z3.BoolVal(False), lineno,
                          f'no {exc}')

        replay_fn = 'replay_thread_lock'

        def model_to_replay(self, m, ob, dom):
            """candidate state of a finite-instantiation model -> description for the native harness"""
            pre = ob.mon['pre']
            if pre is None:
                return None

            def iv(t):
                return m.eval(t, model_completion=True).as_long()

            def bv(t):
                return z3.is_true(m.eval(t, model_completion=True))

            threads = {}
            for d in dom[1:]:
                k = z3.IntVal(d)
                threads[str(d)] = {'count': iv(pre['acq'].get(k)), 'sh': iv(z3.Select(pre['sh'], k)),
                                   'ex': iv(z3.Select(pre['ex'], k)),
                                   'waiting': bv(z3.Select(pre['waiting'], k))}
            env = ob.mon['env']
            flags = {n: bv(env[n].t) for n in ('blocking', 'reentrant') if n in env}
            return {'threads': threads, 'tid': str(iv(ob.mon['tid'])), 'method': ob.fid.split('.')[-1],
                    'segment': ob.path[-3:] if ob.path else [], 'flags': flags,
                    'owner': iv(pre['owner'])}

    MONITORS['ShareableThreadLock'] = ThreadLock()

    for meth in ('_lock_sh', '_lock_ex'):
        c = M.contract(f'ShareableThreadLock.{meth}', params={'blocking': Bool, 'reentrant': Bool})
        c.monitor = 'ShareableThreadLock'
        c.sidecar_module = 'contracts.lock'

    # lemma: reader-writer exclusion follows from the invariant
    def exclusion_lemma():
        """Inv => not (t inside an exclusive body and another thread u inside any body)"""
        from pyvc.symexec import State

        st = State()
        spec = MONITORS['ShareableThreadLock']
        spec.setup(None, st)
        st.mon['tid'] = z3.Int('tid')
        spec.havoc(None, st)
        inv = [f for _, f in spec.inv(None, st)]
        t, u = z3.Ints('t u')
        goal = z3.Not(z3.And(z3.Select(st.mon['ex'], t) > 0, t != u,
                             z3.Or(z3.Select(st.mon['sh'], u) > 0, z3.Select(st.mon['ex'], u) > 0)))
        return inv, goal

    M.lemmas.append(('ShareableThreadLock: invariant implies reader-writer exclusion', exclusion_lemma))


try:
    import z3  # noqa: F401

    _symbolic()
except ImportError:  # native side
    pass


def replay_thread_lock(rp):
    """Native replay of a ShareableThreadLock state with real threads.

    Builds the counter-model's state (threads holding shared locks, threads blocked in an
    exclusive request), lets thread `tid` leave one shared with-body, and reports a lost wake-up if
    a blocked thread whose reason to wait has vanished is not granted the lock within 3 s."""
    import threading
    import time

    from pharmpy.internals.fs.lock import ShareableThreadLock

    state = rp['state']
    th = state['threads']
    tid = state['tid']
    if state['method'] != '_lock_sh' or any(t['ex'] for t in th.values()) or state['owner'] != 0:
        return None, 'state not replayable by this harness (exclusive holders)'
    if th[tid]['sh'] < 1:
        return None, 'thread does not hold a shared lock in this state'
    lock = ShareableThreadLock()
    ready = {k: threading.Event() for k in th}
    go = {k: threading.Event() for k in th}
    granted = {k: threading.Event() for k in th}
    done = threading.Event()
    errors = []

    def run(k):
        t = th[k]
        try:
            cms = []
            for _ in range(t['sh']):
                cm = lock.lock(shared=True, blocking=True, reentrant=True)
                cm.__enter__()
                cms.append(cm)
            ready[k].set()
            if t['waiting']:
                with lock.lock(shared=False, blocking=True, reentrant=True):
                    granted[k].set()
                    done.wait(10)
            elif k == tid:
                go[k].wait(10)
                cms.pop().__exit__(None, None, None)  # the segment under test: leave one shared body
                granted[k].set()
                done.wait(10)
            else:
                done.wait(10)
            for cm in reversed(cms):
                cm.__exit__(None, None, None)
        except Exception as e:  # pragma: no cover
            errors.append(repr(e))

    threads = {k: threading.Thread(target=run, args=(k,), daemon=True) for k in th}
    for k in th:
        if not th[k]['waiting']:
            threads[k].start()
            ready[k].wait(5)
    for k in th:
        if th[k]['waiting']:
            threads[k].start()
            ready[k].wait(5)
    time.sleep(0.5)
    blocked = [k for k in th if th[k]['waiting'] and not granted[k].is_set()]
    go[tid].set()
    granted[tid].wait(5)
    after = {k: th[k]['sh'] - (1 if k == tid else 0) for k in th}
    lost = []
    for w in blocked:
        if not any(after[u] > 0 for u in th if u != w):
            if not granted[w].wait(3):
                lost.append(w)
    done.set()
    if errors:
        return None, 'harness error: ' + '; '.join(errors)
    if lost:
        return False, (f'lost wake-up: thread {lost[0]} stays blocked in its exclusive request although no '
                       f'other thread holds the lock after thread {tid} left its shared body '
                       f'(state {th})')
    return True, f'all blocked threads were granted the lock (blocked before: {blocked})'
