"""Contracts for src/pharmpy/internals/fs/lock.py (serves C15): monitor invariants of
ShareableThreadLock, ShareableProcessLock and ThreadSafeKeyedRefPool, for any number of threads.
"""
from pyvc.api import *

M = ModuleSpec('src/pharmpy/internals/fs/lock.py', prop='C15')
MONITORS = {}
M.exec_class = 'monitor'

TRUSTED = [
    'CPython semantics of threading.Lock/RLock/Condition as modelled in pyvc.monitor (owner/depth; '
    'wait() releases the lock completely and re-acquires it before returning; notify_all() wakes '
    'every waiter)',
    'fcntl.lockf replaces the calling process\'s lock on the file (LOCK_EX/LOCK_SH), LOCK_UN clears '
    'it, a failed non-blocking request changes nothing',
    '@contextmanager generators: code after `yield` runs exactly once when the with-body ends, '
    'normally or by exception',
    'Owicki-Gries reasoning restricted to state protected by the modelled locks (lock discipline '
    'itself is a generated obligation)',
]


def _symbolic():
    """everything that needs z3 lives here so that the native runner can import this module"""
    import z3

    from pyvc import sym
    from pyvc.monitor import MonitorSpec, install_lock_intrinsics
    from pyvc.symexec import CounterVal, LockVal, SObj, MDict, Val, PyTuple, NONE
    from pyvc.sym import TInt, TBool, TOpaque

    install_lock_intrinsics(M)
    I = z3.IntSort()

    def arr(name, rng):
        return z3.Const(sym.fresh_name(name), z3.ArraySort(I, rng))

    # ---------------------------------------------------------------------------------------
    class ThreadLock(MonitorSpec):
        """ShareableThreadLock.
        ghost: sh[t] / ex[t] = number of shared / exclusive with-bodies thread t is inside;
               waiting[t] = t is blocked in self._condition.wait() of _lock_ex."""

        name = 'ShareableThreadLock'
        protected = {'_acquired_by': '_condition'}

        def setup(self, ex, st):
            st.env['self'] = SObj('ShareableThreadLock', {})

        def havoc(self, ex, st):
            f = st.env['self'].fields
            f['_acquired_by'] = CounterVal.fresh(TInt, 'acq')
            f['_condition'] = LockVal(z3.Int(sym.fresh_name('owner')), z3.Int(sym.fresh_name('depth')),
                                      True, '_condition')
            st.mon['sh'], st.mon['ex'] = arr('sh', I), arr('ex', I)
            st.mon['shx'] = arr('shx', I)  # shared bodies entered while inside an exclusive body
            st.mon['waiting'] = arr('waiting', z3.BoolSort())

        def snapshot(self, ex, st):
            f = st.env['self'].fields
            return {'acq': f['_acquired_by'].copy(), 'sh': st.mon['sh'], 'ex': st.mon['ex'],
                    'shx': st.mon['shx'],
                    'waiting': st.mon['waiting'], 'owner': f['_condition'].owner,
                    'depth': f['_condition'].depth}

        def G(self, acq, w):
            u = z3.Int(sym.fresh_name('u'))
            return z3.Exists([u], z3.And(u != w, acq.get(u) > 0), patterns=[z3.Select(acq.cnt, u)])

        def inv(self, ex, st):
            f = st.env['self'].fields
            acq, lk = f['_acquired_by'], f['_condition']
            sh, exg, waiting, shx = st.mon['sh'], st.mon['ex'], st.mon['waiting'], st.mon['shx']
            t, u, w = z3.Ints(' '.join(sym.fresh_name(x) for x in 'tuw'))
            cnt, keys = acq.cnt, acq.keys
            S = z3.Select
            return [
                ('I0 0 is not a thread id (it encodes "no owner")',
                 z3.And(S(cnt, 0) == 0, S(sh, 0) == 0, S(exg, 0) == 0, z3.Not(S(waiting, 0)),
                        S(shx, 0) == 0)),
                ('I1 zero-count entries are deleted (keys == threads with a positive count)',
                 z3.ForAll([t], z3.And(S(keys, t) == (S(cnt, t) > 0), S(cnt, t) >= 0),
                           patterns=[S(keys, t), S(cnt, t)])),
                ('I2 count of a thread == number of with-bodies it is inside',
                 z3.ForAll([t], z3.And(S(cnt, t) == S(sh, t) + S(exg, t), S(sh, t) >= 0, S(exg, t) >= 0),
                           patterns=[S(cnt, t), S(sh, t), S(exg, t)])),
                ('I3a a thread inside an exclusive body owns the condition lock',
                 z3.ForAll([t], z3.Implies(S(exg, t) > 0, lk.owner == t), patterns=[S(exg, t)])),
                ('I3b while a thread is inside an exclusive body no other thread holds',
                 z3.ForAll([t, u], z3.Implies(z3.And(S(exg, t) > 0, u != t), S(cnt, u) == 0),
                           patterns=[z3.MultiPattern(S(exg, t), S(cnt, u))])),
                ('I4 lock owner/depth consistent',
                 z3.And(lk.depth >= 0, (lk.owner == 0) == (lk.depth == 0))),
                ('I6 no lost wake-up: every thread blocked in wait() still has a reason to wait',
                 z3.ForAll([w], z3.Implies(S(waiting, w), self.G(acq, w)), patterns=[S(waiting, w)])),
                ('I8 while a thread is inside an exclusive body every waiter is kept waiting by a shared '
                 'hold that thread took before its exclusive one',
                 z3.ForAll([t, w], z3.Implies(z3.And(S(exg, t) > 0, S(waiting, w)), S(sh, t) - S(shx, t) >= 1),
                           patterns=[z3.MultiPattern(S(exg, t), S(waiting, w))])),
                ('I9 ghost: shared bodies entered inside an exclusive body',
                 z3.ForAll([t], z3.And(0 <= S(shx, t), S(shx, t) <= S(sh, t),
                                       z3.Implies(S(exg, t) == 0, S(shx, t) == 0)),
                           patterns=[S(shx, t)])),
                ('I10 the condition lock is held at least as deep as the exclusive nesting',
                 z3.ForAll([t], z3.Implies(S(exg, t) > 0, lk.depth >= S(exg, t)), patterns=[S(exg, t)])),
                ('I7 a waiting thread does not own the condition lock',
                 z3.ForAll([w], z3.Implies(S(waiting, w), lk.owner != w), patterns=[S(waiting, w)])),
            ]

        def frame(self, ex, st, pre):
            f = st.env['self'].fields
            acq = f['_acquired_by']
            tid = st.mon['tid']
            u = z3.Int(sym.fresh_name('u'))
            return [
                ('F1 a thread changes only its own count and ghost counters',
                 z3.ForAll([u], z3.Implies(u != tid, z3.And(
                     acq.get(u) == pre['acq'].get(u),
                     z3.Select(st.mon['sh'], u) == z3.Select(pre['sh'], u),
                     z3.Select(st.mon['ex'], u) == z3.Select(pre['ex'], u),
                     z3.Select(st.mon['shx'], u) == z3.Select(pre['shx'], u))),
                     patterns=[acq.get(u), z3.Select(st.mon['sh'], u), z3.Select(st.mon['ex'], u)])),
                ('F2 another thread is never put to sleep by this one',
                 z3.ForAll([u], z3.Implies(z3.And(u != tid, z3.Select(st.mon['waiting'], u)),
                                           z3.Select(pre['waiting'], u)),
                           patterns=[z3.Select(st.mon['waiting'], u)])),
            ]

        def local_pre(self, ex, st, point):
            f = st.env['self'].fields
            lk = f['_condition']
            tid = st.mon['tid']
            res = [z3.Not(z3.Select(st.mon['waiting'], tid))]
            bal = st.mon['bal'].get('_condition')
            own = st.mon.get('own')
            if own is not None and point in ('yield', 'wait'):
                # other threads never change this thread's entries (frame F1 of every segment), and
                # the with-body restores them (bracket discipline of nested `with` blocks)
                acq = f['_acquired_by']
                res += [acq.get(tid) == own['cnt'], acq.has(tid) == own['key'],
                        z3.Select(st.mon['sh'], tid) == own['sh'], z3.Select(st.mon['ex'], tid) == own['ex'],
                        z3.Select(st.mon['shx'], tid) == own['shx']]
            if point == 'entry':
                # the thread is running: it is not blocked; nesting inside its own exclusive body
                # is allowed (then it owns the lock)
                pass
            elif point == 'yield':
                meth = ex.c.qualname.split('.')[-1]
                if meth == '_lock_ex':
                    # the exclusive body runs while this thread keeps the condition lock
                    res.append(lk.owner == tid)
                    res.append(lk.depth >= bal)
            elif point == 'wait':
                # returning from wait(): the condition lock was free and has been re-acquired
                res.append(lk.owner == 0)
            return res

        def normalize(self, ex, st):
            acq = st.env['self'].fields['_acquired_by']
            acq.cnt = self.named(st, acq.cnt, 'n_cnt')
            acq.keys = self.named(st, acq.keys, 'n_keys')
            for g in ('sh', 'ex', 'shx', 'waiting'):
                st.mon[g] = self.named(st, st.mon[g], 'n_' + g)

        def own(self, st):
            tid = st.mon['tid']
            acq = st.env['self'].fields['_acquired_by']
            return {'cnt': acq.get(tid), 'key': acq.has(tid), 'sh': z3.Select(st.mon['sh'], tid),
                    'ex': z3.Select(st.mon['ex'], tid), 'shx': z3.Select(st.mon['shx'], tid)}

        def before_wait(self, ex, st):
            st.mon['waiting'] = z3.Store(st.mon['waiting'], st.mon['tid'], True)
            st.mon['own'] = self.own(st)

        def after_wait(self, ex, st):
            st.mon['waiting'] = z3.Store(st.mon['waiting'], st.mon['tid'], False)

        def on_notify_all(self, ex, st):
            st.mon['waiting'] = z3.K(I, z3.BoolVal(False))

        def before_yield(self, ex, st, node):
            tid = st.mon['tid']
            meth = ex.c.qualname.split('.')[-1]
            acq = st.env['self'].fields['_acquired_by']
            g = 'sh' if meth == '_lock_sh' else 'ex'
            if meth == '_lock_sh':
                inner = z3.If(z3.Select(st.mon['ex'], tid) > 0, 1, 0)
                st.mon['shx'] = z3.Store(st.mon['shx'], tid, z3.Select(st.mon['shx'], tid) + inner)
            st.mon[g] = z3.Store(st.mon[g], tid, z3.Select(st.mon[g], tid) + 1)
            st.mon['own'] = self.own(st)
            pre = st.mon['pre']
            # success means: a non-reentrant request was not recursive
            ex.oblige(st, 'raises', 'lock granted to a non-reentrant request only if the thread held nothing',
                      z3.Or(ex.truthy(st.env['reentrant'], st), acq.get(tid) == 1), node.lineno,
                      'granted => reentrant or not held before')
            if meth == '_lock_ex':
                u = z3.Int(sym.fresh_name('u'))
                ex.oblige(st, 'exclusion', 'exclusive lock granted only when no other thread holds',
                          z3.ForAll([u], z3.Implies(u != tid, acq.get(u) == 0)), node.lineno,
                          'granted exclusive => no other holder')

        def after_yield(self, ex, st):
            tid = st.mon['tid']
            meth = ex.c.qualname.split('.')[-1]
            g = 'sh' if meth == '_lock_sh' else 'ex'
            if meth == '_lock_sh':
                inner = z3.If(z3.Select(st.mon['ex'], tid) > 0, 1, 0)
                st.mon['shx'] = z3.Store(st.mon['shx'], tid, z3.Select(st.mon['shx'], tid) - inner)
            st.mon[g] = z3.Store(st.mon[g], tid, z3.Select(st.mon[g], tid) - 1)

        def on_raise(self, ex, st, exc, lineno):
            tid = st.mon['tid']
            pre = st.mon['pre']
            acq = st.env['self'].fields['_acquired_by']
            if exc == 'BodyException':
                return
            # refusals leave this thread's count untouched
            ex.oblige(st, 'raises', f'{exc}: the count of the refused thread is unchanged',
                      acq.get(tid) == pre['acq'].get(tid), lineno, f'{exc} leaves counts unchanged')
            if exc == 'RecursiveDeadlockError':
                ex.oblige(st, 'raises', 'RecursiveDeadlockError only for a non-reentrant request of a holder',
                          z3.And(z3.Not(ex.truthy(st.env['reentrant'], st)), pre['acq'].get(tid) > 0),
                          lineno, 'RecursiveDeadlockError => not reentrant and held')
            elif exc == 'AcquiringThreadLevelLockWouldBlockError':
                ex.oblige(st, 'raises', 'WouldBlock only for a non-blocking request',
                          z3.Not(ex.truthy(st.env['blocking'], st)), lineno, 'WouldBlock => not blocking')
                if ex.c.qualname.endswith('_lock_ex'):
                    ex.oblige(st, 'raises', 'exclusive WouldBlock only if the lock is busy or another thread holds',
                              z3.Or(z3.And(pre['owner'] != 0, pre['owner'] != tid), self.G(pre['acq'], tid)),
                              lineno, 'WouldBlock => busy or other holder')
            else:
                ex.oblige(st, 'raises', f'unexpected exception {exc}', z3.BoolVal(False), lineno,
                          f'no {exc}')

        replay_fn = 'replay_thread_lock'

        def model_to_replay(self, m, ob, dom):
            """candidate state of a finite-instantiation model -> description for the native harness"""
            pre = ob.mon['pre']
            if pre is None:
                return None

            def iv(t):
                return m.eval(t, model_completion=True).as_long()

            def bv(t):
                return z3.is_true(m.eval(t, model_completion=True))

            threads = {}
            for d in dom[1:]:
                k = z3.IntVal(d)
                threads[str(d)] = {'count': iv(pre['acq'].get(k)), 'sh': iv(z3.Select(pre['sh'], k)),
                                   'ex': iv(z3.Select(pre['ex'], k)),
                                   'waiting': bv(z3.Select(pre['waiting'], k))}
            env = ob.mon['env']
            flags = {n: bv(env[n].t) for n in ('blocking', 'reentrant') if n in env}
            return {'threads': threads, 'tid': str(iv(ob.mon['tid'])), 'method': ob.fid.split('.')[-1],
                    'segment': ob.path[-3:] if ob.path else [], 'flags': flags,
                    'owner': iv(pre['owner'])}

    MONITORS['ShareableThreadLock'] = ThreadLock()

    for meth in ('_lock_sh', '_lock_ex'):
        c = M.contract(f'ShareableThreadLock.{meth}', params={'blocking': Bool, 'reentrant': Bool})
        c.monitor = 'ShareableThreadLock'
        c.sidecar_module = 'contracts.lock'

    # ---------------------------------------------------------------------------------------
    NONE_, SH_, EX_ = 0, 1, 2

    class ProcessLock(MonitorSpec):
        """ShareableProcessLock (UNIX branch: is_windows == False).
        ghost: klock = this process's fcntl lock on the fd (0 none, 1 shared, 2 exclusive)."""

        name = 'ShareableProcessLock'
        protected = {'_shared_by': '_lock', '_exclusively_held_by': '_lock'}

        def setup(self, ex, st):
            st.env['self'] = SObj('ShareableProcessLock', {'_fd': Val(TInt, z3.Int('fd'))})
            st.env['is_windows'] = Val(TBool, z3.BoolVal(False))

        def havoc(self, ex, st):
            f = st.env['self'].fields
            f['_shared_by'] = CounterVal.fresh(TInt, 'shb')
            f['_exclusively_held_by'] = CounterVal.fresh(TInt, 'exh')
            f['_lock'] = LockVal(z3.Int(sym.fresh_name('owner')), z3.Int(sym.fresh_name('depth')), False, '_lock')
            st.mon['klock'] = z3.Int(sym.fresh_name('klock'))

        def snapshot(self, ex, st):
            f = st.env['self'].fields
            return {'shb': f['_shared_by'].copy(), 'exh': f['_exclusively_held_by'].copy(),
                    'klock': st.mon['klock'], 'owner': f['_lock'].owner}

        def normalize(self, ex, st):
            f = st.env['self'].fields
            for n in ('_shared_by', '_exclusively_held_by'):
                f[n].cnt = self.named(st, f[n].cnt, 'n_cnt')
                f[n].keys = self.named(st, f[n].keys, 'n_keys')

        def inv(self, ex, st):
            f = st.env['self'].fields
            shb, exh, lk, kl = f['_shared_by'], f['_exclusively_held_by'], f['_lock'], st.mon['klock']
            S = z3.Select
            t = z3.Int(sym.fresh_name('t'))
            u = z3.Int(sym.fresh_name('u'))

            def rep(c):
                return z3.ForAll([t], z3.And(S(c.keys, t) == (S(c.cnt, t) > 0), S(c.cnt, t) >= 0),
                                 patterns=[S(c.keys, t), S(c.cnt, t)])

            return [
                ('P0 0 is not a thread id', z3.And(S(shb.cnt, 0) == 0, S(exh.cnt, 0) == 0)),
                ('P1 zero-count entries of _shared_by are deleted', rep(shb)),
                ('P2 zero-count entries of _exclusively_held_by are deleted', rep(exh)),
                ('P3 lock owner/depth consistent (plain Lock)',
                 z3.And(lk.depth >= 0, lk.depth <= 1, (lk.owner == 0) == (lk.depth == 0))),
                ('K0 kernel lock state is none/shared/exclusive', z3.And(kl >= 0, kl <= 2)),
                ('K1 while a thread holds exclusively the process holds the exclusive fcntl lock',
                 z3.ForAll([t], z3.Implies(S(exh.keys, t), kl == EX_), patterns=[S(exh.keys, t)])),
                ('K2 while a thread holds shared the process holds an fcntl lock',
                 z3.ForAll([t], z3.Implies(S(shb.keys, t), kl != NONE_), patterns=[S(shb.keys, t)])),
                ('K3 the exclusive fcntl lock is kept only while some thread holds exclusively',
                 z3.Implies(kl == EX_, z3.Exists([u], S(exh.keys, u), patterns=[S(exh.keys, u)]))),
                ('K4 an fcntl lock is kept only while some thread holds (released with the last holder)',
                 z3.Implies(kl != NONE_, z3.Exists([u], z3.Or(S(exh.keys, u), S(shb.keys, u)),
                                                  patterns=[S(exh.keys, u), S(shb.keys, u)]))),
            ]

        def frame(self, ex, st, pre):
            f = st.env['self'].fields
            tid = st.mon['tid']
            u = z3.Int(sym.fresh_name('u'))
            shb, exh = f['_shared_by'], f['_exclusively_held_by']
            return [('F1 a thread changes only its own counts',
                     z3.ForAll([u], z3.Implies(u != tid, z3.And(shb.get(u) == pre['shb'].get(u),
                                                                exh.get(u) == pre['exh'].get(u))),
                               patterns=[shb.get(u), exh.get(u)]))]

        def own(self, st):
            f = st.env['self'].fields
            tid = st.mon['tid']
            return {'sh': f['_shared_by'].get(tid), 'ex': f['_exclusively_held_by'].get(tid)}

        def local_pre(self, ex, st, point):
            f = st.env['self'].fields
            tid = st.mon['tid']
            res = []
            own = st.mon.get('own')
            if own is not None and point == 'yield':
                res += [f['_shared_by'].get(tid) == own['sh'], f['_exclusively_held_by'].get(tid) == own['ex']]
            return res

        def before_yield(self, ex, st, node):
            st.mon['own'] = self.own(st)
            f = st.env['self'].fields
            tid = st.mon['tid']
            pre = st.mon['pre']
            shared = ex.truthy(st.env['shared'], st)
            ex.oblige(st, 'raises', 'lock granted to a non-reentrant request only if the thread held nothing',
                      z3.Or(ex.truthy(st.env['reentrant'], st),
                            z3.And(pre['shb'].get(tid) == 0, pre['exh'].get(tid) == 0)), node.lineno,
                      'granted => reentrant or not held before')
            ex.oblige(st, 'grant', 'an exclusive request is granted only with the exclusive fcntl lock',
                      z3.Implies(z3.Not(shared), st.mon['klock'] == EX_), node.lineno,
                      'granted exclusive => kernel lock exclusive')
            ex.oblige(st, 'grant', 'a granted request holds an fcntl lock',
                      st.mon['klock'] != NONE_, node.lineno, 'granted => kernel lock held')

        def on_raise(self, ex, st, exc, lineno):
            f = st.env['self'].fields
            tid = st.mon['tid']
            pre = st.mon['pre']
            if exc == 'BodyException':
                return
            ex.oblige(st, 'raises', f'{exc}: counts and kernel lock unchanged',
                      z3.And(f['_shared_by'].get(tid) == pre['shb'].get(tid),
                             f['_exclusively_held_by'].get(tid) == pre['exh'].get(tid),
                             st.mon['klock'] == pre['klock']), lineno, f'{exc} leaves state unchanged')
            if exc == 'RecursiveDeadlockError':
                ex.oblige(st, 'raises', 'RecursiveDeadlockError only for a non-reentrant request of a holder',
                          z3.And(z3.Not(ex.truthy(st.env['reentrant'], st)),
                                 z3.Or(pre['shb'].get(tid) > 0, pre['exh'].get(tid) > 0)),
                          lineno, 'RecursiveDeadlockError => not reentrant and held')
            elif exc == 'AcquiringProcessLevelLockWouldBlockError':
                ex.oblige(st, 'raises', 'WouldBlock only for a non-blocking request',
                          z3.Not(ex.truthy(st.env['blocking'], st)), lineno, 'WouldBlock => not blocking')
            else:
                ex.oblige(st, 'raises', f'unexpected exception {exc}', z3.BoolVal(False), lineno, f'no {exc}')

    MONITORS['ShareableProcessLock'] = ProcessLock()

    @M.intrinsic('stmt:_process_level_lock')
    def _pll(ex, st, call):
        """fcntl.lockf(fd, LOCK_SH|LOCK_EX [|LOCK_NB]): replaces this process's lock; a non-blocking
        request may fail (another process), then nothing changes and
        AcquiringProcessLevelLockWouldBlockError is raised"""
        args = [ex.eval(a, st) for a in call.args]
        kw = {k.arg: ex.eval(k.value, st) for k in call.keywords}
        shared = ex.truthy(kw.get('shared', args[1] if len(args) > 1 else None), st)
        blocking = ex.truthy(kw.get('blocking', args[2] if len(args) > 2 else None), st)
        fd = args[0]
        ex.safety(st, fd.t == st.env['self'].fields['_fd'].t, 'locks its own fd', call)
        fail = st.clone()
        fail.assume(z3.Not(blocking))
        fail.path.append(f'L{call.lineno}:kernel-busy')
        st.mon['klock'] = z3.If(shared, z3.IntVal(SH_), z3.IntVal(EX_))
        res = [(st, ('next',))]
        if ex.feasible(fail):
            res.append((fail, ('raise', 'AcquiringProcessLevelLockWouldBlockError', call.lineno)))
        return res

    @M.intrinsic('stmt:_process_level_unlock')
    def _plu(ex, st, call):
        st.mon['klock'] = z3.IntVal(NONE_)
        return [(st, ('next',))]

    c = M.contract('ShareableProcessLock.lock', params={'shared': Bool, 'blocking': Bool, 'reentrant': Bool})
    c.monitor = 'ShareableProcessLock'
    c.sidecar_module = 'contracts.lock'

    # ---------------------------------------------------------------------------------------
    Key = TOpaque('PoolKey')
    Obj = TOpaque('PoolObj')

    class RefPool(MonitorSpec):
        """ThreadSafeKeyedRefPool.  ghost: users[k] = number of with-bodies running for key k;
        destroyed[o] = destructor was called on object o; made = objects created by the factory."""

        name = 'ThreadSafeKeyedRefPool'
        protected = {'_refs': '_lock'}

        def setup(self, ex, st):
            st.env['self'] = SObj('ThreadSafeKeyedRefPool', {})

        def havoc(self, ex, st):
            f = st.env['self'].fields
            f['_refs'] = MDict.fresh(Key, [Obj, TInt], 'refs')
            f['_lock'] = LockVal(z3.Int(sym.fresh_name('owner')), z3.Int(sym.fresh_name('depth')), False, '_lock')
            f['_destructor'] = Val(sym.TOption(sym.TOpaque('Fn')), sym.TOption(sym.TOpaque('Fn')).fresh('destr'))
            f['_factory'] = Val(sym.TOpaque('Fn'), sym.TOpaque('Fn').fresh('fact'))
            st.mon['users'] = z3.Const(sym.fresh_name('users'), z3.ArraySort(Key.sort(), I))
            st.mon['destroyed'] = z3.Const(sym.fresh_name('destroyed'), z3.ArraySort(Obj.sort(), z3.BoolSort()))
            if 'has_destr' in st.mon:
                st.assume(sym.TOption(sym.TOpaque('Fn')).is_none(f['_destructor'].t) == z3.Not(st.mon['has_destr']))
            else:
                st.mon['has_destr'] = z3.Not(sym.TOption(sym.TOpaque('Fn')).is_none(f['_destructor'].t))

        def snapshot(self, ex, st):
            f = st.env['self'].fields
            r = f['_refs']
            return {'keys': r.keys, 'obj': r.arrs[0], 'cnt': r.arrs[1], 'users': st.mon['users'],
                    'destroyed': st.mon['destroyed']}

        def normalize(self, ex, st):
            r = st.env['self'].fields['_refs']
            r.keys = self.named(st, r.keys, 'n_keys')
            r.arrs = [self.named(st, a, 'n_arr') for a in r.arrs]
            st.mon['users'] = self.named(st, st.mon['users'], 'n_users')
            st.mon['destroyed'] = self.named(st, st.mon['destroyed'], 'n_destroyed')

        def inv(self, ex, st):
            f = st.env['self'].fields
            r, lk = f['_refs'], f['_lock']
            S = z3.Select
            k = z3.Const(sym.fresh_name('k'), Key.sort())
            k2 = z3.Const(sym.fresh_name('k2'), Key.sort())
            users, destroyed = st.mon['users'], st.mon['destroyed']
            return [
                ('R1 the reference count of a pooled object is the number of users inside its with-body',
                 z3.ForAll([k], z3.Implies(S(r.keys, k), z3.And(S(r.arrs[1], k) == S(users, k),
                                                                 S(users, k) >= 1)),
                           patterns=[S(r.keys, k)])),
                ('R2 keys without users are not in the pool (bookkeeping empty at quiescence)',
                 z3.ForAll([k], z3.Implies(z3.Not(S(r.keys, k)), S(users, k) == 0),
                           patterns=[S(users, k)])),
                ('R3 a pooled object has not been destroyed (e.g. its fd is still open)',
                 z3.ForAll([k], z3.Implies(S(r.keys, k), z3.Not(S(destroyed, S(r.arrs[0], k)))),
                           patterns=[S(r.keys, k)])),
                ('R4 lock owner/depth consistent (plain Lock)',
                 z3.And(lk.depth >= 0, lk.depth <= 1, (lk.owner == 0) == (lk.depth == 0))),
                ('R5 different keys never share a pooled object (one fd per path)',
                 z3.ForAll([k, k2], z3.Implies(z3.And(S(r.keys, k), S(r.keys, k2), k != k2),
                                               S(r.arrs[0], k) != S(r.arrs[0], k2)),
                           patterns=[z3.MultiPattern(S(r.keys, k), S(r.keys, k2))])),
            ]

        def frame(self, ex, st, pre):
            f = st.env['self'].fields
            r = f['_refs']
            S = z3.Select
            k = z3.Const(sym.fresh_name('k'), Key.sort())
            key = st.env['key'].t
            return [('F1 only the entry of the requested key changes',
                     z3.ForAll([k], z3.Implies(k != key, z3.And(
                         S(r.keys, k) == S(pre['keys'], k), S(r.arrs[0], k) == S(pre['obj'], k),
                         S(r.arrs[1], k) == S(pre['cnt'], k), S(st.mon['users'], k) == S(pre['users'], k))),
                               patterns=[S(r.keys, k), S(st.mon['users'], k)]))]

        def local_pre(self, ex, st, point):
            f = st.env['self'].fields
            r = f['_refs']
            S = z3.Select
            res = []
            if point == 'yield':
                key = st.env['key'].t
                # this user is still inside: the entry exists and holds the object that was yielded
                res += [S(st.mon['users'], key) >= 1, S(r.keys, key),
                        S(r.arrs[0], key) == st.mon['yielded_obj']]
            return res

        def before_yield(self, ex, st, node):
            key = st.env['key'].t
            S = z3.Select
            st.mon['users'] = z3.Store(st.mon['users'], key, S(st.mon['users'], key) + 1)
            obj = ex.eval(node.value.value, st)
            if isinstance(obj, Val) and isinstance(obj.ty, sym.TOption):
                # an optional value (e.g. `a if c else b` with b possibly None) is yielded: it must not be None
                obj = Val(obj.ty.inner, ex.to_term(obj, obj.ty.inner, st))
            st.mon['yielded_obj'] = obj.t
            r = st.env['self'].fields['_refs']
            ex.oblige(st, 'grant', 'the yielded object is the pooled object of the key, not destroyed',
                      z3.And(S(r.keys, key), S(r.arrs[0], key) == obj.t,
                             z3.Not(S(st.mon['destroyed'], obj.t))), node.lineno,
                      'yielded object == pooled object and alive')
            pre = st.mon['pre']
            ex.oblige(st, 'grant', 'an existing pooled object is shared, a new one is created only if none exists',
                      z3.Implies(S(pre['keys'], key), obj.t == S(pre['obj'], key)), node.lineno,
                      'existing entry => same object')

        def after_yield(self, ex, st):
            key = st.env['key'].t
            S = z3.Select
            st.mon['users'] = z3.Store(st.mon['users'], key, S(st.mon['users'], key) - 1)

        def on_exit(self, ex, st):
            if not st.mon.get('yielded'):
                return
            key = st.env['key'].t
            S = z3.Select
            pre = st.mon['pre']
            obj = st.mon['yielded_obj']
            last = S(pre['users'], key) == 1
            ex.oblige(st, 'exit', 'the destructor runs exactly when the last user leaves (if there is one)',
                      S(st.mon['destroyed'], obj) == z3.Or(S(pre['destroyed'], obj),
                                                          z3.And(last, st.mon['has_destr'])),
                      0, 'destroyed <=> last user left and destructor given')
            ex.oblige(st, 'exit', 'the entry is removed exactly when the last user leaves',
                      S(st.env['self'].fields['_refs'].keys, key) == z3.Not(last), 0,
                      'entry removed <=> last user left')

        def on_raise(self, ex, st, exc, lineno):
            if exc != 'BodyException':
                ex.oblige(st, 'raises', f'unexpected exception {exc}', z3.BoolVal(False), lineno, f'no {exc}')

    MONITORS['ThreadSafeKeyedRefPool'] = RefPool()

    @M.intrinsic('call:Fn')
    def _factory(ex, st, args, kwargs, node):
        r0 = st.env['self'].fields['_refs']
        # a key never has two live objects (for file descriptors: closing one of two descriptors of a file drops the
        # process's locks held through the other): the factory may only run while the key has no pooled object
        ex.safety(st, z3.Not(z3.Select(r0.keys, ex.to_term(args[1], Key, st))),
                  'the factory runs only while the key has no pooled object (never two live objects per key)', node)
        lk0 = st.env['self'].fields['_lock']
        ex.safety(st, lk0.owner == st.mon['tid'],
                  'the factory runs inside the critical section that found the key absent (pool lock held)', node)
        o = Obj.fresh('made')
        # a new object (os.open gives a new descriptor; constructors give new objects): alive
        st.assume(z3.Not(z3.Select(st.mon['destroyed'], o)))
        r = st.env['self'].fields['_refs']
        k = z3.Const(sym.fresh_name('k'), Key.sort())
        # ... and different from every object currently pooled (those are alive, e.g. open fds)
        st.assume(z3.ForAll([k], z3.Implies(z3.Select(r.keys, k), z3.Select(r.arrs[0], k) != o),
                            patterns=[z3.Select(r.keys, k)]))
        return Val(Obj, o)

    @M.intrinsic('call:Opt<Fn>')
    def _destructor(ex, st, args, kwargs, node):
        o = args[1]
        if isinstance(o, Val) and isinstance(o.ty, sym.TOption):
            o = Val(o.ty.inner, ex.to_term(o, o.ty.inner, st))
        ex.safety(st, z3.Not(z3.Select(st.mon['destroyed'], o.t)), 'object destroyed at most once', node)
        # the destructor closes the object: it must not be the pooled object of a key that still has users
        r = st.env['self'].fields['_refs']
        k = z3.Const(sym.fresh_name('k'), Key.sort())
        ex.safety(st, z3.ForAll([k], z3.Implies(z3.And(z3.Select(r.keys, k), z3.Select(st.mon['users'], k) >= 1),
                                                z3.Select(r.arrs[0], k) != o.t),
                                patterns=[z3.Select(r.keys, k)]),
                  'the destructor is not applied to an object that is still in use', node)
        st.mon['destroyed'] = z3.Store(st.mon['destroyed'], o.t, True)
        return NONE

    c = M.contract('ThreadSafeKeyedRefPool.__call__', params={'key': Opaque('PoolKey')})
    c.monitor = 'ThreadSafeKeyedRefPool'
    c.sidecar_module = 'contracts.lock'

    # ---------------------------------------------------------------------------------------
    # composition functions: which pool / lock is entered with which key and flags, in which order
    class CM:
        def __init__(self, name, args):
            self.name, self.args = name, args

    class Trace(MonitorSpec):
        name = 'composition'

        def setup(self, ex, st):
            st.mon['trace'] = []

        def havoc(self, ex, st):
            pass

        def before_yield(self, ex, st, node):
            v = st.mon.get('yield_value')
            st.mon['trace'] = st.mon['trace'] + [('yield', v)]

        def on_exit(self, ex, st):
            want = EXPECTED[ex.c.qualname](st)
            got = st.mon['trace']
            ok = len(want) == len(got)
            conj = []
            if ok:
                for (wn, wargs), (gn, gargs) in zip(want, got):
                    if wn != gn:
                        ok = False
                        break
                    if wn == 'yield':
                        wargs, gargs = [wargs], [gargs]
                    if len(wargs) != len(gargs):
                        ok = False
                        break
                    for a, b in zip(wargs, gargs):
                        if a is None and (b is None or b is NONE):
                            continue
                        if a is None or b is None or b is NONE:
                            ok = False
                            break
                        try:
                            conj.append(ex.eq_term(a, b, st))
                        except Exception:
                            ok = False
            goal = z3.And(*conj) if (ok and conj) else z3.BoolVal(ok)
            ex.oblige(st, 'trace', 'locks and pools are entered with the specified keys and flags, in order: '
                      + ' > '.join(n for n, _ in want), goal, 0, 'composition trace == specification', keep=True)

    MONITORS['composition'] = Trace()
    Path_ = TOpaque('PathStr')

    def _cm(name):
        def h(ex, st, args, kwargs, node):
            return CM(name, list(args) + [kwargs[k] for k in sorted(kwargs)])
        return h

    for nm in ('_fd_ref', '_process_level_lock_ref', '_thread_level_lock_ref', 'process_level_lock',
               'thread_level_lock', 'process_level_path_lock'):
        M.intrinsics[nm] = _cm(nm)

    def _ref_lock(ex, st, args, kwargs, node):
        if isinstance(args[0], Val) and args[0].ty.key() == 'LockRef':
            return CM('ref.lock', list(args) + [kwargs[k] for k in sorted(kwargs)])
        return NotImplemented

    M.intrinsics['method:lock'] = _ref_lock

    normpath_f = z3.Function('normpath', Path_.sort(), Path_.sort())

    def _normpath(ex, st, args, kwargs, node):
        return Val(Path_, normpath_f(args[0].t))

    M.intrinsics['os.path.normpath'] = _normpath
    M.intrinsics['os.fspath'] = lambda ex, st, args, kwargs, node: args[0]

    _with_lock = M.intrinsics['with']

    def _with(ex, st, cm, item, s):
        if not isinstance(cm, CM):
            return _with_lock(ex, st, cm, item, s)
        st.mon['trace'] = st.mon['trace'] + [(cm.name, cm.args)]
        if item.optional_vars is not None:
            ty = {'_fd_ref': TInt, 'process_level_path_lock': TInt}.get(cm.name, TOpaque('LockRef'))
            v = Val(ty, ty.fresh('as_' + cm.name))
            st.mon.setdefault('bound', {})[cm.name] = v
            ex.assign(item.optional_vars, v, st)
        return ex.exec_block(s.body, st)

    M.intrinsics['with'] = _with

    def _b(st, name):
        return st.mon.get('bound', {}).get(name)

    EXPECTED = {
        'process_level_lock': lambda st: [
            ('_process_level_lock_ref', [st.env['fd']]),
            ('ref.lock', [_b(st, '_process_level_lock_ref'), st.env['shared'], st.env['blocking'], st.env['reentrant']]),
            ('yield', None)],
        'thread_level_lock': lambda st: [
            ('_thread_level_lock_ref', [st.env['key']]),
            ('ref.lock', [_b(st, '_thread_level_lock_ref'), st.env['shared'], st.env['blocking'], st.env['reentrant']]),
            ('yield', None)],
        'process_level_path_lock': lambda st: [
            # ONE descriptor per normalised path, whatever the mode (fcntl locks die when any fd of
            # the file is closed)
            ('_fd_ref', [st.env['normalized_path']]),
            ('process_level_lock', [_b(st, '_fd_ref'), st.env['shared'], st.env['blocking'], st.env['reentrant']]),
            ('yield', _b(st, '_fd_ref'))],
        # BOTH levels are keyed by the normalised path: two spellings of one file must meet in the same thread lock
        # (the process-level lock does not exclude threads of one process) and in the same descriptor
        'path_lock': lambda st: [
            ('thread_level_lock', [Val(Path_, normpath_f(st.env['path'].t)), st.env['shared'], st.env['blocking'],
                                   st.env['reentrant']]),
            ('process_level_path_lock', [Val(Path_, normpath_f(st.env['path'].t)), st.env['shared'],
                                         st.env['blocking'], st.env['reentrant']]),
            ('yield', _b(st, 'process_level_path_lock'))],
    }
    flags = {'shared': Bool, 'blocking': Bool, 'reentrant': Bool}
    for q, first in (('process_level_lock', {'fd': Int}), ('thread_level_lock', {'key': Opaque('PathStr')}),
                     ('process_level_path_lock', {'normalized_path': Opaque('PathStr')}),
                     ('path_lock', {'path': Opaque('PathStr')})):
        c = M.contract(q, params=dict(first, **flags))
        c.monitor = 'composition'
        c.sidecar_module = 'contracts.lock'

    # lemma: reader-writer exclusion follows from the invariant
    def exclusion_lemma():
        """Inv => not (t inside an exclusive body and another thread u inside any body)"""
        from pyvc.symexec import State

        st = State()
        spec = MONITORS['ShareableThreadLock']
        spec.setup(None, st)
        st.mon['tid'] = z3.Int('tid')
        spec.havoc(None, st)
        inv = [f for _, f in spec.inv(None, st)]
        t, u = z3.Ints('t u')
        goal = z3.Not(z3.And(z3.Select(st.mon['ex'], t) > 0, t != u,
                             z3.Or(z3.Select(st.mon['sh'], u) > 0, z3.Select(st.mon['ex'], u) > 0)))
        return inv, goal

    M.lemmas.append(('ShareableThreadLock: invariant implies reader-writer exclusion', exclusion_lemma))


try:
    import z3  # noqa: F401

    _symbolic()
except ImportError:  # native side
    pass


def replay_thread_lock(rp):
    """Native replay of a ShareableThreadLock state with real threads.

    Builds the counter-model's state (threads holding shared locks, threads blocked in an
    exclusive request), lets thread `tid` leave one shared with-body, and reports a lost wake-up if
    a blocked thread whose reason to wait has vanished is not granted the lock within 3 s."""
    import threading
    import time

    from pharmpy.internals.fs.lock import ShareableThreadLock

    state = rp['state']
    th = state['threads']
    tid = state['tid']
    if state['method'] != '_lock_sh' or any(t['ex'] for t in th.values()) or state['owner'] != 0:
        return None, 'state not replayable by this harness (exclusive holders)'
    if th[tid]['sh'] < 1:
        return None, 'thread does not hold a shared lock in this state'
    lock = ShareableThreadLock()
    ready = {k: threading.Event() for k in th}
    go = {k: threading.Event() for k in th}
    granted = {k: threading.Event() for k in th}
    done = threading.Event()
    errors = []

    def run(k):
        t = th[k]
        try:
            cms = []
            for _ in range(t['sh']):
                cm = lock.lock(shared=True, blocking=True, reentrant=True)
                cm.__enter__()
                cms.append(cm)
            ready[k].set()
            if t['waiting']:
                with lock.lock(shared=False, blocking=True, reentrant=True):
                    granted[k].set()
                    done.wait(10)
            elif k == tid:
                go[k].wait(10)
                cms.pop().__exit__(None, None, None)  # the segment under test: leave one shared body
                granted[k].set()
                done.wait(10)
            else:
                done.wait(10)
            for cm in reversed(cms):
                cm.__exit__(None, None, None)
        except Exception as e:  # pragma: no cover
            errors.append(repr(e))

    threads = {k: threading.Thread(target=run, args=(k,), daemon=True) for k in th}
    for k in th:
        if not th[k]['waiting']:
            threads[k].start()
            ready[k].wait(5)
    for k in th:
        if th[k]['waiting']:
            threads[k].start()
            ready[k].wait(5)
    time.sleep(0.5)
    blocked = [k for k in th if th[k]['waiting'] and not granted[k].is_set()]
    go[tid].set()
    granted[tid].wait(5)
    after = {k: th[k]['sh'] - (1 if k == tid else 0) for k in th}
    lost = []
    for w in blocked:
        if not any(after[u] > 0 for u in th if u != w):
            if not granted[w].wait(3):
                lost.append(w)
    done.set()
    if errors:
        return None, 'harness error: ' + '; '.join(errors)
    if lost:
        return False, (f'lost wake-up: thread {lost[0]} stays blocked in its exclusive request although no '
                       f'other thread holds the lock after thread {tid} left its shared body '
                       f'(state {th})')
    return True, f'all blocked threads were granted the lock (blocked before: {blocked})'


# ------------------------------------------------------------------------------------------------
# bounded stand-in (native): nested path_lock requests of one thread on real files
# ------------------------------------------------------------------------------------------------
def _nested_case(case):
    """run one nesting of path_lock requests; returns None or a failure description"""
    import os
    import tempfile
    from contextlib import ExitStack

    import pharmpy.internals.fs.lock as L

    d = tempfile.mkdtemp(prefix='verif_lock_')
    paths = [os.path.join(d, f'f{i}') for i in range(2)]
    for p in paths:
        open(p, 'w').close()
    try:
        fds = {}
        with ExitStack() as stack:
            for (pi, shared) in case:
                # the same file through a differently spelled path must share the descriptor
                spelled = paths[pi] if shared else os.path.join(d, '.', f'f{pi}')
                fd = stack.enter_context(L.path_lock(spelled, shared=shared, blocking=True, reentrant=True))
                if pi in fds and fds[pi] != fd:
                    return f'two descriptors open for one path while locked: {fds[pi]} and {fd}'
                fds[pi] = fd
                os.fstat(fd)  # must be open
                key = os.path.normpath(paths[pi])
                if sum(1 for k in L._fd_ref._refs if (k == key or (isinstance(k, tuple) and key in k))) != 1:
                    return f'descriptor pool has not exactly one entry for {key}: {list(L._fd_ref._refs)}'
        for pool in (L._fd_ref, L._process_level_lock_ref, L._thread_level_lock_ref):
            if pool._refs:
                return f'bookkeeping not empty after the last user left: {pool._refs}'
        for fd in fds.values():
            try:
                os.fstat(fd)
                return f'descriptor {fd} still open after the last user left'
            except OSError:
                pass
        return None
    finally:
        import shutil
        shutil.rmtree(d, ignore_errors=True)


def bounded_path_lock(tier):
    import itertools

    depth = 3 if tier == 'quick' else 4
    n = 0
    samples = []
    for k in range(1, depth + 1):
        for case in itertools.product([(0, True), (0, False), (1, True), (1, False)], repeat=k):
            n += 1
            err = _nested_case(case)
            if n % 40 == 1:
                samples.append(repr(case))
            if err:
                return {'cases': n, 'nontrivial': n, 'samples': samples, 'bound': f'nesting depth <= {depth}, 2 paths',
                        'fail': {'fid': 'src/pharmpy/internals/fs/lock.py:path_lock', 'case': [list(c) for c in case],
                                 'clause': 'one descriptor per normalised path; pools empty and descriptor closed after the last user',
                                 'detail': err, 'replay_fn': 'bounded_path_lock_replay'}}
    return {'cases': n, 'nontrivial': n, 'samples': samples, 'bound': f'nesting depth <= {depth}, 2 paths'}


def bounded_path_lock_replay(rp):
    err = _nested_case([tuple(c) for c in rp['case']])
    return (False, err) if err else (True, 'ok')
