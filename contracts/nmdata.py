"""Contract for _convert_data_item in src/pharmpy/model/external/nonmem/dataset.py (serves C13): the order
of the NM-TRAN item rules - NULL substitution first, then the 24 character limit on the substituted item,
then the missing data token, then the Fortran number forms.

Strings are an uninterpreted sort with `len` an uninterpreted function; convert_fortran_number is used
through an assumed contract (it is regular-expression code; bounded check in contracts/b_data.py)."""
from pyvc.api import *

M = ModuleSpec('src/pharmpy/model/external/nonmem/dataset.py', prop='C13')
MODULES_HERE = [M]

TRUSTED = [
    'ASSUMED CONTRACT (regular expressions; bounded check contracts/b_data.py): convert_fortran_number(s) raises '
    'ValueError exactly for the texts that are not Fortran numbers and otherwise returns fortran_value(s)',
    'len of a string is an uninterpreted non-negative function; np.nan is a constant; floats are reals',
]


def _native():
    import math

    def _cfn():
        from pyvc.native import load_real
        return load_real(M.path, 'convert_fortran_number')[0]

    def is_fortran_number(s):
        try:
            _cfn()(s)
            return True
        except ValueError:
            return False

    def same_value(a, b):
        return (a == b) or (isinstance(a, float) and isinstance(b, float) and math.isnan(a) and math.isnan(b))

    M.natives.update({
        'is_fortran_number': is_fortran_number,
        'fortran_value': lambda s: _cfn()(s),
        'is_nan': lambda r: isinstance(r, float) and math.isnan(r),
        'same_value': same_value,
    })


_native()


def _symbolic():
    import z3
    from pyvc import sym
    from pyvc.symexec import Val, BUILTINS
    from pyvc.sym import TBool, TInt, TReal, TStr, TOption

    S = TStr.sort()
    strlen = z3.Function('strlen', S, z3.IntSort())
    is_num = z3.Function('is_fortran_number', S, z3.BoolSort())
    value = z3.Function('fortran_value', S, z3.RealSort())
    NAN = z3.Real('np_nan')

    def as_str(ex, st, v, node):
        if isinstance(v, Val) and isinstance(v.ty, TOption):
            ex.safety(st, z3.Not(v.ty.is_none(v.t)), 'len() of None', node, getattr(ex, '_spec_mode', False))
            return v.ty.val(v.t)
        if isinstance(v, Val) and v.ty is TStr:
            return v.t
        return None

    @M.intrinsic('len')
    def _len(ex, st, args, kwargs, node):
        t = as_str(ex, st, args[0], node)
        if t is None:
            return BUILTINS['len'](ex, st, args, kwargs, node, False)
        st.facts.add(strlen(t) >= 0)
        return Val(TInt, strlen(t))

    M.intrinsics['str'] = lambda ex, st, a, kw, n: Val(TStr, z3.Const(sym.fresh_name('msg'), S))
    M.intrinsics['fstring'] = M.intrinsics['str']
    M.intrinsics['np.nan'] = None  # placeholder, see attr hook below
    del M.intrinsics['np.nan']

    @M.intrinsic('attr:nan')
    def _nan(ex, st, args, kwargs, node):
        return Val(TReal, NAN)

    M.intrinsics['is_fortran_number'] = lambda ex, st, a, kw, n: Val(TBool, is_num(ex.to_term(a[0], TStr, st)))
    M.intrinsics['fortran_value'] = lambda ex, st, a, kw, n: Val(TReal, value(ex.to_term(a[0], TStr, st)))
    M.intrinsics['is_nan'] = lambda ex, st, a, kw, n: Val(TBool, ex.to_term(a[0], TReal, st) == NAN)
    M.intrinsics['same_value'] = lambda ex, st, a, kw, n: Val(
        TBool, ex.to_term(a[0], TReal, st) == ex.to_term(a[1], TReal, st))


try:
    import z3  # noqa: F401
    _symbolic()
except ImportError:
    pass

c = M.contract('convert_fortran_number', params={'number_string': Str}, returns=Real,
               raises={'ValueError': 'not is_fortran_number(number_string)'},
               ensures=['same_value(result, fortran_value(number_string))'])
c.assumed = True

Y = "(null_value if (x is None or x == '.' or x == '') else x)"
M.contract('_convert_data_item', params={'x': Option(Str), 'null_value': Str, 'missing_data_token': Str},
           returns=Real,
           raises={'DatasetError': f'len({Y}) > 24 or ({Y} != missing_data_token and not is_fortran_number({Y}))'},
           ensures=[f'is_nan(result) if {Y} == missing_data_token else same_value(result, fortran_value({Y}))'],
           domain='dom_items')


def dom_items(tier):
    xs = [None, '.', '', '1', '-99', '1D2', '2-1', '+', 'abc', '1' * 24, '1' * 25, '0', 'NA', ' 1']
    nulls = ['0', '-99', '1' * 25, 'NA']
    toks = ['-99', '0', 'NA', '.']
    for x in xs:
        for n in nulls:
            for t in toks:
                yield {'x': x, 'null_value': n, 'missing_data_token': t}
