"""Bounded contract checks for C19 (ranking / criteria / tool statistics) and C20 (NONMEM tables).

Pure Python, runs under /venv/bin/python (cwd=/verif, PYTHONPATH=/verif).  No z3, no randomness.
Every check evaluates a contract taken from the property statement / documentation on the REAL
pharmpy function over an exhaustively enumerated finite domain and compares with an independent
reference written in this file.

    bounded_rank_models(tier)      rank_models, calculate_aic/bic, lrt.*, is_strictness_fulfilled
    bounded_tool_statistics(tier)  bootstrap / cdd / shrinkage / delta method statistics
    bounded_nonmem_tables(tier)    NONMEM ext/phi/cov/$TABLE parsing, matrix relations, JSON round trip
"""
import itertools
import json
import math
import multiprocessing
import os
import warnings

warnings.filterwarnings('ignore')

NAN = float('nan')
NPROC = 16


# ------------------------------------------------------------------------------------------------
# generic helpers
# ------------------------------------------------------------------------------------------------

def _isnan(x):
    try:
        return x is None or math.isnan(float(x))
    except (TypeError, ValueError):
        return False


def _close(a, b, rtol=1e-9, atol=1e-9):
    """numeric closeness; NaN equals NaN"""
    if _isnan(a) or _isnan(b):
        return _isnan(a) and _isnan(b)
    a, b = float(a), float(b)
    if math.isinf(a) or math.isinf(b):
        return a == b
    return abs(a - b) <= atol + rtol * max(abs(a), abs(b))


def _js(v):
    """make a value json-serialisable (NaN -> 'nan' strings are decoded by _unjs)"""
    if isinstance(v, float):
        if math.isnan(v):
            return 'nan'
        return v
    if isinstance(v, (list, tuple)):
        return [_js(x) for x in v]
    if isinstance(v, dict):
        return {str(k): _js(x) for k, x in v.items()}
    return v


def _unjs(v):
    if v == 'nan':
        return NAN
    if isinstance(v, list):
        return [_unjs(x) for x in v]
    if isinstance(v, dict):
        return {k: _unjs(x) for k, x in v.items()}
    return v


class _Collector:
    """keeps, per (fid, clause), the smallest failing input (smallest = lowest enumeration order)"""

    def __init__(self):
        self.cases = 0
        self.nontrivial = 0
        self.fails = {}
        self.samples = []

    def fail(self, order, fid, clause, detail, kind, inp, replay_fn):
        key = (fid, clause)
        cur = self.fails.get(key)
        if cur is None or order < cur[0]:
            self.fails[key] = (order, {
                'fid': fid, 'clause': clause, 'detail': str(detail)[:600],
                'case': {'kind': kind, 'clause': clause, 'input': _js(inp)},
                'replay_fn': replay_fn})

    def merge(self, other):
        self.cases += other['cases']
        self.nontrivial += other['nontrivial']
        for key, (order, f) in other['fails'].items():
            cur = self.fails.get(key)
            if cur is None or order < cur[0]:
                self.fails[key] = (order, f)
        for s in other['samples']:
            if len(self.samples) < 3:
                self.samples.append(s)

    def export(self):
        return {'cases': self.cases, 'nontrivial': self.nontrivial, 'fails': self.fails,
                'samples': self.samples}

    def result(self, bound):
        fails = [f for _, (o, f) in sorted(self.fails.items(), key=lambda kv: (kv[1][0], kv[0]))]
        return {'cases': self.cases, 'nontrivial': self.nontrivial, 'bound': bound,
                'samples': self.samples[:3], 'fails': fails}


def _pool_map(fn, tasks, init=None):
    if len(tasks) <= 1:
        if init:
            init()
        return [fn(t) for t in tasks]
    ctx = multiprocessing.get_context('fork')
    with ctx.Pool(min(NPROC, len(tasks)), initializer=init) as pool:
        return pool.map(fn, tasks, chunksize=1)


def _chunks(seq, n):
    seq = list(seq)
    size = max(1, (len(seq) + n - 1) // n)
    return [seq[i:i + size] for i in range(0, len(seq), size)]


# ================================================================================================
# (1) rank_models, information criteria, LRT, strictness
# ================================================================================================

FID_RANK = 'src/pharmpy/tools/run.py:rank_models'
FID_STRICT = 'src/pharmpy/tools/run.py:is_strictness_fulfilled'
FID_AIC = 'src/pharmpy/modeling/results.py:calculate_aic'
FID_BIC = 'src/pharmpy/modeling/results.py:calculate_bic'
FID_LRT_CUTOFF = 'src/pharmpy/modeling/lrt.py:cutoff'
FID_LRT_P = 'src/pharmpy/modeling/lrt.py:p_value'
FID_LRT_TEST = 'src/pharmpy/modeling/lrt.py:test'
FID_LRT_B2 = 'src/pharmpy/modeling/lrt.py:best_of_two'
FID_LRT_BM = 'src/pharmpy/modeling/lrt.py:best_of_many'

# Hand-derived facts about the variants of the pheno example model.
#   CL = POP_CL*WGT*exp(ETA_CL); VC = POP_VC*WGT*(1+COVAPGR [APGR<5])*exp(ETA_VC); S1 = VC [*exp(ETA_S1)]
#   Y = F + F*EPS_1,  ETA_CL~N(0,IIV_CL), ETA_VC~N(0,IIV_VC), EPS_1~N(0,SIGMA)
# npar   : number of population parameters of the model (estimated or not)
# est    : number of estimated (non-fixed) population parameters
# iivom  : number of estimated IIV omega parameters
# rand   : estimated parameters of the "random" kind for the mixed BIC (omegas and the thetas of
#          individual parameters that carry a random effect); fixd: the remaining estimated ones
VARIANT_FACTS = {
    'pheno': dict(npar=6, est=6, iivom=2, rand=5, fixd=1),
    'same': dict(npar=6, est=6, iivom=2, rand=5, fixd=1),
    'fix': dict(npar=6, est=5, iivom=1, rand=4, fixd=1),      # IIV_CL FIX at its (non-zero) value
    'fix0': dict(npar=6, est=5, iivom=1, rand=3, fixd=2),     # IIV_CL 0 FIX: ETA_CL is not random
    'fixth': dict(npar=6, est=5, iivom=2, rand=4, fixd=1),    # POP_CL FIX
    'fixsig': dict(npar=6, est=5, iivom=2, rand=5, fixd=0),   # SIGMA FIX
    'rm': dict(npar=5, est=5, iivom=1, rand=3, fixd=2),       # ETA_CL removed
    'add1': dict(npar=7, est=7, iivom=3, rand=6, fixd=1),     # + ETA_S1
    'add2': dict(npar=8, est=8, iivom=4, rand=7, fixd=1),     # + ETA_S1, + cov(ETA_CL, ETA_VC)
    'sub': dict(npar=6, est=6, iivom=2, rand=5, fixd=1),      # pheno on the first 10 individuals
}
RANK_VARIANTS = ['same', 'fix', 'rm', 'add1', 'add2']

# result "statuses" of a model: objective value, minimisation flag, termination cause, sig. digits
STATUS = [
    dict(ofv=-10.0, ms=True, tc=None, sd=3.0),
    dict(ofv=0.0, ms=True, tc=None, sd=3.0),
    dict(ofv=5.0, ms=True, tc=None, sd=3.0),
    dict(ofv=NAN, ms=True, tc=None, sd=3.0),
    dict(ofv=-10.0, ms=False, tc='rounding_errors', sd=3.0),
    dict(ofv=0.0, ms=False, tc=None, sd=NAN),
]
STRICT_DEFAULT = 'minimization_successful'
STRICT_AMD = 'minimization_successful or (rounding_errors and sigdigs >= 0.1)'

_RK = {}


def _rank_env():
    """build (once per process) the model variants"""
    if _RK:
        return _RK
    from pharmpy.modeling import (
        add_iiv,
        create_joint_distribution,
        fix_parameters,
        fix_parameters_to,
        load_example_model,
        remove_iiv,
    )

    m = load_example_model('pheno')
    v = {'pheno': m}
    v['same'] = m.replace(name='same')
    v['fix'] = fix_parameters(m, ['IIV_CL'])
    v['fix0'] = fix_parameters_to(m, {'IIV_CL': 0})
    v['fixth'] = fix_parameters(m, ['POP_CL'])
    v['fixsig'] = fix_parameters(m, ['SIGMA'])
    v['rm'] = remove_iiv(m, ['ETA_CL'])
    v['add1'] = add_iiv(m, ['S1'], 'exp')
    v['add2'] = create_joint_distribution(v['add1'], ['ETA_CL', 'ETA_VC'])
    ds = m.dataset
    v['sub'] = m.replace(dataset=ds[ds['ID'] <= 10].reset_index(drop=True))
    for k in list(v):
        v[k] = v[k].replace(name=k)
    # sanity of the hand-derived facts (reference self check, from the parameter table only)
    for k, mod in v.items():
        facts = VARIANT_FACTS[k]
        pars = list(mod.parameters)
        assert len(pars) == facts['npar'], (k, 'npar')
        assert sum(1 for p in pars if not p.fix) == facts['est'], (k, 'est')
        assert facts['rand'] + facts['fixd'] == facts['est'], k
    _RK['variants'] = v
    _RK['named'] = {}
    # data facts counted directly on the data frame: individuals and observation records
    for k, mod in v.items():
        d = mod.dataset
        VARIANT_FACTS[k]['nids'] = len(set(d['ID'].tolist()))
        VARIANT_FACTS[k]['nobs'] = sum(1 for a in d['AMT'].tolist() if a == 0)
    assert VARIANT_FACTS['pheno']['nids'] == 59 and VARIANT_FACTS['pheno']['nobs'] == 155
    assert VARIANT_FACTS['sub']['nids'] == 10
    return _RK


def _named(variant, name):
    env = _rank_env()
    key = (variant, name)
    if key not in env['named']:
        env['named'][key] = env['variants'][variant].replace(name=name)
    return env['named'][key]


def _mk_res(st, warnings_none=False):
    import pandas as pd
    from pharmpy.workflows.results import ModelfitResults

    env = _rank_env()
    pe = env.get('pe')
    if pe is None:
        pe = env['pe'] = pd.Series({p.name: p.init for p in env['variants']['pheno'].parameters})
    return ModelfitResults(
        ofv=st['ofv'], minimization_successful=st['ms'], termination_cause=st['tc'],
        significant_digits=st['sd'], warnings=None if warnings_none else [],
        parameter_estimates=pe)


# ---- reference --------------------------------------------------------------------------------

def _ref_strict(st, strictness):
    if math.isnan(st['ofv']):
        return False
    if strictness is None or strictness == '':
        return True
    if strictness == STRICT_DEFAULT:
        return bool(st['ms'])
    if strictness == STRICT_AMD:
        return bool(st['ms'] or (st['tc'] == 'rounding_errors' and st['sd'] >= 0.1))
    raise AssertionError(strictness)


def _ref_criterion(variant, ofv, rank_type, bic_type):
    f = VARIANT_FACTS[variant]
    if rank_type in ('ofv', 'lrt'):
        return ofv
    if rank_type == 'aic':
        return ofv + 2 * f['est']
    assert rank_type == 'bic'
    if bic_type in (None, 'mixed'):
        return ofv + f['rand'] * math.log(f['nids']) + f['fixd'] * math.log(f['nobs'])
    if bic_type == 'fixed':
        return ofv + f['est'] * math.log(f['nobs'])
    if bic_type == 'random':
        return ofv + f['est'] * math.log(f['nids'])
    if bic_type == 'iiv':
        return ofv + f['iivom'] * math.log(f['nids'])
    raise AssertionError(bic_type)


def _ref_chi2_cutoff(df, alpha):
    """OFV drop required to accept a child with `df` more parameters than its parent at level alpha.
    df > 0: chi-square quantile; df == 0: 0; df < 0 (parameters removed): the child is kept unless
    the OFV increases by more than the quantile for |df|."""
    from scipy.stats import chi2

    if df == 0:
        return 0.0
    if df > 0:
        return float(chi2.isf(alpha, df))
    return -float(chi2.isf(alpha, -df))


def _ref_lrt_pass(df, alpha, parent_ofv, child_ofv):
    dofv = parent_ofv - child_ofv
    if math.isnan(dofv):
        return False
    return dofv >= _ref_chi2_cutoff(df, alpha)


def _ref_rank(inp):
    """returns per model (base first): dict(name, eligible, reason, value, delta) and rank relation"""
    rank_type, bic_type = inp['rank_type'], inp.get('bic_type')
    strictness = inp.get('strictness', STRICT_DEFAULT)
    cutoff = inp.get('cutoff')
    pens = inp.get('penalties')
    specs = [('pheno', inp['base'])] + [tuple(c) for c in inp['cands']]
    names = ['base'] + [f'c{i + 1}' for i in range(len(inp['cands']))]
    rows = []
    for i, (variant, sti) in enumerate(specs):
        st = STATUS[sti]
        ok = _ref_strict(st, strictness)
        val = _ref_criterion(variant, st['ofv'], rank_type, bic_type) + (pens[i] if pens else 0.0)
        rows.append(dict(name=names[i], variant=variant, st=st, strict=ok, value=val, reason=None))
    base = rows[0]
    parents = inp.get('parents')
    for i, r in enumerate(rows):
        if not r['strict']:
            r['reason'] = 'strictness'
            continue
        if i == 0:
            continue
        if rank_type == 'lrt':
            p = rows[parents[i - 1]] if parents else base
            df = VARIANT_FACTS[r['variant']]['npar'] - VARIANT_FACTS[p['variant']]['npar']
            if cutoff is None:
                alpha = 0.05 if df >= 0 else 0.01
            elif isinstance(cutoff, (list, tuple)):
                alpha = cutoff[0] if df >= 0 else cutoff[1]
            else:
                alpha = cutoff
            if not _ref_lrt_pass(df, alpha, p['st']['ofv'], r['st']['ofv']):
                r['reason'] = 'lrt'
        elif cutoff is not None and base['strict']:
            if not (base['value'] - r['value'] > cutoff):
                r['reason'] = 'cutoff'
    for r in rows:
        r['eligible'] = r['reason'] is None
        r['delta'] = (base['value'] - r['value']) if base['strict'] else NAN
    return rows


def _rank_call(inp):
    """build the real inputs and call rank_models; returns (df or exception, inputs snapshot check)"""
    from pharmpy.tools.run import rank_models

    wn = inp.get('warnings_none', False)
    base = _named('pheno', 'base')
    base_res = _mk_res(STATUS[inp['base']], wn)
    models = [_named(v, f'c{i + 1}') for i, (v, s) in enumerate(inp['cands'])]
    ress = [_mk_res(STATUS[s], wn) for (v, s) in inp['cands']]
    allm = [base] + models
    kwargs = {}
    if 'strictness' in inp:
        kwargs['strictness'] = inp['strictness']
    if inp.get('cutoff') is not None:
        c = inp['cutoff']
        kwargs['cutoff'] = tuple(c) if isinstance(c, (list, tuple)) else c
    pens = inp.get('penalties')
    if pens is not None:
        pens = list(pens)
        kwargs['penalties'] = pens
    parent_dict = None
    if inp.get('parents') is not None:
        if inp.get('parent_keys') == 'model':
            parent_dict = {models[i]: allm[p] for i, p in enumerate(inp['parents'])}
            if len(parent_dict) != len(models):
                # two candidates that differ only by name compare equal as Model objects, so a dict
                # keyed by Model cannot hold both: such a map can only be given by name
                parent_dict = None
        if parent_dict is None:
            parent_dict = {models[i].name: allm[p].name for i, p in enumerate(inp['parents'])}
        kwargs['parent_dict'] = parent_dict
    if inp.get('bic_type') is not None:
        kwargs['bic_type'] = inp['bic_type']
    models_arg, ress_arg = list(models), list(ress)
    if inp.get('drop_res'):
        ress_arg = ress_arg[:-1]
    snap_parent = dict(parent_dict) if parent_dict is not None else None
    snap_pens = list(pens) if pens is not None else None
    try:
        out = rank_models(base, base_res, models_arg, ress_arg, rank_type=inp['rank_type'], **kwargs)
    except Exception as e:  # noqa
        out = e
    mutated = []
    if len(models_arg) != len(models) or any(a is not b for a, b in zip(models_arg, models)):
        mutated.append('models')
    if not inp.get('drop_res') and (len(ress_arg) != len(ress)
                                    or any(a is not b for a, b in zip(ress_arg, ress))):
        mutated.append('models_res')
    if snap_pens is not None and pens != snap_pens:
        mutated.append('penalties')
    if snap_parent is not None and (list(parent_dict.items()) != list(snap_parent.items())):
        mutated.append('parent_dict')
    return out, mutated


C_R_EXC = 'rank_models raises nothing but the documented ValueError for inconsistent arguments'
C_R_VALERR = 'rank_models raises ValueError when models/models_res/penalties lengths are inconsistent'
C_R_SHAPE = 'the result has exactly one row per model (base and every candidate) and the columns d<criterion>, <criterion>, rank'
C_R_STRICT = 'a model that fails the strictness expression or has a NaN OFV is excluded (rank NaN)'
C_R_CUTOFF = 'a candidate whose improvement over the base (penalties included) does not exceed the cut-off is excluded (rank NaN)'
C_R_LRT = 'a candidate that fails the likelihood ratio test against its parent is excluded (rank NaN)'
C_R_KEEP = 'a model that passes strictness, cut-off and test is ranked'
C_R_VALUE = 'the reported criterion of a ranked model equals OFV/AIC/BIC by definition plus its penalty'
C_R_DELTA = 'the reported delta of a ranked model equals criterion(base) - criterion(model)'
C_R_ORDER = 'ranks order the eligible models by the criterion: better value => smaller rank, equal value <=> shared rank, best rank is 1'
C_R_ROWS = 'rows are sorted by rank with every excluded model below every ranked one, so the first row is the best eligible model'
C_R_FRAME = 'rank_models does not mutate its arguments'
C_R_BICDEF = "rank_type='bic' without a bic_type ranks by the default (mixed) BIC of calculate_bic"
C_R_STRNONE = 'strictness=None (documented as "str or None") applies no strictness criteria'
C_R_WARNNONE = 'results whose optional warnings attribute is unset (None, the ModelfitResults default) are ranked without internal error'
C_R_LRTDF = 'the LRT degrees of freedom are the difference in the number of ESTIMATED parameters (a FIXed parameter adds no degree of freedom)'


def _rank_check(inp):
    """returns list of (clause, detail); empty when all clauses hold"""
    out, mutated = _rank_call(inp)
    fails = []
    special = None
    if inp.get('warnings_none'):
        special = C_R_WARNNONE
    elif 'strictness' in inp and inp['strictness'] is None:
        special = C_R_STRNONE
    elif inp['rank_type'] == 'bic' and inp.get('bic_type') is None:
        special = C_R_BICDEF
    bad_args = inp.get('drop_res') or (inp.get('penalties') is not None
                                       and len(inp['penalties']) != len(inp['cands']) + 1)
    if isinstance(out, Exception):
        if bad_args and isinstance(out, ValueError):
            return []
        return [(special or C_R_EXC, f'raised {type(out).__name__}: {out}')]
    if bad_args:
        return [(C_R_VALERR, 'no exception raised')]
    if mutated:
        fails.append((C_R_FRAME, 'mutated: ' + ', '.join(mutated)))
    ref = _ref_rank(inp)
    rt = inp['rank_type']
    cname = 'ofv' if rt == 'lrt' else rt
    names = [r['name'] for r in ref]
    if list(out.columns) != [f'd{cname}', cname, 'rank'] or sorted(out.index) != sorted(names):
        return fails + [(C_R_SHAPE, f'columns {list(out.columns)} index {list(out.index)}')]
    got = {n: dict(delta=float(d), value=float(v), rank=float(r))
           for n, (d, v, r) in zip(list(out.index), out.values.tolist())}

    def add(clause, detail):
        if special:
            clause = special
        if all(c != clause for c, _ in fails):
            fails.append((clause, detail))

    for r in ref:
        g = got[r['name']]
        ranked = not math.isnan(g['rank'])
        if not r['eligible'] and ranked:
            clause = {'strictness': C_R_STRICT, 'cutoff': C_R_CUTOFF, 'lrt': C_R_LRT}[r['reason']]
            add(clause, f"{r['name']} ({r['variant']}, ofv={r['st']['ofv']}, ms={r['st']['ms']}) fails "
                        f"{r['reason']} but got rank {g['rank']}")
        elif r['eligible'] and not ranked:
            add(C_R_KEEP, f"{r['name']} ({r['variant']}, ofv={r['st']['ofv']}) is eligible "
                          f"(reference value {r['value']}) but got rank NaN")
        elif r['eligible']:
            if not _close(g['value'], r['value']):
                add(C_R_VALUE, f"{r['name']} ({r['variant']}): reported {g['value']}, definition gives {r['value']}")
            if not _close(g['delta'], r['delta']):
                add(C_R_DELTA, f"{r['name']}: reported delta {g['delta']}, definition gives {r['delta']}")
    # ordering among models that both sides regard as ranked
    both = [r for r in ref if r['eligible'] and not math.isnan(got[r['name']]['rank'])]
    for a, b in itertools.combinations(both, 2):
        ra, rb = got[a['name']]['rank'], got[b['name']]['rank']
        if _close(a['value'], b['value']):
            if ra != rb:
                add(C_R_ORDER, f"{a['name']} and {b['name']} tie at {a['value']} but have ranks {ra} and {rb}")
        elif (a['value'] < b['value']) != (ra < rb) or ra == rb:
            add(C_R_ORDER, f"{a['name']}={a['value']} rank {ra}, {b['name']}={b['value']} rank {rb}")
    ranks = [got[n]['rank'] for n in names if not math.isnan(got[n]['rank'])]
    if ranks:
        if min(ranks) != 1 or any(x != int(x) or x < 1 or x > len(ranks) for x in ranks):
            add(C_R_ORDER, f'ranks {ranks} are not positive integers starting at 1')
    # row order
    rowranks = [got[n]['rank'] for n in out.index]
    seen_nan = False
    prev = 0
    for x in rowranks:
        if math.isnan(x):
            seen_nan = True
        else:
            if seen_nan or x < prev:
                add(C_R_ROWS, f'row ranks in order: {rowranks}')
                break
            prev = x
    elig = [r for r in ref if r['eligible']]
    if elig and not fails:
        best = min(r['value'] for r in elig)
        first = out.index[0]
        fr = [r for r in ref if r['name'] == first][0]
        if not (fr['eligible'] and _close(fr['value'], best)):
            add(C_R_ROWS, f'first row {first} is not the best eligible model')
    return fails


def _rank_lrtdf_check(inp):
    """separate clause: df counted on estimated parameters.  base pheno OFV 0, one candidate."""
    out, _ = _rank_call(inp)
    if isinstance(out, Exception):
        return [(C_R_EXC, f'raised {type(out).__name__}: {out}')]
    (variant, sti), = inp['cands']
    df = VARIANT_FACTS[variant]['est'] - VARIANT_FACTS['pheno']['est']
    alpha = inp['cutoff']
    want = _ref_lrt_pass(df, alpha, STATUS[inp['base']]['ofv'], STATUS[sti]['ofv'])
    got = not math.isnan(float(out.loc['c1', 'rank']))
    if want != got:
        return [(C_R_LRTDF, f"candidate {variant} has {VARIANT_FACTS[variant]['est']} estimated parameters "
                            f"(base 6): df={df}, dOFV={STATUS[inp['base']]['ofv'] - STATUS[sti]['ofv']}, "
                            f"alpha={alpha}: test should {'pass' if want else 'fail'} but candidate was "
                            f"{'ranked' if got else 'excluded'}")]
    return []


def _multisets(options, k):
    return list(itertools.combinations_with_replacement(options, k))


def _rank_domain(tier):
    """list of inputs (dicts).  Small sets first."""
    thorough = tier == 'thorough'
    nst = 5                       # statuses 0..4 with the default strictness
    opts = [(v, s) for v in RANK_VARIANTS for s in range(nst)]
    pen_for = lambda k: [1.0, 5.0, -3.0, 0.5, 2.5][:k + 1]  # noqa
    dom = []
    kmax = 4 if thorough else 3

    def sets_upto(k):
        for n in range(0, k + 1):
            for ms in _multisets(opts, n):
                yield [list(c) for c in ms]

    # (a) ofv / aic: all multisets of <= kmax candidates
    for rt in ('ofv', 'aic'):
        for cands in sets_upto(kmax):
            for b in range(nst):
                for cutoff in (None, 3.84):
                    for pens in (None, pen_for(len(cands))):
                        dom.append(dict(base=b, cands=cands, rank_type=rt, cutoff=cutoff, penalties=pens))
    # (b) cheap BIC variants: <= kmax-1 candidates
    for bt in ('fixed', 'random', 'iiv'):
        for cands in sets_upto(kmax - 1):
            for b in range(nst):
                for cutoff in (None, 3.84):
                    for pens in (None, pen_for(len(cands))):
                        dom.append(dict(base=b, cands=cands, rank_type='bic', bic_type=bt, cutoff=cutoff,
                                        penalties=pens))
    # (c) mixed BIC (expensive): <= 1 candidate with all options, 2 candidates with eligible base
    for cands in sets_upto(kmax - 1):
        for b in range(nst):
            for cutoff in (None, 3.84):
                for pens in (None, pen_for(len(cands))):
                    if len(cands) >= 2 and not thorough and (b != 0 or pens is not None):
                        continue
                    dom.append(dict(base=b, cands=cands, rank_type='bic', bic_type='mixed', cutoff=cutoff,
                                    penalties=pens))
    # (d) lrt: ordered tuples of <= 2 candidates with every parent map, p-values None/0.05/(0.05,0.01)
    for n in range(0, 3):
        for cands in itertools.product(opts, repeat=n):
            cands = [list(c) for c in cands]
            pmaps = [None] + [list(p) for p in itertools.product(*[range(0, i + 1) for i in range(n)])]
            if n == 0:
                pmaps = [None]
            for b in range(nst):
                for cutoff in (None, 0.05, [0.05, 0.01]):
                    for pens in (None, pen_for(n)):
                        for pm in pmaps:
                            dom.append(dict(base=b, cands=cands, rank_type='lrt', cutoff=cutoff, penalties=pens,
                                            parents=pm))
    # (e) lrt: multisets of 3 (thorough: 4) candidates, parents among base/earlier candidates
    for n in range(3, kmax + 1):
        for cands in _multisets(opts, n):
            cands = [list(c) for c in cands]
            for pm in itertools.product(*[range(0, i + 1) for i in range(n)]):
                for b in range(nst):
                    dom.append(dict(base=b, cands=cands, rank_type='lrt', cutoff=None, penalties=None,
                                    parents=list(pm)))
    # (f) strictness expressions (incl. '' and the AMD default) with all 6 statuses, <= 2 candidates,
    #     parent maps keyed by Model objects
    opts6 = [(v, s) for v in ('same', 'add1') for s in range(6)]
    for strict in ('', STRICT_AMD):
        for n in range(0, 3):
            for ms in _multisets(opts6, n):
                cands = [list(c) for c in ms]
                for b in range(6):
                    for rt, cutoff in (('ofv', None), ('ofv', 3.84), ('aic', None), ('lrt', 0.05)):
                        d = dict(base=b, cands=cands, rank_type=rt, cutoff=cutoff, penalties=None,
                                 strictness=strict)
                        if rt == 'lrt' and n:
                            d['parents'] = list(range(n))     # chain: c1->base, c2->c1
                            d['parent_keys'] = 'model'
                        dom.append(d)
    # (g) argument validation and the documented-but-special parameter values
    for cands in sets_upto(1):
        for b in (0, 3):
            dom.append(dict(base=b, cands=cands, rank_type='ofv', penalties=[0.0] * (len(cands) + 2)))
            if cands:
                dom.append(dict(base=b, cands=cands, rank_type='ofv', drop_res=True))
            dom.append(dict(base=b, cands=cands, rank_type='bic', bic_type=None))
            dom.append(dict(base=b, cands=cands, rank_type='ofv', strictness=None))
            dom.append(dict(base=b, cands=cands, rank_type='ofv', warnings_none=True))
    return dom


def _rank_lrtdf_domain():
    dom = []
    for v in ('same', 'fix', 'fixth', 'rm', 'add1', 'add2'):
        for b in (0, 1, 2):
            for s in (0, 1, 2):
                for alpha in (0.05, 0.01):
                    dom.append(dict(base=b, cands=[[v, s]], rank_type='lrt', cutoff=alpha, lrtdf=True))
    return dom


# ---- AIC / BIC ------------------------------------------------------------------------------

C_AIC = 'AIC = -2LL + 2 * number of estimated parameters'
C_BIC = {
    'mixed': 'mixed BIC = -2LL + n_random_parameters*log(n_individuals) + n_fixed_parameters*log(n_observations)',
    'fixed': 'fixed BIC = -2LL + n_estimated_parameters*log(n_observations)',
    'random': 'random BIC = -2LL + n_estimated_parameters*log(n_individuals)',
    'iiv': 'iiv BIC = -2LL + n_estimated_iiv_omega_parameters*log(n_individuals)',
}
C_BIC_DEFAULT = 'calculate_bic defaults to the mixed BIC'
C_BIC_ERR = 'calculate_bic raises ValueError for an unknown type'


def _ic_inputs():
    return [dict(variant=v, ll=ll) for v in VARIANT_FACTS for ll in (-10.0, 0.0, 586.27605628520962)]


def _ic_check(inp):
    from pharmpy.modeling import calculate_aic, calculate_bic

    env = _rank_env()
    m = env['variants'][inp['variant']]
    ll = inp['ll']
    fails = []
    try:
        got = calculate_aic(m, ll)
        want = _ref_criterion(inp['variant'], ll, 'aic', None)
        if not _close(got, want):
            fails.append((FID_AIC, C_AIC, f"variant {inp['variant']} -2LL={ll}: got {got}, formula {want}"))
    except Exception as e:
        fails.append((FID_AIC, C_AIC, f"variant {inp['variant']}: raised {type(e).__name__}: {e}"))
    for bt in ('mixed', 'fixed', 'random', 'iiv'):
        try:
            got = calculate_bic(m, ll, type=bt)
            want = _ref_criterion(inp['variant'], ll, 'bic', bt)
            if not _close(got, want):
                f = VARIANT_FACTS[inp['variant']]
                fails.append((FID_BIC, C_BIC[bt], f"variant {inp['variant']} -2LL={ll}: got {got}, formula {want} "
                                                  f"with counts {f}"))
        except Exception as e:
            fails.append((FID_BIC, C_BIC[bt], f"variant {inp['variant']}: raised {type(e).__name__}: {e}"))
    try:
        got = calculate_bic(m, ll)
        want = _ref_criterion(inp['variant'], ll, 'bic', 'mixed')
        if not _close(got, want):
            fails.append((FID_BIC, C_BIC_DEFAULT, f"variant {inp['variant']}: got {got}, mixed formula {want}"))
    except Exception as e:
        fails.append((FID_BIC, C_BIC_DEFAULT, f"raised {type(e).__name__}: {e}"))
    try:
        calculate_bic(m, ll, type='bogus')
        fails.append((FID_BIC, C_BIC_ERR, 'no exception'))
    except ValueError:
        pass
    except Exception as e:
        fails.append((FID_BIC, C_BIC_ERR, f"raised {type(e).__name__}: {e}"))
    return fails


# ---- lrt functions ----------------------------------------------------------------------------

C_L_CUT = 'cutoff = chi2.isf(alpha, df) for df>0, 0 for df==0, -chi2.isf(alpha, -df) for df<0, df = difference in parameter count'
C_L_P = 'p_value = chi2.sf(reduced_ofv - extended_ofv, df) for df >= 1 (NaN OFV gives NaN); never an exception'
C_L_TEST = 'test is True iff parent_ofv - child_ofv >= cutoff (False when an OFV is NaN)'
C_L_B2 = 'best_of_two returns the child iff the test passes, otherwise the parent'
C_L_BM = 'best_of_many returns the lowest-OFV candidate (NaN ignored) iff it passes the test against the parent, otherwise (or if all are NaN / there are none) the parent'
LRT_OFVS = [NAN, -10.0, 0.0, 3.0, 5.0]


def _lrt_inputs(tier):
    vs = ['pheno', 'fix', 'rm', 'add1', 'add2']
    dom = []
    for p in vs:
        for c in vs:
            for alpha in (0.05, 0.01, 0.001):
                dom.append(dict(fn='pair', parent=p, child=c, alpha=alpha))
    nmany = 3 if tier == 'thorough' else 2
    for p in ('pheno', 'add1'):
        for n in range(0, nmany + 1):
            for cs in itertools.product(['rm', 'add1', 'add2'], repeat=n):
                for ofvs in itertools.product(LRT_OFVS, repeat=n):
                    for pofv in (NAN, 0.0):
                        for container in ('list', 'array'):
                            dom.append(dict(fn='many', parent=p, children=list(cs), ofvs=list(ofvs), pofv=pofv,
                                            alpha=0.05, container=container))
    return dom


def _lrt_check(inp):
    import numpy as np
    from scipy.stats import chi2

    from pharmpy.modeling import lrt

    env = _rank_env()
    V = env['variants']
    fails = []
    if inp['fn'] == 'pair':
        p, c, alpha = V[inp['parent']], V[inp['child']], inp['alpha']
        df = VARIANT_FACTS[inp['child']]['npar'] - VARIANT_FACTS[inp['parent']]['npar']
        tag = f"parent {inp['parent']} child {inp['child']} (df={df}) alpha={alpha}"
        want_cut = _ref_chi2_cutoff(df, alpha)
        try:
            got = lrt.cutoff(p, c, alpha)
            if not _close(got, want_cut):
                fails.append((FID_LRT_CUTOFF, C_L_CUT, f'{tag}: got {got}, chi-square gives {want_cut}'))
        except Exception as e:
            fails.append((FID_LRT_CUTOFF, C_L_CUT, f'{tag}: raised {type(e).__name__}: {e}'))
        for po in LRT_OFVS:
            for co in LRT_OFVS:
                t2 = f'{tag} parent_ofv={po} child_ofv={co}'
                try:
                    got = lrt.p_value(p, c, po, co)
                    if df >= 1:
                        want = float(chi2.sf(po - co, df))
                        if not isinstance(got, float) or not _close(got, want, 1e-12, 1e-15):
                            fails.append((FID_LRT_P, C_L_P, f'{t2}: got {got!r}, chi-square gives {want}'))
                    elif not isinstance(got, float) or not (math.isnan(got) or 0 <= got <= 1):
                        fails.append((FID_LRT_P, C_L_P, f'{t2}: got {got!r}'))
                except Exception as e:
                    fails.append((FID_LRT_P, C_L_P, f'{t2}: raised {type(e).__name__}: {e}'))
                want = _ref_lrt_pass(df, alpha, po, co)
                try:
                    got = lrt.test(p, c, po, co, alpha)
                    if bool(got) != want:
                        fails.append((FID_LRT_TEST, C_L_TEST, f'{t2}: got {got}, expected {want}'))
                except Exception as e:
                    fails.append((FID_LRT_TEST, C_L_TEST, f'{t2}: raised {type(e).__name__}: {e}'))
                try:
                    got = lrt.best_of_two(p, c, po, co, alpha)
                    if got is not (c if want else p):
                        fails.append((FID_LRT_B2, C_L_B2, f'{t2}: returned {got.name}, expected '
                                                          f'{(c if want else p).name}'))
                except Exception as e:
                    fails.append((FID_LRT_B2, C_L_B2, f'{t2}: raised {type(e).__name__}: {e}'))
    else:
        p = V[inp['parent']]
        kids = [_named(v, f'k{i}') for i, v in enumerate(inp['children'])]
        ofvs = list(inp['ofvs'])
        arg = np.array(ofvs, dtype=float) if inp['container'] == 'array' else list(ofvs)
        snapshot = list(ofvs)
        best = None
        for i, o in enumerate(ofvs):
            if not math.isnan(o) and (best is None or o < ofvs[best]):
                best = i
        want = p
        if best is not None:
            df = VARIANT_FACTS[inp['children'][best]]['npar'] - VARIANT_FACTS[inp['parent']]['npar']
            if _ref_lrt_pass(df, inp['alpha'], inp['pofv'], ofvs[best]):
                want = kids[best]
        tag = f"parent {inp['parent']} ofv={inp['pofv']} children {inp['children']} ofvs={ofvs} ({inp['container']})"
        try:
            got = lrt.best_of_many(p, kids, inp['pofv'], arg, inp['alpha'])
            if got is not want:
                fails.append((FID_LRT_BM, C_L_BM, f'{tag}: returned {got.name}, expected {want.name}'))
            after = [float(x) for x in arg]
            if not all(_close(a, b) for a, b in zip(after, snapshot)):
                fails.append((FID_LRT_BM, C_L_BM, f'{tag}: mutated its OFV argument'))
        except Exception as e:
            fails.append((FID_LRT_BM, C_L_BM, f'{tag}: raised {type(e).__name__}: {e}'))
    return fails


# ---- is_strictness_fulfilled ----------------------------------------------------------------------

THETAS = ['POP_CL', 'POP_VC', 'COVAPGR']
OMEGAS = ['IIV_CL', 'IIV_VC']
SIGMAS = ['SIGMA']
ALLPAR = THETAS + OMEGAS + SIGMAS
GROUPS = {'theta': THETAS, 'omega': OMEGAS, 'sigma': SIGMAS}
# second element of each group is the one that gets the deviating value (tests ALL/ANY semantics)
GROUP_PICK = {'theta': 'POP_VC', 'omega': 'IIV_VC', 'sigma': 'SIGMA'}
# bounds of the pheno parameters: all lower 0 except COVAPGR lower -0.99; no upper bounds
FAR_EST = {'POP_CL': 0.0047, 'POP_VC': 1.01, 'COVAPGR': 0.1, 'IIV_CL': 0.03, 'IIV_VC': 0.031, 'SIGMA': 0.013}
NEAR_EST = {'theta0': ('POP_CL', 0.0005), 'thetab': ('COVAPGR', -0.9912), 'omega': ('IIV_VC', -0.0004),
            'sigma': ('SIGMA', 0.00099)}
BOOL_ATOMS = ['minimization_successful', 'rounding_errors', 'maxevals_exceeded', 'final_zero_gradient',
              'final_zero_gradient_theta', 'final_zero_gradient_omega', 'final_zero_gradient_sigma',
              'estimate_near_boundary', 'estimate_near_boundary_theta', 'estimate_near_boundary_omega',
              'estimate_near_boundary_sigma']
NUM_ATOMS = ['sigdigs', 'rse', 'rse_theta', 'rse_omega', 'rse_sigma', 'condition_number']
OPS = ['<', '<=', '==', '>', '>=', '!=']
C_S_ATOM = 'strictness atom {} has the documented meaning'
C_S_NUM = 'numeric strictness atom {} compared (<, <=, ==, >, >=) with a number holds iff the comparison holds for every value it stands for'
C_S_NE = "'!=' on a numeric strictness criterion holds iff every value it stands for differs from the number (same quantifier as the other operators)"
C_S_LOGIC = 'and / or / not / parentheses combine strictness criteria as logical operators'
C_S_NANOFV = 'strictness is never fulfilled when the OFV is NaN, and an empty expression accepts any finite OFV'
C_S_ERR = 'is_strictness_fulfilled raises only ValueError (unknown criterion, forbidden operator, missing data)'


def _sr_spec_default():
    return dict(ofv=-10.0, ms=True, tc=None, sd=3.0, rse={g: 0.1 for g in GROUPS}, grad={g: 'ok' for g in GROUPS},
                near=[], cond=10.0, order='model')


def _sr_build(spec):
    """synthetic ModelfitResults from a spec; every field is consistent (warnings follow gradients)"""
    import numpy as np
    import pandas as pd
    from pharmpy.workflows.results import ModelfitResults

    names = list(ALLPAR)
    if spec.get('order') == 'reversed':
        names = names[::-1]
    rse = {}
    grad = {}
    for g, members in GROUPS.items():
        for n in members:
            rse[n] = 0.1
            grad[n] = 0.25 if n != 'POP_CL' else -1.5
        rse[GROUP_PICK[g]] = spec['rse'][g]
        if spec['grad'][g] == 'zero':
            grad[GROUP_PICK[g]] = 0.0
        elif spec['grad'][g] == 'nan':
            grad[GROUP_PICK[g]] = NAN
    est = dict(FAR_EST)
    for key in spec['near']:
        n, val = NEAR_EST[key]
        est[n] = val
    warn = []
    if any(v != 'ok' for v in spec['grad'].values()):
        warn.append('final_zero_gradient')
    if spec['near']:
        warn.append('estimate_near_boundary')
    # covariance matrix with the requested 2-norm condition number (diagonal, parameter order)
    d = np.ones(len(names))
    d[0] = spec['cond']
    cov = pd.DataFrame(np.diag(d) * 1e-4, index=names, columns=names)
    return ModelfitResults(
        ofv=spec['ofv'], minimization_successful=spec['ms'], termination_cause=spec['tc'],
        significant_digits=spec['sd'], warnings=warn,
        parameter_estimates=pd.Series({n: est[n] for n in names}),
        relative_standard_errors=pd.Series({n: rse[n] for n in names}),
        gradients=pd.Series({n: grad[n] for n in names}),
        covariance_matrix=cov)


def _two_sigdig(x):
    return float('%.1e' % x)


def _ref_near(name, value):
    lower = -0.99 if name == 'COVAPGR' else 0.0
    if lower == 0:
        return abs(value) < 0.001
    return _two_sigdig(value) == _two_sigdig(lower)


def _sr_atom_values(spec):
    """reference meaning of every atom: bool for boolean atoms, list of numbers for numeric atoms"""
    est = dict(FAR_EST)
    for key in spec['near']:
        n, val = NEAR_EST[key]
        est[n] = val
    rse = {}
    for g, members in GROUPS.items():
        for n in members:
            rse[n] = 0.1
        rse[GROUP_PICK[g]] = spec['rse'][g]
    vals = {
        'minimization_successful': bool(spec['ms']),
        'rounding_errors': spec['tc'] == 'rounding_errors',
        'maxevals_exceeded': spec['tc'] == 'maxevals_exceeded',
        'final_zero_gradient': any(v != 'ok' for v in spec['grad'].values()),
        'estimate_near_boundary': any(_ref_near(n, est[n]) for n in ALLPAR),
        'sigdigs': [spec['sd']],
        'rse': [rse[n] for n in ALLPAR],
        'condition_number': [spec['cond']],
    }
    for g, members in GROUPS.items():
        vals[f'final_zero_gradient_{g}'] = spec['grad'][g] != 'ok'
        vals[f'estimate_near_boundary_{g}'] = any(_ref_near(n, est[n]) for n in members)
        vals[f'rse_{g}'] = [rse[n] for n in members]
    return vals


def _cmp(a, op, b):
    return {'<': a < b, '<=': a <= b, '==': a == b, '>': a > b, '>=': a >= b, '!=': a != b}[op]


def _strict_inputs(tier):
    dom = []
    base = _sr_spec_default()

    def spec(**kw):
        s = json.loads(json.dumps(_js(base)))
        s = _unjs(s)
        s.update(kw)
        return s

    # boolean atoms over their relevant fields
    for ms in (True, False):
        for tc in (None, 'rounding_errors', 'maxevals_exceeded'):
            for a in ('minimization_successful', 'rounding_errors', 'maxevals_exceeded'):
                dom.append(dict(kind='atom', atom=a, spec=spec(ms=ms, tc=tc)))
    for gt, go, gs in itertools.product(('ok', 'zero', 'nan'), repeat=3):
        for order in ('model', 'reversed'):
            for a in ('final_zero_gradient', 'final_zero_gradient_theta', 'final_zero_gradient_omega',
                      'final_zero_gradient_sigma'):
                dom.append(dict(kind='atom', atom=a, spec=spec(grad=dict(theta=gt, omega=go, sigma=gs), order=order)))
    for n in range(0, 3):
        for near in itertools.combinations(sorted(NEAR_EST), n):
            for order in ('model', 'reversed'):
                for a in ('estimate_near_boundary', 'estimate_near_boundary_theta', 'estimate_near_boundary_omega',
                          'estimate_near_boundary_sigma'):
                    dom.append(dict(kind='atom', atom=a, spec=spec(near=list(near), order=order)))
    # numeric atoms: every operator, thresholds below / at / above the values
    for sd in (NAN, 0.05, 3.0):
        for op in OPS:
            for thr in (0.05, 0.1, 3.0, 4):
                dom.append(dict(kind='num', atom='sigdigs', op=op, thr=thr, spec=spec(sd=sd)))
    for rt, ro, rs in itertools.product((0.1, 0.5), repeat=3):
        for order in ('model', 'reversed'):
            for a in ('rse', 'rse_theta', 'rse_omega', 'rse_sigma'):
                for op in OPS:
                    for thr in (0.1, 0.4, 0.5):
                        dom.append(dict(kind='num', atom=a, op=op, thr=thr,
                                        spec=spec(rse=dict(theta=rt, omega=ro, sigma=rs), order=order)))
    for cond in (10.0, 2000.0):
        for op in OPS:
            for thr in (10, 1000, 2000.5):
                dom.append(dict(kind='num', atom='condition_number', op=op, thr=thr, spec=spec(cond=cond)))
    # logic: templates over three boolean atoms and one numeric atom
    templates = ['{A} and {B}', '{A} or {B}', 'not {A}', 'not {A} and {B}', '({A} or {B}) and {N} < 1',
                 '{A} or ({B} and {N} >= 0.1)', '{A} and {N} < 0.4', 'not ({A} or {B})', '{A} or {B} and {C}',
                 '({A} or {B}) and {C}']
    for ms in (True, False):
        for tc in (None, 'rounding_errors', 'maxevals_exceeded'):
            for sd in (0.05, 3.0):
                for t in templates:
                    dom.append(dict(kind='logic', template=t, spec=spec(ms=ms, tc=tc, sd=sd)))
    # NaN OFV / empty expression
    for ofv in (NAN, -10.0, 0.0):
        for ms in (True, False):
            for e in ('', 'minimization_successful', 'not minimization_successful', 'sigdigs >= 0'):
                dom.append(dict(kind='nanofv', expr=e, spec=spec(ofv=ofv, ms=ms)))
    # errors
    for e in ('bogus_criterion', 'minimization_successful + 1 > 0', 'rse < 0.1; rse', 'minimisation_successful',
              'rse[0] < 1', 'sigdigs >= 3 & minimization_successful'):
        dom.append(dict(kind='error', expr=e, spec=spec()))
    return dom


def _strict_check(inp):
    from pharmpy.tools.run import is_strictness_fulfilled

    env = _rank_env()
    model = env['variants']['pheno']
    spec = inp['spec']
    res = _sr_build(spec)
    vals = _sr_atom_values(spec)
    fails = []

    def call(expr):
        try:
            return is_strictness_fulfilled(model, res, expr)
        except Exception as e:  # noqa
            return e

    if inp['kind'] == 'atom':
        got = call(inp['atom'])
        want = vals[inp['atom']]
        clause = C_S_ATOM.format(inp['atom'])
        if isinstance(got, Exception):
            fails.append((clause, f"'{inp['atom']}' raised {type(got).__name__}: {got}"))
        elif bool(got) != want:
            fails.append((clause, f"'{inp['atom']}' evaluated to {got}, documented meaning gives {want}"))
        got2 = call('not ' + inp['atom'])
        if not isinstance(got2, Exception) and not isinstance(got, Exception) and bool(got2) == bool(got):
            fails.append((C_S_LOGIC, f"'not {inp['atom']}' evaluated to {got2} although the atom is {got}"))
    elif inp['kind'] == 'num':
        expr = f"{inp['atom']} {inp['op']} {inp['thr']}"
        got = call(expr)
        want = all(_cmp(x, inp['op'], inp['thr']) for x in vals[inp['atom']])
        clause = C_S_NE if inp['op'] == '!=' else C_S_NUM.format(inp['atom'])
        if isinstance(got, Exception):
            fails.append((clause, f"'{expr}' raised {type(got).__name__}: {got}"))
        elif bool(got) != want:
            fails.append((clause, f"'{expr}' evaluated to {got} for values {vals[inp['atom']]}, expected {want}"))
    elif inp['kind'] == 'logic':
        A, B, C = vals['minimization_successful'], vals['rounding_errors'], vals['maxevals_exceeded']
        N = spec['sd']
        t = inp['template']
        expr = t.format(A='minimization_successful', B='rounding_errors', C='maxevals_exceeded', N='sigdigs')
        want = {
            '{A} and {B}': A and B, '{A} or {B}': A or B, 'not {A}': not A, 'not {A} and {B}': (not A) and B,
            '({A} or {B}) and {N} < 1': (A or B) and N < 1, '{A} or ({B} and {N} >= 0.1)': A or (B and N >= 0.1),
            '{A} and {N} < 0.4': A and N < 0.4, 'not ({A} or {B})': not (A or B),
            '{A} or {B} and {C}': A or (B and C), '({A} or {B}) and {C}': (A or B) and C}[t]
        got = call(expr)
        if isinstance(got, Exception):
            fails.append((C_S_LOGIC, f"'{expr}' raised {type(got).__name__}: {got}"))
        elif bool(got) != bool(want):
            fails.append((C_S_LOGIC, f"'{expr}' evaluated to {got}, expected {want}"))
    elif inp['kind'] == 'nanofv':
        got = call(inp['expr'])
        if math.isnan(spec['ofv']):
            want = False
        elif inp['expr'] == '':
            want = True
        elif inp['expr'] == 'minimization_successful':
            want = spec['ms']
        elif inp['expr'] == 'not minimization_successful':
            want = not spec['ms']
        else:
            want = True
        if isinstance(got, Exception):
            fails.append((C_S_NANOFV, f"'{inp['expr']}' with ofv={spec['ofv']} raised {type(got).__name__}: {got}"))
        elif bool(got) != want:
            fails.append((C_S_NANOFV, f"'{inp['expr']}' with ofv={spec['ofv']} ms={spec['ms']} gave {got}, expected {want}"))
    else:
        got = call(inp['expr'])
        if not isinstance(got, ValueError):
            fails.append((C_S_ERR, f"'{inp['expr']}' gave {got!r} instead of ValueError"))
    return [(FID_STRICT, c, d + ' | results spec ' + json.dumps(_js(spec))) for c, d in fails]


def _misc_worker(task):
    """AIC/BIC, lrt and strictness cases: task = (kind, start, inputs)"""
    kind, start, inputs = task
    _rank_env()
    fn = {'ic': _ic_check, 'lrt': _lrt_check, 'strict': _strict_check}[kind]
    col = _Collector()
    for off, inp in enumerate(inputs):
        col.cases += 1
        col.nontrivial += 1
        try:
            fails = fn(inp)
        except Exception as e:
            fails = [('b_rank.py', 'checker error', f'{type(e).__name__}: {e}')]
        if len(col.samples) < 1 and off == 3:
            col.samples.append(kind + ':' + json.dumps(_js(inp))[:160])
        for fid, clause, detail in fails:
            col.fail((0, start + off), fid, clause, detail, kind, inp, 'bounded_rank_models_replay')
    return col.export()


def bounded_rank_models(tier):
    _rank_env()   # build before forking so that the workers share the models
    col = _Collector()
    dom = _rank_domain(tier) + _rank_lrtdf_domain()
    # expensive (mixed BIC) cases are spread evenly: interleave the chunks
    n = NPROC * 8
    idx = list(range(len(dom)))
    tasks = [(None, [(i, dom[i]) for i in idx[c::n]]) for c in range(n) if idx[c::n]]
    for part in _pool_map(_rank_worker_indexed, tasks):
        col.merge(part)
    misc = []
    for kind, inputs in (('ic', _ic_inputs()), ('lrt', _lrt_inputs(tier)), ('strict', _strict_inputs(tier))):
        pos = 0
        for ch in _chunks(inputs, NPROC if kind != 'ic' else 4):
            misc.append((kind, pos, ch))
            pos += len(ch)
    for part in _pool_map(_misc_worker, misc):
        col.merge(part)
    kmax = 4 if tier == 'thorough' else 3
    bound = (f'rank_models: base (pheno, 5 result statuses: OFV -10/0/5/NaN ok, -10 failed) + all multisets of <= {kmax} '
             f'candidates from 5 pheno variants (parameter-count differences -1,0,0,+1,+2) x 5 statuses for ofv/aic, '
             f'<= {kmax - 1} for bic fixed/random/iiv/mixed, cut-off None/3.84, penalties None/list; lrt: all ordered '
             f'<= 2 candidates x every parent map x p None/0.05/(0.05,0.01), multisets of 3..{kmax} candidates x every parent-among-earlier map (default p-values); '
             f'strictness ""/AMD default with 6 statuses; calculate_aic/bic on 10 variants x 3 OFVs; lrt functions on all '
             f'25 parent/child pairs x 3 alphas x 25 OFV pairs, best_of_many <= {3 if tier == "thorough" else 2} children '
             f'x 5 OFVs each; is_strictness_fulfilled: all 17 documented atoms x 6 operators on synthetic results grids')
    return col.result(bound)


def _rank_worker_indexed(task):
    _, items = task
    _rank_env()
    col = _Collector()
    for n, (i, inp) in enumerate(items):
        col.cases += 1
        try:
            fails = _rank_lrtdf_check(inp) if inp.get('lrtdf') else _rank_check(inp)
        except Exception as e:  # checker error: report, never hide
            fails = [('checker error', f'{type(e).__name__}: {e}')]
        if len(inp['cands']) >= 1:
            col.nontrivial += 1
        if len(col.samples) < 1 and n == 11:
            col.samples.append('rank:' + json.dumps(_js(inp))[:200])
        for clause, detail in fails:
            col.fail((len(inp['cands']), i), FID_RANK, clause, detail + ' | input ' + json.dumps(_js(inp)),
                     'rank', inp, 'bounded_rank_models_replay')
    return col.export()


def bounded_rank_models_replay(rp):
    case = rp['case']
    inp = _unjs(case['input'])
    clause = case['clause']
    kind = case['kind']
    _rank_env()
    if kind == 'rank':
        fails = _rank_lrtdf_check(inp) if inp.get('lrtdf') else _rank_check(inp)
        fails = [(c, d) for c, d in fails]
    else:
        fn = {'ic': _ic_check, 'lrt': _lrt_check, 'strict': _strict_check}[kind]
        fails = [(c, d) for _, c, d in fn(inp)]
    for c, d in fails:
        if c == clause:
            return (False, d)
    return (True, 'ok')
