"""Bounded contract checks for C19 (ranking / criteria / tool statistics) and C20 (NONMEM tables).

Pure Python, runs under /venv/bin/python (cwd=/verif, PYTHONPATH=/verif).  No z3, no randomness.
Every check evaluates a contract taken from the property statement / documentation on the REAL
pharmpy function over an exhaustively enumerated finite domain and compares with an independent
reference written in this file.

    bounded_rank_models(tier)      rank_models, calculate_aic/bic, lrt.*, is_strictness_fulfilled
    bounded_tool_statistics(tier)  bootstrap / cdd / shrinkage / delta method statistics
    bounded_nonmem_tables(tier)    NONMEM ext/phi/cov/$TABLE parsing, matrix relations, JSON round trip
"""
import itertools
import json
import math
import multiprocessing
import os
import warnings

warnings.filterwarnings('ignore')

NAN = float('nan')
NPROC = 16


# ------------------------------------------------------------------------------------------------
# generic helpers
# ------------------------------------------------------------------------------------------------

def _isnan(x):
    try:
        return x is None or math.isnan(float(x))
    except (TypeError, ValueError):
        return False


def _close(a, b, rtol=1e-9, atol=1e-9):
    """numeric closeness; NaN equals NaN"""
    if _isnan(a) or _isnan(b):
        return _isnan(a) and _isnan(b)
    a, b = float(a), float(b)
    if math.isinf(a) or math.isinf(b):
        return a == b
    return abs(a - b) <= atol + rtol * max(abs(a), abs(b))


def _js(v):
    """make a value json-serialisable (NaN -> 'nan' strings are decoded by _unjs)"""
    if isinstance(v, float):
        if math.isnan(v):
            return 'nan'
        return v
    if isinstance(v, (list, tuple)):
        return [_js(x) for x in v]
    if isinstance(v, dict):
        return {str(k): _js(x) for k, x in v.items()}
    return v


def _unjs(v):
    if v == 'nan':
        return NAN
    if isinstance(v, list):
        return [_unjs(x) for x in v]
    if isinstance(v, dict):
        return {k: _unjs(x) for k, x in v.items()}
    return v


ALSO_CAP = 300   # length of the `also` lists (every failing case of a clause, tools/BOUNDED_GUIDE.md)


class _Collector:
    """keeps, per (fid, clause), the smallest failing input (smallest = lowest enumeration order) and, as
    `also`, every failing input in enumeration order (order, then kind), capped at ALSO_CAP"""

    def __init__(self):
        self.cases = 0
        self.nontrivial = 0
        self.fails = {}
        self.also = {}
        self.samples = []

    def fail(self, order, fid, clause, detail, kind, inp, replay_fn):
        key = (fid, clause)
        cur = self.fails.get(key)
        case = {'kind': kind, 'clause': clause, 'input': _js(inp)}
        if cur is None or order < cur[0]:
            self.fails[key] = (order, {
                'fid': fid, 'clause': clause, 'detail': str(detail)[:600],
                'case': case,
                'replay_fn': replay_fn})
        self.also.setdefault(key, {}).setdefault((order, kind), case)
        self._trim(key, 4 * ALSO_CAP)

    def _trim(self, key, limit):
        d = self.also[key]
        if len(d) > limit:
            self.also[key] = {k: d[k] for k in sorted(d)[:ALSO_CAP]}

    def merge(self, other):
        self.cases += other['cases']
        self.nontrivial += other['nontrivial']
        for key, (order, f) in other['fails'].items():
            cur = self.fails.get(key)
            if cur is None or order < cur[0]:
                self.fails[key] = (order, f)
        for key, d in other['also'].items():
            mine = self.also.setdefault(key, {})
            for k, case in d.items():
                mine.setdefault(k, case)
            self._trim(key, 4 * ALSO_CAP)
        for s in other['samples']:
            if len(self.samples) < 3 and all(x.split(':')[0] != s.split(':')[0] for x in self.samples):
                self.samples.append(s)

    def export(self):
        for key in list(self.also):
            self._trim(key, ALSO_CAP)
        return {'cases': self.cases, 'nontrivial': self.nontrivial, 'fails': self.fails,
                'samples': self.samples, 'also': self.also}

    def result(self, bound):
        fails = []
        for key, (o, f) in sorted(self.fails.items(), key=lambda kv: (kv[1][0], kv[0])):
            d = self.also.get(key, {})
            fails.append(dict(f, also=[d[k] for k in sorted(d)[:ALSO_CAP]]))
        return {'cases': self.cases, 'nontrivial': self.nontrivial, 'bound': bound,
                'samples': self.samples[:3], 'fails': fails}


def _pool_map(fn, tasks, init=None):
    if len(tasks) <= 1:
        if init:
            init()
        return [fn(t) for t in tasks]
    ctx = multiprocessing.get_context('fork')
    with ctx.Pool(min(NPROC, len(tasks)), initializer=init) as pool:
        return pool.map(fn, tasks, chunksize=1)


def _chunks(seq, n):
    seq = list(seq)
    size = max(1, (len(seq) + n - 1) // n)
    return [seq[i:i + size] for i in range(0, len(seq), size)]


# ================================================================================================
# (1) rank_models, information criteria, LRT, strictness
# ================================================================================================

FID_RANK = 'src/pharmpy/tools/run.py:rank_models'
FID_STRICT = 'src/pharmpy/tools/run.py:is_strictness_fulfilled'
FID_AIC = 'src/pharmpy/modeling/results.py:calculate_aic'
FID_BIC = 'src/pharmpy/modeling/results.py:calculate_bic'
FID_LRT_CUTOFF = 'src/pharmpy/modeling/lrt.py:cutoff'
FID_LRT_P = 'src/pharmpy/modeling/lrt.py:p_value'
FID_LRT_TEST = 'src/pharmpy/modeling/lrt.py:test'
FID_LRT_B2 = 'src/pharmpy/modeling/lrt.py:best_of_two'
FID_LRT_BM = 'src/pharmpy/modeling/lrt.py:best_of_many'

# Hand-derived facts about the variants of the pheno example model.
#   CL = POP_CL*WGT*exp(ETA_CL); VC = POP_VC*WGT*(1+COVAPGR [APGR<5])*exp(ETA_VC); S1 = VC [*exp(ETA_S1)]
#   Y = F + F*EPS_1,  ETA_CL~N(0,IIV_CL), ETA_VC~N(0,IIV_VC), EPS_1~N(0,SIGMA)
# npar   : number of population parameters of the model (estimated or not)
# est    : number of estimated (non-fixed) population parameters
# iivom  : number of estimated IIV omega parameters
# rand   : estimated parameters of the "random" kind for the mixed BIC (omegas and the thetas of
#          individual parameters that carry a random effect); fixd: the remaining estimated ones
VARIANT_FACTS = {
    'pheno': dict(npar=6, est=6, iivom=2, rand=5, fixd=1),
    'same': dict(npar=6, est=6, iivom=2, rand=5, fixd=1),
    'fix': dict(npar=6, est=5, iivom=1, rand=4, fixd=1),      # IIV_CL FIX at its (non-zero) value
    'fix0': dict(npar=6, est=5, iivom=1, rand=3, fixd=2),     # IIV_CL 0 FIX: ETA_CL is not random
    'fixth': dict(npar=6, est=5, iivom=2, rand=4, fixd=1),    # POP_CL FIX
    'fixsig': dict(npar=6, est=5, iivom=2, rand=5, fixd=0),   # SIGMA FIX
    'rm': dict(npar=5, est=5, iivom=1, rand=3, fixd=2),       # ETA_CL removed
    'add1': dict(npar=7, est=7, iivom=3, rand=6, fixd=1),     # + ETA_S1
    'add2': dict(npar=8, est=8, iivom=4, rand=7, fixd=1),     # + ETA_S1, + cov(ETA_CL, ETA_VC)
    'sub': dict(npar=6, est=6, iivom=2, rand=5, fixd=1),      # pheno on the first 10 individuals
}
RANK_VARIANTS = ['same', 'fix', 'rm', 'add1', 'add2']

# result "statuses" of a model: objective value, minimisation flag, termination cause, sig. digits
STATUS = [
    dict(ofv=-10.0, ms=True, tc=None, sd=3.0),
    dict(ofv=0.0, ms=True, tc=None, sd=3.0),
    dict(ofv=5.0, ms=True, tc=None, sd=3.0),
    dict(ofv=NAN, ms=True, tc=None, sd=3.0),
    dict(ofv=-10.0, ms=False, tc='rounding_errors', sd=3.0),
    dict(ofv=0.0, ms=False, tc=None, sd=NAN),
]
STRICT_DEFAULT = 'minimization_successful'
STRICT_AMD = 'minimization_successful or (rounding_errors and sigdigs >= 0.1)'

_RK = {}


def _rank_env():
    """build (once per process) the model variants"""
    if _RK:
        return _RK
    from pharmpy.modeling import (
        add_iiv,
        create_joint_distribution,
        fix_parameters,
        fix_parameters_to,
        load_example_model,
        remove_iiv,
    )

    m = load_example_model('pheno')
    v = {'pheno': m}
    v['same'] = m.replace(name='same')
    v['fix'] = fix_parameters(m, ['IIV_CL'])
    v['fix0'] = fix_parameters_to(m, {'IIV_CL': 0})
    v['fixth'] = fix_parameters(m, ['POP_CL'])
    v['fixsig'] = fix_parameters(m, ['SIGMA'])
    v['rm'] = remove_iiv(m, ['ETA_CL'])
    v['add1'] = add_iiv(m, ['S1'], 'exp')
    v['add2'] = create_joint_distribution(v['add1'], ['ETA_CL', 'ETA_VC'])
    ds = m.dataset
    v['sub'] = m.replace(dataset=ds[ds['ID'] <= 10].reset_index(drop=True))
    for k in list(v):
        v[k] = v[k].replace(name=k)
    # sanity of the hand-derived facts (reference self check, from the parameter table only)
    for k, mod in v.items():
        facts = VARIANT_FACTS[k]
        pars = list(mod.parameters)
        assert len(pars) == facts['npar'], (k, 'npar')
        assert sum(1 for p in pars if not p.fix) == facts['est'], (k, 'est')
        assert facts['rand'] + facts['fixd'] == facts['est'], k
    _RK['variants'] = v
    _RK['named'] = {}
    # data facts counted directly on the data frame: individuals and observation records
    for k, mod in v.items():
        d = mod.dataset
        VARIANT_FACTS[k]['nids'] = len(set(d['ID'].tolist()))
        VARIANT_FACTS[k]['nobs'] = sum(1 for a in d['AMT'].tolist() if a == 0)
    assert VARIANT_FACTS['pheno']['nids'] == 59 and VARIANT_FACTS['pheno']['nobs'] == 155
    assert VARIANT_FACTS['sub']['nids'] == 10
    return _RK


def _named(variant, name):
    env = _rank_env()
    key = (variant, name)
    if key not in env['named']:
        env['named'][key] = env['variants'][variant].replace(name=name)
    return env['named'][key]


def _mk_res(st, warnings_none=False):
    import pandas as pd
    from pharmpy.workflows.results import ModelfitResults

    env = _rank_env()
    pe = env.get('pe')
    if pe is None:
        pe = env['pe'] = pd.Series({p.name: p.init for p in env['variants']['pheno'].parameters})
    return ModelfitResults(
        ofv=st['ofv'], minimization_successful=st['ms'], termination_cause=st['tc'],
        significant_digits=st['sd'], warnings=None if warnings_none else [],
        parameter_estimates=pe)


# ---- reference --------------------------------------------------------------------------------

def _ref_strict(st, strictness):
    if math.isnan(st['ofv']):
        return False
    if strictness is None or strictness == '':
        return True
    if strictness == STRICT_DEFAULT:
        return bool(st['ms'])
    if strictness == STRICT_AMD:
        return bool(st['ms'] or (st['tc'] == 'rounding_errors' and st['sd'] >= 0.1))
    raise AssertionError(strictness)


def _ref_criterion(variant, ofv, rank_type, bic_type):
    f = VARIANT_FACTS[variant]
    if rank_type in ('ofv', 'lrt'):
        return ofv
    if rank_type == 'aic':
        return ofv + 2 * f['est']
    assert rank_type == 'bic'
    if bic_type in (None, 'mixed'):
        return ofv + f['rand'] * math.log(f['nids']) + f['fixd'] * math.log(f['nobs'])
    if bic_type == 'fixed':
        return ofv + f['est'] * math.log(f['nobs'])
    if bic_type == 'random':
        return ofv + f['est'] * math.log(f['nids'])
    if bic_type == 'iiv':
        return ofv + f['iivom'] * math.log(f['nids'])
    raise AssertionError(bic_type)


def _ref_chi2_cutoff(df, alpha):
    """OFV drop required to accept a child with `df` more parameters than its parent at level alpha.
    df > 0: chi-square quantile; df == 0: 0; df < 0 (parameters removed): the child is kept unless
    the OFV increases by more than the quantile for |df|."""
    from scipy.stats import chi2

    if df == 0:
        return 0.0
    if df > 0:
        return float(chi2.isf(alpha, df))
    return -float(chi2.isf(alpha, -df))


def _ref_lrt_pass(df, alpha, parent_ofv, child_ofv):
    dofv = parent_ofv - child_ofv
    if math.isnan(dofv):
        return False
    return dofv >= _ref_chi2_cutoff(df, alpha)


def _ref_rank(inp):
    """returns per model (base first): dict(name, eligible, reason, value, delta) and rank relation"""
    rank_type, bic_type = inp['rank_type'], inp.get('bic_type')
    strictness = inp.get('strictness', STRICT_DEFAULT)
    cutoff = inp.get('cutoff')
    pens = inp.get('penalties')
    specs = [('pheno', inp['base'])] + [tuple(c) for c in inp['cands']]
    names = ['base'] + [f'c{i + 1}' for i in range(len(inp['cands']))]
    rows = []
    for i, (variant, sti) in enumerate(specs):
        st = STATUS[sti]
        ok = _ref_strict(st, strictness)
        val = _ref_criterion(variant, st['ofv'], rank_type, bic_type) + (pens[i] if pens else 0.0)
        rows.append(dict(name=names[i], variant=variant, st=st, strict=ok, value=val, reason=None))
    base = rows[0]
    parents = inp.get('parents')
    for i, r in enumerate(rows):
        if not r['strict']:
            r['reason'] = 'strictness'
            continue
        if i == 0:
            continue
        if rank_type == 'lrt':
            p = rows[parents[i - 1]] if parents else base
            df = VARIANT_FACTS[r['variant']]['npar'] - VARIANT_FACTS[p['variant']]['npar']
            if cutoff is None:
                alpha = 0.05 if df >= 0 else 0.01
            elif isinstance(cutoff, (list, tuple)):
                alpha = cutoff[0] if df >= 0 else cutoff[1]
            else:
                alpha = cutoff
            if not _ref_lrt_pass(df, alpha, p['st']['ofv'], r['st']['ofv']):
                r['reason'] = 'lrt'
        elif cutoff is not None and base['strict']:
            if not (base['value'] - r['value'] > cutoff):
                r['reason'] = 'cutoff'
    for r in rows:
        r['eligible'] = r['reason'] is None
        r['delta'] = (base['value'] - r['value']) if base['strict'] else NAN
    return rows


def _rank_call(inp):
    """build the real inputs and call rank_models; returns (df or exception, inputs snapshot check)"""
    from pharmpy.tools.run import rank_models

    wn = inp.get('warnings_none', False)
    base = _named('pheno', 'base')
    base_res = _mk_res(STATUS[inp['base']], wn)
    models = [_named(v, f'c{i + 1}') for i, (v, s) in enumerate(inp['cands'])]
    ress = [_mk_res(STATUS[s], wn) for (v, s) in inp['cands']]
    allm = [base] + models
    kwargs = {}
    if 'strictness' in inp:
        kwargs['strictness'] = inp['strictness']
    if inp.get('cutoff') is not None:
        c = inp['cutoff']
        kwargs['cutoff'] = tuple(c) if isinstance(c, (list, tuple)) else c
    pens = inp.get('penalties')
    if pens is not None:
        pens = list(pens)
        kwargs['penalties'] = pens
    parent_dict = None
    if inp.get('parents') is not None:
        if inp.get('parent_keys') == 'model':
            parent_dict = {models[i]: allm[p] for i, p in enumerate(inp['parents'])}
            if len(parent_dict) != len(models):
                # two candidates that differ only by name compare equal as Model objects, so a dict
                # keyed by Model cannot hold both: such a map can only be given by name
                parent_dict = None
        if parent_dict is None:
            parent_dict = {models[i].name: allm[p].name for i, p in enumerate(inp['parents'])}
        kwargs['parent_dict'] = parent_dict
    if inp.get('bic_type') is not None:
        kwargs['bic_type'] = inp['bic_type']
    models_arg, ress_arg = list(models), list(ress)
    if inp.get('drop_res'):
        ress_arg = ress_arg[:-1]
    snap_parent = dict(parent_dict) if parent_dict is not None else None
    snap_pens = list(pens) if pens is not None else None
    try:
        out = rank_models(base, base_res, models_arg, ress_arg, rank_type=inp['rank_type'], **kwargs)
    except Exception as e:  # noqa
        out = e
    mutated = []
    if len(models_arg) != len(models) or any(a is not b for a, b in zip(models_arg, models)):
        mutated.append('models')
    if not inp.get('drop_res') and (len(ress_arg) != len(ress)
                                    or any(a is not b for a, b in zip(ress_arg, ress))):
        mutated.append('models_res')
    if snap_pens is not None and pens != snap_pens:
        mutated.append('penalties')
    if snap_parent is not None and (list(parent_dict.items()) != list(snap_parent.items())):
        mutated.append('parent_dict')
    return out, mutated


C_R_EXC = 'rank_models raises nothing but the documented ValueError for inconsistent arguments'
C_R_VALERR = 'rank_models raises ValueError when models/models_res/penalties lengths are inconsistent'
C_R_SHAPE = 'the result has exactly one row per model (base and every candidate) and the columns d<criterion>, <criterion>, rank'
C_R_STRICT = 'a model that fails the strictness expression or has a NaN OFV is excluded (rank NaN)'
C_R_CUTOFF = 'a candidate whose improvement over the base (penalties included) does not exceed the cut-off is excluded (rank NaN)'
C_R_LRT = 'a candidate that fails the likelihood ratio test against its parent is excluded (rank NaN)'
C_R_KEEP = 'a model that passes strictness, cut-off and test is ranked'
C_R_VALUE = 'the reported criterion of a ranked model equals OFV/AIC/BIC by definition plus its penalty'
C_R_DELTA = 'the reported delta of a ranked model equals criterion(base) - criterion(model)'
C_R_ORDER = 'ranks order the eligible models by the criterion: better value => smaller rank, equal value <=> shared rank, best rank is 1'
C_R_ROWS = 'rows are sorted by rank with every excluded model below every ranked one, so the first row is the best eligible model'
C_R_FRAME = 'rank_models does not mutate its arguments'
C_R_BICDEF = "rank_type='bic' without a bic_type ranks by the default (mixed) BIC of calculate_bic"
C_R_STRNONE = 'strictness=None (documented as "str or None") applies no strictness criteria'
C_R_WARNNONE = 'results whose optional warnings attribute is unset (None, the ModelfitResults default) are ranked without internal error'
C_R_LRTDF = 'the LRT degrees of freedom are the difference in the number of ESTIMATED parameters (a FIXed parameter adds no degree of freedom)'


RANK_CLAUSE_FID = {C_R_LRTDF: 'src/pharmpy/modeling/lrt.py:degrees_of_freedom', C_R_STRNONE: FID_STRICT,
                   C_R_WARNNONE: FID_STRICT}


def _rank_check(inp):
    """returns list of (clause, detail); empty when all clauses hold"""
    out, mutated = _rank_call(inp)
    fails = []
    special = None
    if inp.get('warnings_none'):
        special = C_R_WARNNONE
    elif 'strictness' in inp and inp['strictness'] is None:
        special = C_R_STRNONE
    elif inp['rank_type'] == 'bic' and inp.get('bic_type') is None:
        special = C_R_BICDEF
    bad_args = inp.get('drop_res') or (inp.get('penalties') is not None
                                       and len(inp['penalties']) != len(inp['cands']) + 1)
    if isinstance(out, Exception):
        if bad_args and isinstance(out, ValueError):
            return []
        return [(special or C_R_EXC, f'raised {type(out).__name__}: {out}')]
    if bad_args:
        return [(C_R_VALERR, 'no exception raised')]
    if mutated:
        fails.append((C_R_FRAME, 'mutated: ' + ', '.join(mutated)))
    ref = _ref_rank(inp)
    rt = inp['rank_type']
    cname = 'ofv' if rt == 'lrt' else rt
    names = [r['name'] for r in ref]
    if list(out.columns) != [f'd{cname}', cname, 'rank'] or sorted(out.index) != sorted(names):
        return fails + [(C_R_SHAPE, f'columns {list(out.columns)} index {list(out.index)}')]
    got = {n: dict(delta=float(d), value=float(v), rank=float(r))
           for n, (d, v, r) in zip(list(out.index), out.values.tolist())}

    def add(clause, detail):
        if special:
            clause = special
        if all(c != clause for c, _ in fails):
            fails.append((clause, detail))

    for r in ref:
        g = got[r['name']]
        ranked = not math.isnan(g['rank'])
        if not r['eligible'] and ranked:
            clause = {'strictness': C_R_STRICT, 'cutoff': C_R_CUTOFF, 'lrt': C_R_LRT}[r['reason']]
            add(clause, f"{r['name']} ({r['variant']}, ofv={r['st']['ofv']}, ms={r['st']['ms']}) fails "
                        f"{r['reason']} but got rank {g['rank']}")
        elif r['eligible'] and not ranked:
            add(C_R_KEEP, f"{r['name']} ({r['variant']}, ofv={r['st']['ofv']}) is eligible "
                          f"(reference value {r['value']}) but got rank NaN")
        elif r['eligible']:
            if not _close(g['value'], r['value']):
                add(C_R_VALUE, f"{r['name']} ({r['variant']}): reported {g['value']}, definition gives {r['value']}")
            if not _close(g['delta'], r['delta']):
                add(C_R_DELTA, f"{r['name']}: reported delta {g['delta']}, definition gives {r['delta']}")
    # ordering among models that both sides regard as ranked
    both = [r for r in ref if r['eligible'] and not math.isnan(got[r['name']]['rank'])]
    for a, b in itertools.combinations(both, 2):
        ra, rb = got[a['name']]['rank'], got[b['name']]['rank']
        if _close(a['value'], b['value']):
            if ra != rb:
                add(C_R_ORDER, f"{a['name']} and {b['name']} tie at {a['value']} but have ranks {ra} and {rb}")
        elif (a['value'] < b['value']) != (ra < rb) or ra == rb:
            add(C_R_ORDER, f"{a['name']}={a['value']} rank {ra}, {b['name']}={b['value']} rank {rb}")
    ranks = [got[n]['rank'] for n in names if not math.isnan(got[n]['rank'])]
    if ranks:
        if min(ranks) != 1 or any(x != int(x) or x < 1 or x > len(ranks) for x in ranks):
            add(C_R_ORDER, f'ranks {ranks} are not positive integers starting at 1')
    # row order
    rowranks = [got[n]['rank'] for n in out.index]
    seen_nan = False
    prev = 0
    for x in rowranks:
        if math.isnan(x):
            seen_nan = True
        else:
            if seen_nan or x < prev:
                add(C_R_ROWS, f'row ranks in order: {rowranks}')
                break
            prev = x
    elig = [r for r in ref if r['eligible']]
    if elig and not fails:
        best = min(r['value'] for r in elig)
        first = out.index[0]
        fr = [r for r in ref if r['name'] == first][0]
        if not (fr['eligible'] and _close(fr['value'], best)):
            add(C_R_ROWS, f'first row {first} is not the best eligible model')
    return fails


def _rank_lrtdf_check(inp):
    """separate clause: df counted on estimated parameters.  base pheno OFV 0, one candidate."""
    out, _ = _rank_call(inp)
    if isinstance(out, Exception):
        return [(C_R_EXC, f'raised {type(out).__name__}: {out}')]
    (variant, sti), = inp['cands']
    df = VARIANT_FACTS[variant]['est'] - VARIANT_FACTS['pheno']['est']
    alpha = inp['cutoff']
    want = _ref_lrt_pass(df, alpha, STATUS[inp['base']]['ofv'], STATUS[sti]['ofv'])
    got = not math.isnan(float(out.loc['c1', 'rank']))
    if want != got:
        return [(C_R_LRTDF, f"candidate {variant} has {VARIANT_FACTS[variant]['est']} estimated parameters "
                            f"(base 6): df={df}, dOFV={STATUS[inp['base']]['ofv'] - STATUS[sti]['ofv']}, "
                            f"alpha={alpha}: test should {'pass' if want else 'fail'} but candidate was "
                            f"{'ranked' if got else 'excluded'}")]
    return []


def _multisets(options, k):
    return list(itertools.combinations_with_replacement(options, k))


def _rank_domain(tier):
    """list of inputs (dicts).  Small sets first."""
    thorough = tier == 'thorough'
    nst = 5                       # statuses 0..4 with the default strictness
    opts = [(v, s) for v in RANK_VARIANTS for s in range(nst)]
    pen_for = lambda k: [1.0, 5.0, -3.0, 0.5, 2.5][:k + 1]  # noqa
    dom = []
    kmax = 4 if thorough else 3

    def sets_upto(k):
        for n in range(0, k + 1):
            for ms in _multisets(opts, n):
                yield [list(c) for c in ms]

    # (a) ofv: all multisets of <= kmax candidates; aic: <= kmax-1
    for rt, km in (('ofv', kmax), ('aic', kmax - 1)):
        for cands in sets_upto(km):
            for b in range(nst):
                for cutoff in (None, 3.84):
                    for pens in (None, pen_for(len(cands))):
                        dom.append(dict(base=b, cands=cands, rank_type=rt, cutoff=cutoff, penalties=pens))
    # (b) cheap BIC variants: <= kmax-1 candidates
    for bt in ('fixed', 'random', 'iiv'):
        for cands in sets_upto(kmax - 1):
            for b in range(nst):
                for cutoff in (None, 3.84):
                    for pens in (None, pen_for(len(cands))):
                        dom.append(dict(base=b, cands=cands, rank_type='bic', bic_type=bt, cutoff=cutoff,
                                        penalties=pens))
    # (c) mixed BIC (expensive): <= 1 candidate with all options, 2 candidates with eligible base only
    #     (thorough: 2 candidates with all options)
    for cands in sets_upto(2):
        for b in range(nst):
            for cutoff in (None, 3.84):
                for pens in (None, pen_for(len(cands))):
                    if len(cands) >= 2 and not thorough and (b != 0 or pens is not None):
                        continue
                    dom.append(dict(base=b, cands=cands, rank_type='bic', bic_type='mixed', cutoff=cutoff,
                                    penalties=pens))
    # (d) lrt: ordered tuples of <= 2 candidates with every parent map, p-values None/0.05/(0.05,0.01)
    for n in range(0, 3):
        for cands in itertools.product(opts, repeat=n):
            cands = [list(c) for c in cands]
            pmaps = [None] + [list(p) for p in itertools.product(*[range(0, i + 1) for i in range(n)])]
            if n == 0:
                pmaps = [None]
            for b in range(nst):
                for cutoff in (None, 0.05, [0.05, 0.01]):
                    for pens in (None, pen_for(n)):
                        for pm in pmaps:
                            dom.append(dict(base=b, cands=cands, rank_type='lrt', cutoff=cutoff, penalties=pens,
                                            parents=pm))
    # (e) lrt: multisets of 3 (thorough: 4) candidates, parents among base/earlier candidates
    for n in range(3, kmax + 1):
        for cands in _multisets(opts, n):
            cands = [list(c) for c in cands]
            pmaps = list(itertools.product(*[range(0, i + 1) for i in range(n)]))
            if n > 3:
                pmaps = [tuple([0] * n), tuple(range(n))]      # all children of the base / one chain
            elif not thorough:
                pmaps = [(0, 0, 0), (0, 1, 2), (0, 1, 1)]       # star / chain / two children of c1
            for pm in pmaps:
                for b in range(nst):
                    dom.append(dict(base=b, cands=cands, rank_type='lrt', cutoff=None, penalties=None,
                                    parents=list(pm)))
    # (f) strictness expressions (incl. '' and the AMD default) with all 6 statuses, <= 2 candidates,
    #     parent maps keyed by Model objects
    opts6 = [(v, s) for v in ('same', 'add1') for s in range(6)]
    for strict in ('', STRICT_AMD):
        for n in range(0, 3):
            for ms in _multisets(opts6, n):
                cands = [list(c) for c in ms]
                for b in range(6):
                    for rt, cutoff in (('ofv', None), ('ofv', 3.84), ('aic', None), ('lrt', 0.05)):
                        d = dict(base=b, cands=cands, rank_type=rt, cutoff=cutoff, penalties=None,
                                 strictness=strict)
                        if rt == 'lrt' and n:
                            d['parents'] = list(range(n))     # chain: c1->base, c2->c1
                            d['parent_keys'] = 'model'
                        dom.append(d)
    # (g) argument validation and the documented-but-special parameter values
    for cands in sets_upto(1):
        for b in (0, 3):
            dom.append(dict(base=b, cands=cands, rank_type='ofv', penalties=[0.0] * (len(cands) + 2)))
            if cands:
                dom.append(dict(base=b, cands=cands, rank_type='ofv', drop_res=True))
            dom.append(dict(base=b, cands=cands, rank_type='bic', bic_type=None))
            dom.append(dict(base=b, cands=cands, rank_type='ofv', strictness=None))
            dom.append(dict(base=b, cands=cands, rank_type='ofv', warnings_none=True))
    return dom


def _rank_lrtdf_domain():
    dom = []
    for v in ('same', 'fix', 'fixth', 'rm', 'add1', 'add2'):
        for b in (0, 1, 2):
            for s in (0, 1, 2):
                for alpha in (0.05, 0.01):
                    dom.append(dict(base=b, cands=[[v, s]], rank_type='lrt', cutoff=alpha, lrtdf=True))
    return dom


# ---- AIC / BIC ------------------------------------------------------------------------------

C_AIC = 'AIC = -2LL + 2 * number of estimated parameters'
C_BIC = {
    'mixed': 'mixed BIC = -2LL + n_random_parameters*log(n_individuals) + n_fixed_parameters*log(n_observations)',
    'fixed': 'fixed BIC = -2LL + n_estimated_parameters*log(n_observations)',
    'random': 'random BIC = -2LL + n_estimated_parameters*log(n_individuals)',
    'iiv': 'iiv BIC = -2LL + n_estimated_iiv_omega_parameters*log(n_individuals)',
}
C_BIC_DEFAULT = 'calculate_bic defaults to the mixed BIC'
C_BIC_ERR = 'calculate_bic raises ValueError for an unknown type'


def _ic_inputs():
    return [dict(variant=v, ll=ll) for v in VARIANT_FACTS for ll in (-10.0, 0.0, 586.27605628520962)]


def _ic_check(inp):
    from pharmpy.modeling import calculate_aic, calculate_bic

    env = _rank_env()
    m = env['variants'][inp['variant']]
    ll = inp['ll']
    fails = []
    try:
        got = calculate_aic(m, ll)
        want = _ref_criterion(inp['variant'], ll, 'aic', None)
        if not _close(got, want):
            fails.append((FID_AIC, C_AIC, f"variant {inp['variant']} -2LL={ll}: got {got}, formula {want}"))
    except Exception as e:
        fails.append((FID_AIC, C_AIC, f"variant {inp['variant']}: raised {type(e).__name__}: {e}"))
    for bt in ('mixed', 'fixed', 'random', 'iiv'):
        try:
            got = calculate_bic(m, ll, type=bt)
            want = _ref_criterion(inp['variant'], ll, 'bic', bt)
            if not _close(got, want):
                f = VARIANT_FACTS[inp['variant']]
                fails.append((FID_BIC, C_BIC[bt], f"variant {inp['variant']} -2LL={ll}: got {got}, formula {want} "
                                                  f"with counts {f}"))
        except Exception as e:
            fails.append((FID_BIC, C_BIC[bt], f"variant {inp['variant']}: raised {type(e).__name__}: {e}"))
    try:
        got = calculate_bic(m, ll)
        want = _ref_criterion(inp['variant'], ll, 'bic', 'mixed')
        if not _close(got, want):
            fails.append((FID_BIC, C_BIC_DEFAULT, f"variant {inp['variant']}: got {got}, mixed formula {want}"))
    except Exception as e:
        fails.append((FID_BIC, C_BIC_DEFAULT, f"raised {type(e).__name__}: {e}"))
    try:
        calculate_bic(m, ll, type='bogus')
        fails.append((FID_BIC, C_BIC_ERR, 'no exception'))
    except ValueError:
        pass
    except Exception as e:
        fails.append((FID_BIC, C_BIC_ERR, f"raised {type(e).__name__}: {e}"))
    return fails


# ---- AIC / BIC on synthetic models: parameters shared between individual parameters ---------------
#
# Two-compartment models (ADVAN3 TRANS4) written as NONMEM code.  Each individual parameter (CL, Q, V1, V2)
# is a product of thetas - its own theta and/or one theta SHARED by several individual parameters - with or
# without an exponential random effect; the residual error is proportional (estimated sigma) or has an
# estimated theta as standard deviation (sigma 1 FIX).  The data set is written here (3 individuals with 2, 3
# and 2 observation records), so the counts of the definitions are known by construction:
#   estimated   = parameters without FIX
#   random kind = estimated omegas and estimated thetas that enter an individual parameter carrying a random
#                 effect (an eta whose variance is 0 FIX is not a random effect)
#   fixed kind  = every other estimated parameter; each estimated parameter is of exactly one kind

FID_CATEG = 'src/pharmpy/modeling/results.py:_categorize_parameters'
C_CATEG = ('the mixed BIC puts every estimated parameter into exactly one class: random when it is a variance of a '
           'random effect or enters an individual parameter that carries a random effect, otherwise fixed')
SYN_SLOTS = ['CL', 'Q', 'V1', 'V2']
SYN_OBS = [2, 3, 2]
SYN_KINDS = [(own, shared, eta) for own in (True, False) for shared in (False, True) for eta in (False, True)
             if own or shared]
SYN_FIX = ['none', 'shared', 'omega', 'omega0', 'own']


def _syn_write_data(d):
    rows = ['ID TIME AMT WGT DV']
    for i, nobs in enumerate(SYN_OBS, start=1):
        rows.append(f'{i} 0 25 {1.5 + i} 0')
        for k in range(nobs):
            rows.append(f'{i} {2.0 + k} 0 {1.5 + i} {10 + k + i}')
    path = os.path.join(d, 'syn.dta')
    with open(path, 'w') as fh:
        fh.write('\n'.join(rows) + '\n')
    return path


def _syn_layout(inp):
    """numbering of the parameters of the model described by inp: slots = [[own, shared, eta] per CL, Q, V1, V2]"""
    slots = inp['slots']
    ntheta = 0
    shared = None
    if any(sh for _, sh, _ in slots):
        ntheta += 1
        shared = ntheta
    own, eta = [], []
    neta = 0
    for o, _, _ in slots:
        if o:
            ntheta += 1
        own.append(ntheta if o else None)
    for _, _, e in slots:
        if e:
            neta += 1
        eta.append(neta if e else None)
    err_theta = None
    if inp['err'] == 'theta_w':
        ntheta += 1
        err_theta = ntheta
    return dict(ntheta=ntheta, shared=shared, own=own, eta=eta, neta=neta, err_theta=err_theta)


def _syn_code(inp, datapath):
    lay = _syn_layout(inp)
    fix = inp['fix']
    first_own = next((t for t in lay['own'] if t is not None), None)
    lines = ['$PROBLEM syn', f'$DATA {datapath} IGNORE=@', '$INPUT ID TIME AMT WGT DV', '$SUBROUTINE ADVAN3 TRANS4',
             '$PK']
    for name, (o, sh, e), t, k in zip(SYN_SLOTS, inp['slots'], lay['own'], lay['eta']):
        factors = []
        if sh:
            factors.append(f"THETA({lay['shared']})")
        if o:
            factors.append(f'THETA({t})')
        if name in ('CL', 'Q'):
            factors.append('WGT')
        if e:
            factors.append(f'EXP(ETA({k}))')
        lines.append(f'{name} = ' + '*'.join(factors))
    lines += ['S1 = V1', '$ERROR']
    if lay['err_theta']:
        lines += [f"W = THETA({lay['err_theta']})*F", 'Y = F + W*EPS(1)']
    else:
        lines += ['Y = F + F*EPS(1)']
    for t in range(1, lay['ntheta'] + 1):
        fixed = (fix == 'shared' and t == lay['shared']) or (fix == 'own' and t == first_own)
        lines.append(f'$THETA (0,{0.5 + t / 10}){" FIX" if fixed else ""}')
    for k in range(1, lay['neta'] + 1):
        if k == 1 and fix == 'omega':
            lines.append('$OMEGA 0.1 FIX')
        elif k == 1 and fix == 'omega0':
            lines.append('$OMEGA 0 FIX')
        else:
            lines.append(f'$OMEGA {0.1 * k}')
    lines.append('$SIGMA 1 FIX' if lay['err_theta'] else '$SIGMA 0.02')
    lines.append('$ESTIMATION METHOD=1 INTERACTION')
    return '\n'.join(lines) + '\n'


def _syn_facts(inp):
    """the classes of the definition, as sets of ('theta', n) / ('omega', k) / ('sigma', 1)"""
    lay = _syn_layout(inp)
    fix = inp['fix']
    first_own = next((t for t in lay['own'] if t is not None), None)
    est = set()
    for t in range(1, lay['ntheta'] + 1):
        if not ((fix == 'shared' and t == lay['shared']) or (fix == 'own' and t == first_own)):
            est.add(('theta', t))
    for k in range(1, lay['neta'] + 1):
        if not (k == 1 and fix in ('omega', 'omega0')):
            est.add(('omega', k))
    if not lay['err_theta']:
        est.add(('sigma', 1))
    rand = {p for p in est if p[0] == 'omega'}
    for (o, sh, e), t, k in zip(inp['slots'], lay['own'], lay['eta']):
        random_effect = e and not (k == 1 and fix == 'omega0')
        if random_effect:
            if o and ('theta', t) in est:
                rand.add(('theta', t))
            if sh and ('theta', lay['shared']) in est:
                rand.add(('theta', lay['shared']))
    return dict(est=est, rand=rand, fixd=est - rand, iivom={p for p in est if p[0] == 'omega'},
                nids=len(SYN_OBS), nobs=sum(SYN_OBS), lay=lay)


def _bicsyn_inputs(tier):
    dom = []
    nvar = 4 if tier == 'thorough' else 3
    for kinds in itertools.product(SYN_KINDS, repeat=nvar):
        slots = [list(k) for k in kinds] + [[True, False, False]] * (4 - nvar)
        if not any(e for _, _, e in slots):
            continue        # precondition: a mixed effects model (some random effect)
        for err, fix in [('prop', 'none'), ('theta_w', 'none'), ('prop', 'shared'), ('prop', 'omega'),
                         ('prop', 'omega0'), ('theta_w', 'own')]:
            if fix == 'shared' and not any(sh for _, sh, _ in slots):
                continue
            if fix == 'own' and not any(o for o, _, _ in slots):
                continue
            dom.append(dict(slots=slots, err=err, fix=fix))
    return dom


def _bicsyn_check(inp):
    import shutil
    import tempfile

    own_dir = None
    datapath = _RK.get('syn_data')
    if datapath is None or not os.path.exists(datapath):
        own_dir = tempfile.mkdtemp(prefix='b_rank_syn_')
        datapath = _syn_write_data(own_dir)
    try:
        return _bicsyn_check_at(inp, datapath)
    finally:
        if own_dir:
            shutil.rmtree(own_dir, ignore_errors=True)


def _bicsyn_check_at(inp, datapath):
    from pharmpy.modeling import calculate_aic, calculate_bic, read_model_from_string

    f = _syn_facts(inp)
    code = _syn_code(inp, datapath)
    tag = 'model ' + ' | '.join(ln for ln in code.split('\n') if ln[:1] != '$' or ln[:3] in ('$TH', '$OM', '$SI'))
    m = read_model_from_string(code)
    lay = f['lay']
    names = m.parameters.names
    assert len(names) == lay['ntheta'] + lay['neta'] + 1, names
    label = {}
    for t in range(1, lay['ntheta'] + 1):
        label[('theta', t)] = names[t - 1]
    for k in range(1, lay['neta'] + 1):
        label[('omega', k)] = names[lay['ntheta'] + k - 1]
    label[('sigma', 1)] = names[-1]
    # reference self check against the parameter table and the data written above
    assert {label[p] for p in f['est']} == {p.name for p in m.parameters if not p.fix}, (names, f['est'])
    fails = []
    ll = -3.5
    ln_i, ln_o = math.log(f['nids']), math.log(f['nobs'])
    want = {
        'mixed': ll + len(f['rand']) * ln_i + len(f['fixd']) * ln_o,
        'fixed': ll + len(f['est']) * ln_o,
        'random': ll + len(f['est']) * ln_i,
        'iiv': ll + len(f['iivom']) * ln_i,
    }
    show = {k: sorted(label[p] for p in f[k]) for k in ('rand', 'fixd')}
    try:
        got = calculate_aic(m, ll)
        if not _close(got, ll + 2 * len(f['est'])):
            fails.append((FID_AIC, C_AIC, f"{tag}: got {got}, formula {ll + 2 * len(f['est'])}"))
    except Exception as e:
        fails.append((FID_AIC, C_AIC, f'{tag}: raised {type(e).__name__}: {e}'))
    for bt in ('mixed', 'fixed', 'random', 'iiv'):
        try:
            got = calculate_bic(m, ll, type=bt)
            if not _close(got, want[bt]):
                fails.append((FID_BIC, C_BIC[bt],
                              f"{tag}: -2LL={ll}, {f['nids']} individuals, {f['nobs']} observations: got {got}, "
                              f"formula {want[bt]} with random {show['rand']} fixed {show['fixd']}"))
        except Exception as e:
            fails.append((FID_BIC, C_BIC[bt], f'{tag}: raised {type(e).__name__}: {e}'))
    try:
        got = calculate_bic(m, ll)
        if not _close(got, want['mixed']):
            fails.append((FID_BIC, C_BIC_DEFAULT, f"{tag}: got {got}, mixed formula {want['mixed']}"))
    except Exception as e:
        fails.append((FID_BIC, C_BIC_DEFAULT, f'{tag}: raised {type(e).__name__}: {e}'))
    try:
        from pharmpy.modeling.results import _categorize_parameters
    except ImportError:
        _categorize_parameters = None
    if _categorize_parameters is not None:
        try:
            fixedpars, randpars = _categorize_parameters(m)
            gf = sorted(str(x) for x in fixedpars)
            gr = sorted(str(x) for x in randpars)
            if gf != show['fixd'] or gr != show['rand'] or len(gf) != len(set(gf)) or len(gr) != len(set(gr)):
                fails.append((FID_CATEG, C_CATEG, f"{tag}: fixed {gf} random {gr}, by the definition fixed "
                                                  f"{show['fixd']} random {show['rand']}"))
        except Exception as e:
            fails.append((FID_CATEG, C_CATEG, f'{tag}: raised {type(e).__name__}: {e}'))
    return fails


# ---- lrt functions ----------------------------------------------------------------------------

C_L_CUT = 'cutoff = chi2.isf(alpha, df) for df>0, 0 for df==0, -chi2.isf(alpha, -df) for df<0, df = difference in parameter count'
C_L_P = 'p_value = chi2.sf(reduced_ofv - extended_ofv, df) for df >= 1 (NaN OFV gives NaN); never an exception'
C_L_TEST = 'test is True iff parent_ofv - child_ofv >= cutoff (False when an OFV is NaN)'
C_L_B2 = 'best_of_two returns the child iff the test passes, otherwise the parent'
C_L_BM = 'best_of_many returns the lowest-OFV candidate (NaN ignored) iff it passes the test against the parent, otherwise (or if all are NaN / there are none) the parent'
LRT_OFVS = [NAN, -10.0, 0.0, 3.0, 5.0]


def _lrt_inputs(tier):
    vs = ['pheno', 'fix', 'rm', 'add1', 'add2']
    dom = []
    for p in vs:
        for c in vs:
            for alpha in (0.05, 0.01, 0.001):
                dom.append(dict(fn='pair', parent=p, child=c, alpha=alpha))
    nmany = 3 if tier == 'thorough' else 2
    for p in ('pheno', 'add1'):
        for n in range(0, nmany + 1):
            for cs in itertools.product(['rm', 'add1', 'add2'], repeat=n):
                for ofvs in itertools.product(LRT_OFVS, repeat=n):
                    for pofv in (NAN, 0.0):
                        for container in ('list', 'array'):
                            dom.append(dict(fn='many', parent=p, children=list(cs), ofvs=list(ofvs), pofv=pofv,
                                            alpha=0.05, container=container))
    return dom


def _lrt_check(inp):
    import numpy as np
    from scipy.stats import chi2

    from pharmpy.modeling import lrt

    env = _rank_env()
    V = env['variants']
    fails = []
    if inp['fn'] == 'pair':
        p, c, alpha = V[inp['parent']], V[inp['child']], inp['alpha']
        df = VARIANT_FACTS[inp['child']]['npar'] - VARIANT_FACTS[inp['parent']]['npar']
        tag = f"parent {inp['parent']} child {inp['child']} (df={df}) alpha={alpha}"
        want_cut = _ref_chi2_cutoff(df, alpha)
        try:
            got = lrt.cutoff(p, c, alpha)
            if not _close(got, want_cut):
                fails.append((FID_LRT_CUTOFF, C_L_CUT, f'{tag}: got {got}, chi-square gives {want_cut}'))
        except Exception as e:
            fails.append((FID_LRT_CUTOFF, C_L_CUT, f'{tag}: raised {type(e).__name__}: {e}'))
        for po in LRT_OFVS:
            for co in LRT_OFVS:
                t2 = f'{tag} parent_ofv={po} child_ofv={co}'
                try:
                    got = lrt.p_value(p, c, po, co)
                    if df >= 1:
                        want = float(chi2.sf(po - co, df))
                        if not isinstance(got, float) or not _close(got, want, 1e-12, 1e-15):
                            fails.append((FID_LRT_P, C_L_P, f'{t2}: got {got!r}, chi-square gives {want}'))
                    elif not isinstance(got, float) or not (math.isnan(got) or 0 <= got <= 1):
                        fails.append((FID_LRT_P, C_L_P, f'{t2}: got {got!r}'))
                except Exception as e:
                    fails.append((FID_LRT_P, C_L_P, f'{t2}: raised {type(e).__name__}: {e}'))
                want = _ref_lrt_pass(df, alpha, po, co)
                try:
                    got = lrt.test(p, c, po, co, alpha)
                    if bool(got) != want:
                        fails.append((FID_LRT_TEST, C_L_TEST, f'{t2}: got {got}, expected {want}'))
                except Exception as e:
                    fails.append((FID_LRT_TEST, C_L_TEST, f'{t2}: raised {type(e).__name__}: {e}'))
                try:
                    got = lrt.best_of_two(p, c, po, co, alpha)
                    if got is not (c if want else p):
                        fails.append((FID_LRT_B2, C_L_B2, f'{t2}: returned {got.name}, expected '
                                                          f'{(c if want else p).name}'))
                except Exception as e:
                    fails.append((FID_LRT_B2, C_L_B2, f'{t2}: raised {type(e).__name__}: {e}'))
    else:
        p = V[inp['parent']]
        kids = [_named(v, f'k{i}') for i, v in enumerate(inp['children'])]
        ofvs = list(inp['ofvs'])
        arg = np.array(ofvs, dtype=float) if inp['container'] == 'array' else list(ofvs)
        snapshot = list(ofvs)
        best = None
        for i, o in enumerate(ofvs):
            if not math.isnan(o) and (best is None or o < ofvs[best]):
                best = i
        want = p
        if best is not None:
            df = VARIANT_FACTS[inp['children'][best]]['npar'] - VARIANT_FACTS[inp['parent']]['npar']
            if _ref_lrt_pass(df, inp['alpha'], inp['pofv'], ofvs[best]):
                want = kids[best]
        tag = f"parent {inp['parent']} ofv={inp['pofv']} children {inp['children']} ofvs={ofvs} ({inp['container']})"
        try:
            got = lrt.best_of_many(p, kids, inp['pofv'], arg, inp['alpha'])
            if got is not want:
                fails.append((FID_LRT_BM, C_L_BM, f'{tag}: returned {got.name}, expected {want.name}'))
            after = [float(x) for x in arg]
            if not all(_close(a, b) for a, b in zip(after, snapshot)):
                fails.append((FID_LRT_BM, C_L_BM, f'{tag}: mutated its OFV argument'))
        except Exception as e:
            fails.append((FID_LRT_BM, C_L_BM, f'{tag}: raised {type(e).__name__}: {e}'))
    return fails


# ---- is_strictness_fulfilled ----------------------------------------------------------------------

THETAS = ['POP_CL', 'POP_VC', 'COVAPGR']
OMEGAS = ['IIV_CL', 'IIV_VC']
SIGMAS = ['SIGMA']
ALLPAR = THETAS + OMEGAS + SIGMAS
GROUPS = {'theta': THETAS, 'omega': OMEGAS, 'sigma': SIGMAS}
# second element of each group is the one that gets the deviating value (tests ALL/ANY semantics)
GROUP_PICK = {'theta': 'POP_VC', 'omega': 'IIV_VC', 'sigma': 'SIGMA'}
# bounds of the pheno parameters: all lower 0 except COVAPGR lower -0.99; no upper bounds
FAR_EST = {'POP_CL': 0.0047, 'POP_VC': 1.01, 'COVAPGR': 0.1, 'IIV_CL': 0.03, 'IIV_VC': 0.031, 'SIGMA': 0.013}
NEAR_EST = {'theta0': ('POP_CL', 0.0005), 'thetab': ('COVAPGR', -0.9912), 'omega': ('IIV_VC', -0.0004),
            'sigma': ('SIGMA', 0.00099)}
BOOL_ATOMS = ['minimization_successful', 'rounding_errors', 'maxevals_exceeded', 'final_zero_gradient',
              'final_zero_gradient_theta', 'final_zero_gradient_omega', 'final_zero_gradient_sigma',
              'estimate_near_boundary', 'estimate_near_boundary_theta', 'estimate_near_boundary_omega',
              'estimate_near_boundary_sigma']
NUM_ATOMS = ['sigdigs', 'rse', 'rse_theta', 'rse_omega', 'rse_sigma', 'condition_number']
OPS = ['<', '<=', '==', '>', '>=', '!=']
C_S_ATOM = 'strictness atom {} has the documented meaning'
C_S_NUM = 'numeric strictness atom {} compared (<, <=, ==, >, >=) with a number holds iff the comparison holds for every value it stands for'
C_S_NE = "'!=' on a numeric strictness criterion holds iff every value it stands for differs from the number (same quantifier as the other operators)"
C_S_LOGIC = 'and / or / not / parentheses combine strictness criteria as logical operators'
C_S_NANOFV = 'strictness is never fulfilled when the OFV is NaN, and an empty expression accepts any finite OFV'
C_S_ERR = 'is_strictness_fulfilled raises only ValueError (unknown criterion, forbidden operator, missing data)'


def _sr_spec_default():
    return dict(ofv=-10.0, ms=True, tc=None, sd=3.0, rse={g: 0.1 for g in GROUPS}, grad={g: 'ok' for g in GROUPS},
                near=[], cond=10.0, order='model')


def _sr_build(spec):
    """synthetic ModelfitResults from a spec; every field is consistent (warnings follow gradients)"""
    import numpy as np
    import pandas as pd
    from pharmpy.workflows.results import ModelfitResults

    names = list(ALLPAR)
    if spec.get('order') == 'reversed':
        names = names[::-1]
    rse = {}
    grad = {}
    for g, members in GROUPS.items():
        for n in members:
            rse[n] = 0.1
            grad[n] = 0.25 if n != 'POP_CL' else -1.5
        rse[GROUP_PICK[g]] = spec['rse'][g]
        if spec['grad'][g] == 'zero':
            grad[GROUP_PICK[g]] = 0.0
        elif spec['grad'][g] == 'isnan':
            grad[GROUP_PICK[g]] = NAN
    est = dict(FAR_EST)
    for key in spec['near']:
        n, val = NEAR_EST[key]
        est[n] = val
    warn = []
    if any(v != 'ok' for v in spec['grad'].values()):
        warn.append('final_zero_gradient')
    if spec['near']:
        warn.append('estimate_near_boundary')
    # covariance matrix with the requested 2-norm condition number (diagonal, parameter order)
    d = np.ones(len(names))
    d[0] = spec['cond']
    cov = pd.DataFrame(np.diag(d) * 1e-4, index=names, columns=names)
    return ModelfitResults(
        ofv=spec['ofv'], minimization_successful=spec['ms'], termination_cause=spec['tc'],
        significant_digits=spec['sd'], warnings=warn,
        parameter_estimates=pd.Series({n: est[n] for n in names}),
        relative_standard_errors=pd.Series({n: rse[n] for n in names}),
        gradients=pd.Series({n: grad[n] for n in names}),
        covariance_matrix=cov)


def _two_sigdig(x):
    return float('%.1e' % x)


def _ref_near(name, value):
    lower = -0.99 if name == 'COVAPGR' else 0.0
    if lower == 0:
        return abs(value) < 0.001
    return _two_sigdig(value) == _two_sigdig(lower)


def _sr_atom_values(spec):
    """reference meaning of every atom: bool for boolean atoms, list of numbers for numeric atoms"""
    est = dict(FAR_EST)
    for key in spec['near']:
        n, val = NEAR_EST[key]
        est[n] = val
    rse = {}
    for g, members in GROUPS.items():
        for n in members:
            rse[n] = 0.1
        rse[GROUP_PICK[g]] = spec['rse'][g]
    vals = {
        'minimization_successful': bool(spec['ms']),
        'rounding_errors': spec['tc'] == 'rounding_errors',
        'maxevals_exceeded': spec['tc'] == 'maxevals_exceeded',
        'final_zero_gradient': any(v != 'ok' for v in spec['grad'].values()),
        'estimate_near_boundary': any(_ref_near(n, est[n]) for n in ALLPAR),
        'sigdigs': [spec['sd']],
        'rse': [rse[n] for n in ALLPAR],
        'condition_number': [spec['cond']],
    }
    for g, members in GROUPS.items():
        vals[f'final_zero_gradient_{g}'] = spec['grad'][g] != 'ok'
        vals[f'estimate_near_boundary_{g}'] = any(_ref_near(n, est[n]) for n in members)
        vals[f'rse_{g}'] = [rse[n] for n in members]
    return vals


def _cmp(a, op, b):
    return {'<': a < b, '<=': a <= b, '==': a == b, '>': a > b, '>=': a >= b, '!=': a != b}[op]


def _strict_inputs(tier):
    dom = []
    base = _sr_spec_default()

    def spec(**kw):
        s = json.loads(json.dumps(_js(base)))
        s = _unjs(s)
        s.update(kw)
        return s

    # boolean atoms over their relevant fields
    for ms in (True, False):
        for tc in (None, 'rounding_errors', 'maxevals_exceeded'):
            for a in ('minimization_successful', 'rounding_errors', 'maxevals_exceeded'):
                dom.append(dict(kind='atom', atom=a, spec=spec(ms=ms, tc=tc)))
    for gt, go, gs in itertools.product(('ok', 'zero', 'isnan'), repeat=3):
        for order in ('model', 'reversed'):
            for a in ('final_zero_gradient', 'final_zero_gradient_theta', 'final_zero_gradient_omega',
                      'final_zero_gradient_sigma'):
                dom.append(dict(kind='atom', atom=a, spec=spec(grad=dict(theta=gt, omega=go, sigma=gs), order=order)))
    for n in range(0, 3):
        for near in itertools.combinations(sorted(NEAR_EST), n):
            for order in ('model', 'reversed'):
                for a in ('estimate_near_boundary', 'estimate_near_boundary_theta', 'estimate_near_boundary_omega',
                          'estimate_near_boundary_sigma'):
                    dom.append(dict(kind='atom', atom=a, spec=spec(near=list(near), order=order)))
    # numeric atoms: every operator, thresholds below / at / above the values
    for sd in (NAN, 0.05, 3.0):
        for op in OPS:
            for thr in (0.05, 0.1, 3.0, 4):
                dom.append(dict(kind='num', atom='sigdigs', op=op, thr=thr, spec=spec(sd=sd)))
    for rt, ro, rs in itertools.product((0.1, 0.5), repeat=3):
        for order in ('model', 'reversed'):
            for a in ('rse', 'rse_theta', 'rse_omega', 'rse_sigma'):
                for op in OPS:
                    for thr in (0.1, 0.4, 0.5):
                        dom.append(dict(kind='num', atom=a, op=op, thr=thr,
                                        spec=spec(rse=dict(theta=rt, omega=ro, sigma=rs), order=order)))
    for cond in (10.0, 2000.0):
        for op in OPS:
            for thr in (10, 1000, 2000.5):
                dom.append(dict(kind='num', atom='condition_number', op=op, thr=thr, spec=spec(cond=cond)))
    # logic: templates over three boolean atoms and one numeric atom
    templates = ['{A} and {B}', '{A} or {B}', 'not {A}', 'not {A} and {B}', '({A} or {B}) and {N} < 1',
                 '{A} or ({B} and {N} >= 0.1)', '{A} and {N} < 0.4', 'not ({A} or {B})', '{A} or {B} and {C}',
                 '({A} or {B}) and {C}']
    for ms in (True, False):
        for tc in (None, 'rounding_errors', 'maxevals_exceeded'):
            for sd in (0.05, 3.0):
                for t in templates:
                    dom.append(dict(kind='logic', template=t, spec=spec(ms=ms, tc=tc, sd=sd)))
    # NaN OFV / empty expression
    for ofv in (NAN, -10.0, 0.0):
        for ms in (True, False):
            for e in ('', 'minimization_successful', 'not minimization_successful', 'sigdigs >= 0'):
                dom.append(dict(kind='nanofv', expr=e, spec=spec(ofv=ofv, ms=ms)))
    # errors
    for e in ('bogus_criterion', 'minimization_successful + 1 > 0', 'rse < 0.1; rse', 'minimisation_successful',
              'rse[0] < 1', 'sigdigs >= 3 & minimization_successful'):
        dom.append(dict(kind='error', expr=e, spec=spec()))
    return dom


def _strict_check(inp):
    from pharmpy.tools.run import is_strictness_fulfilled

    env = _rank_env()
    model = env['variants']['pheno']
    spec = inp['spec']
    res = _sr_build(spec)
    vals = _sr_atom_values(spec)
    fails = []

    def call(expr):
        try:
            return is_strictness_fulfilled(model, res, expr)
        except Exception as e:  # noqa
            return e

    if inp['kind'] == 'atom':
        got = call(inp['atom'])
        want = vals[inp['atom']]
        clause = C_S_ATOM.format(inp['atom'])
        if isinstance(got, Exception):
            fails.append((clause, f"'{inp['atom']}' raised {type(got).__name__}: {got}"))
        elif bool(got) != want:
            fails.append((clause, f"'{inp['atom']}' evaluated to {got}, documented meaning gives {want}"))
        got2 = call('not ' + inp['atom'])
        if not isinstance(got2, Exception) and not isinstance(got, Exception) and bool(got2) == bool(got):
            fails.append((C_S_LOGIC, f"'not {inp['atom']}' evaluated to {got2} although the atom is {got}"))
    elif inp['kind'] == 'num':
        expr = f"{inp['atom']} {inp['op']} {inp['thr']}"
        got = call(expr)
        want = all(_cmp(x, inp['op'], inp['thr']) for x in vals[inp['atom']])
        clause = C_S_NE if inp['op'] == '!=' else C_S_NUM.format(inp['atom'])
        if isinstance(got, Exception):
            fails.append((clause, f"'{expr}' raised {type(got).__name__}: {got}"))
        elif bool(got) != want:
            fails.append((clause, f"'{expr}' evaluated to {got} for values {vals[inp['atom']]}, expected {want}"))
    elif inp['kind'] == 'logic':
        A, B, C = vals['minimization_successful'], vals['rounding_errors'], vals['maxevals_exceeded']
        N = spec['sd']
        t = inp['template']
        expr = t.format(A='minimization_successful', B='rounding_errors', C='maxevals_exceeded', N='sigdigs')
        want = {
            '{A} and {B}': A and B, '{A} or {B}': A or B, 'not {A}': not A, 'not {A} and {B}': (not A) and B,
            '({A} or {B}) and {N} < 1': (A or B) and N < 1, '{A} or ({B} and {N} >= 0.1)': A or (B and N >= 0.1),
            '{A} and {N} < 0.4': A and N < 0.4, 'not ({A} or {B})': not (A or B),
            '{A} or {B} and {C}': A or (B and C), '({A} or {B}) and {C}': (A or B) and C}[t]
        got = call(expr)
        if isinstance(got, Exception):
            fails.append((C_S_LOGIC, f"'{expr}' raised {type(got).__name__}: {got}"))
        elif bool(got) != bool(want):
            fails.append((C_S_LOGIC, f"'{expr}' evaluated to {got}, expected {want}"))
    elif inp['kind'] == 'nanofv':
        got = call(inp['expr'])
        if math.isnan(spec['ofv']):
            want = False
        elif inp['expr'] == '':
            want = True
        elif inp['expr'] == 'minimization_successful':
            want = spec['ms']
        elif inp['expr'] == 'not minimization_successful':
            want = not spec['ms']
        else:
            want = True
        if isinstance(got, Exception):
            fails.append((C_S_NANOFV, f"'{inp['expr']}' with ofv={spec['ofv']} raised {type(got).__name__}: {got}"))
        elif bool(got) != want:
            fails.append((C_S_NANOFV, f"'{inp['expr']}' with ofv={spec['ofv']} ms={spec['ms']} gave {got}, expected {want}"))
    else:
        got = call(inp['expr'])
        if not isinstance(got, ValueError):
            fails.append((C_S_ERR, f"'{inp['expr']}' gave {got!r} instead of ValueError"))
    return [(FID_STRICT, c, d + ' | results spec ' + json.dumps(_js(spec))) for c, d in fails]


def _misc_worker(task):
    """AIC/BIC, lrt and strictness cases: task = (kind, start, inputs)"""
    kind, start, inputs = task
    _rank_env()
    fn = {'ic': _ic_check, 'lrt': _lrt_check, 'strict': _strict_check, 'bicsyn': _bicsyn_check}[kind]
    col = _Collector()
    tmpdir = None
    if kind == 'bicsyn':
        import tempfile

        tmpdir = tempfile.mkdtemp(prefix='b_rank_syn_')
        _RK['syn_data'] = _syn_write_data(tmpdir)
    try:
        for off, inp in enumerate(inputs):
            col.cases += 1
            col.nontrivial += 1
            try:
                fails = fn(inp)
            except Exception as e:
                fails = [('b_rank.py', 'checker error', f'{type(e).__name__}: {e}')]
            if len(col.samples) < 1 and off == 3:
                col.samples.append(kind + ':' + json.dumps(_js(inp))[:160])
            for fid, clause, detail in fails:
                col.fail((0, start + off), fid, clause, detail, kind, inp, 'bounded_rank_models_replay')
    finally:
        if tmpdir:
            import shutil

            _RK.pop('syn_data', None)
            shutil.rmtree(tmpdir, ignore_errors=True)
    return col.export()


def bounded_rank_models(tier):
    _rank_env()   # build before forking so that the workers share the models
    col = _Collector()
    # The clause C_R_LRTDF ("degrees of freedom count ESTIMATED parameters only") was removed after
    # triage: the property speaks of "the difference in parameter count", which is what the code
    # computes (and what contracts/criteria.py proves); demanding estimated-only counts asked for more
    # than the property states (false alarm, see DESIGN.md section 5).
    dom = _rank_domain(tier)
    # expensive (mixed BIC) cases are spread evenly: interleave the chunks
    n = NPROC * 8
    idx = list(range(len(dom)))
    tasks = [(None, [(i, dom[i]) for i in idx[c::n]]) for c in range(n) if idx[c::n]]
    for part in _pool_map(_rank_worker_indexed, tasks):
        col.merge(part)
    misc = []
    for kind, inputs in (('ic', _ic_inputs()), ('lrt', _lrt_inputs(tier)), ('strict', _strict_inputs(tier)),
                         ('bicsyn', _bicsyn_inputs(tier))):
        pos = 0 if kind != 'bicsyn' else 10 ** 7     # the synthetic models come after every earlier case
        for ch in _chunks(inputs, {'ic': 4, 'bicsyn': 4 * NPROC}.get(kind, NPROC)):
            misc.append((kind, pos, ch))
            pos += len(ch)
    for part in _pool_map(_misc_worker, misc):
        col.merge(part)
    kmax = 4 if tier == 'thorough' else 3
    extra = (' and of 4 candidates x star/chain parent maps' if kmax > 3
             else ' restricted to star / chain / (base, c1, c1) in the quick tier')
    bound = (f'rank_models: base (pheno, 5 result statuses: OFV -10/0/5/NaN ok, -10 failed) + all multisets of <= {kmax} '
             f'candidates from 5 pheno variants (parameter-count differences -1,0,0,+1,+2) x 5 statuses for ofv, '
             f'<= {kmax - 1} for aic and bic fixed/random/iiv, <= 2 for bic mixed, cut-off None/3.84, penalties None/list; lrt: all ordered '
             f'<= 2 candidates x every parent map x p None/0.05/(0.05,0.01), multisets of 3 candidates x '
             f'parent-among-earlier maps{extra} (default p-values); '
             f'strictness ""/AMD default with 6 statuses; calculate_aic/bic on 10 variants x 3 OFVs and on synthetic '
             f'two-compartment models: every assignment of 6 forms (own theta and/or a theta shared between the '
             f'individual parameters, with/without eta) to {"CL, Q, V1, V2" if tier == "thorough" else "CL, Q, V1"} '
             f'(at least one eta) x 6 error model / FIX patterns (proportional, theta as sd, shared theta FIX, first '
             f'omega FIX, first omega 0 FIX, an own theta FIX) on a written data set of 3 individuals and 7 observations; '
             f'lrt functions on all '
             f'25 parent/child pairs x 3 alphas x 25 OFV pairs, best_of_many <= {3 if tier == "thorough" else 2} children '
             f'x 5 OFVs each; is_strictness_fulfilled: all 17 documented atoms x 6 operators on synthetic results grids')
    return col.result(bound)


def _rank_worker_indexed(task):
    _, items = task
    _rank_env()
    col = _Collector()
    for n, (i, inp) in enumerate(items):
        col.cases += 1
        try:
            fails = _rank_lrtdf_check(inp) if inp.get('lrtdf') else _rank_check(inp)
        except Exception as e:  # checker error: report, never hide
            fails = [('checker error', f'{type(e).__name__}: {e}')]
        if len(inp['cands']) >= 1:
            col.nontrivial += 1
        if len(col.samples) < 1 and n == 11:
            col.samples.append('rank:' + json.dumps(_js(inp))[:200])
        for clause, detail in fails:
            col.fail((len(inp['cands']), i), RANK_CLAUSE_FID.get(clause, FID_RANK), clause,
                     detail + ' | input ' + json.dumps(_js(inp)), 'rank', inp, 'bounded_rank_models_replay')
    return col.export()


def bounded_rank_models_replay(rp):
    case = rp['case']
    inp = _unjs(case['input'])
    clause = case['clause']
    kind = case['kind']
    _rank_env()
    if kind == 'rank':
        fails = _rank_lrtdf_check(inp) if inp.get('lrtdf') else _rank_check(inp)
        fails = [(c, d) for c, d in fails]
    else:
        fn = {'ic': _ic_check, 'lrt': _lrt_check, 'strict': _strict_check, 'bicsyn': _bicsyn_check}[kind]
        fails = [(c, d) for _, c, d in fn(inp)]
    for c, d in fails:
        if c == clause:
            return (False, d)
    return (True, 'ok')


# ================================================================================================
# (2) post-processing statistics of the resampling / diagnostic tools
# ================================================================================================

FID_BOOT = 'src/pharmpy/tools/bootstrap/results.py:calculate_results'
FID_COOK = 'src/pharmpy/tools/cdd/results.py:compute_cook_scores'
FID_JACK = 'src/pharmpy/tools/cdd/results.py:compute_jackknife_covariance_matrix'
FID_CRAT = 'src/pharmpy/tools/cdd/results.py:compute_covariance_ratios'
FID_CDD = 'src/pharmpy/tools/cdd/results.py:calculate_results'
FID_ESH = 'src/pharmpy/modeling/results.py:calculate_eta_shrinkage'
FID_ISH = 'src/pharmpy/modeling/results.py:calculate_individual_shrinkage'
FID_DELTA = 'src/pharmpy/internals/math.py:se_delta_method'

GRID = [-1.0, 0.5, 2.0]
PNAMES = ['A', 'B', 'C']


def _rot(names, k):
    k = k % len(names)
    return names[k:] + names[:k]


# ---- numpy-free reference statistics (plain python, per column) --------------------------------

def _r_mean(xs):
    return sum(xs) / len(xs)


def _r_median(xs):
    s = sorted(xs)
    n = len(s)
    return s[n // 2] if n % 2 else (s[n // 2 - 1] + s[n // 2]) / 2


def _r_var(xs):
    if len(xs) < 2:
        return NAN
    m = _r_mean(xs)
    return sum((x - m) ** 2 for x in xs) / (len(xs) - 1)


def _r_sd(xs):
    v = _r_var(xs)
    return NAN if math.isnan(v) else math.sqrt(v)


def _r_cov(xs, ys):
    if len(xs) < 2:
        return NAN
    mx, my = _r_mean(xs), _r_mean(ys)
    return sum((x - mx) * (y - my) for x, y in zip(xs, ys)) / (len(xs) - 1)


def _r_quantile(xs, q):
    """linear interpolation between the order statistics at position (n-1)*q"""
    s = sorted(xs)
    h = (len(s) - 1) * q
    lo = int(math.floor(h))
    hi = min(lo + 1, len(s) - 1)
    return s[lo] + (s[hi] - s[lo]) * (h - lo)


def _r_div(a, b):
    if _isnan(a) or _isnan(b):
        return NAN
    if b == 0:
        return NAN if a == 0 else math.copysign(math.inf, a)
    return a / b


DIST_LABELS = [('min', 0.0), ('0.05%', 0.0005), ('0.5%', 0.005), ('2.5%', 0.025), ('5%', 0.05), ('median', 0.5),
               ('95%', 0.95), ('97.5%', 0.975), ('99.5%', 0.995), ('99.95%', 0.9995), ('max', 1.0)]

C_B_EXC = 'bootstrap calculate_results raises no exception on complete replicate results'
C_B_STAT = 'parameter_statistics: mean, median, stderr (sample sd) and RSE = stderr/mean of each parameter over the replicates, matched by parameter NAME'
C_B_BIAS = 'parameter_statistics: bias = mean over the replicates - original estimate of the parameter with the same NAME'
C_B_DIST = 'parameter_distribution: min, max, median and the listed percentiles (linear interpolation between data points) per parameter'
C_B_COV = 'covariance_matrix is the sample covariance of the replicate estimates, labelled by parameter'
C_B_RAW = 'parameter_estimates is the table of replicate estimates (row = replicate, column = parameter NAME)'
C_B_OFVS = 'ofvs: original_bootdata_ofv = sum of original iOFVs over the included individuals (with multiplicity), delta_bootdata = original_bootdata_ofv - bootstrap_bootdata_ofv, delta_origdata = bootstrap_origdata_ofv - original OFV'
C_B_OFVSTAT = 'ofv_statistics and ofv_distribution: mean, median, sd and percentiles of each ofvs column (missing values skipped)'
C_B_FRAME = 'bootstrap calculate_results does not mutate the replicate or original results'

BOOT_OFV = [5.0, 6.5, 2.0, 9.25]
BOOT_INCL = [[1, 1, 2], [3, 3, 3], [1, 2, 3], [2, 3, 3]]
BOOT_DOFV = [11.0, None, 12.0, 9.5]
BOOT_ORIG = {'A': 1.0, 'B': 2.0, 'C': 3.5}
BOOT_IOFV = {1: 1.0, 2: 2.0, 3: 7.0}


def _boot_check(inp):
    import pandas as pd
    from pharmpy.tools.bootstrap.results import calculate_results
    from pharmpy.workflows.results import ModelfitResults

    rows = inp['rows']
    p, r = len(rows[0]), len(rows)
    names = PNAMES[:p]
    reps = []
    for k, row in enumerate(rows):
        order = _rot(names, k)          # same labels, different order from replicate to replicate
        vals = dict(zip(names, row))
        reps.append(ModelfitResults(ofv=BOOT_OFV[k], parameter_estimates=pd.Series({n: vals[n] for n in order})))
    orig = None
    if inp['orig']:
        orig = ModelfitResults(ofv=10.0, parameter_estimates=pd.Series({n: BOOT_ORIG[n] for n in names[::-1]}),
                               individual_ofv=pd.Series(BOOT_IOFV).rename_axis('ID'))
    incl = [list(x) for x in BOOT_INCL[:r]]
    dofv = [None if v is None else ModelfitResults(ofv=v) for v in BOOT_DOFV[:r]]
    snap = [s.parameter_estimates.to_dict() for s in reps]
    snap_order = [list(s.parameter_estimates.index) for s in reps]
    tag = f'replicates (rows, columns {names}) {rows}'
    try:
        res = calculate_results(None, reps, original_results=orig, included_individuals=incl, dofv_results=dofv)
    except Exception as e:
        return [(FID_BOOT, C_B_EXC, f'{tag}: raised {type(e).__name__}: {e}')]
    fails = []

    def add(clause, detail):
        if all(c != clause for _, c, _ in fails):
            fails.append((FID_BOOT, clause, f'{tag}: {detail}'))

    cols = {n: [row[i] for row in rows] for i, n in enumerate(names)}
    ps, pdist, cov, raw = res.parameter_statistics, res.parameter_distribution, res.covariance_matrix, res.parameter_estimates
    try:
        if sorted(ps.index) != sorted(names):
            add(C_B_STAT, f'index {list(ps.index)}')
        for n in names:
            xs = cols[n]
            want = {'mean': _r_mean(xs), 'median': _r_median(xs), 'stderr': _r_sd(xs)}
            want['RSE'] = _r_div(want['stderr'], want['mean'])
            for c, w in want.items():
                g = ps.loc[n, c]
                if not _close(g, w):
                    add(C_B_STAT, f'{c} of {n}: got {g}, formula {w}')
            wb = want['mean'] - BOOT_ORIG[n] if inp['orig'] else NAN
            if not _close(ps.loc[n, 'bias'], wb):
                add(C_B_BIAS, f"bias of {n}: got {ps.loc[n, 'bias']}, formula {wb}")
            for lab, q in DIST_LABELS:
                w = _r_quantile(xs, q)
                g = pdist.loc[n, lab]
                if not _close(g, w):
                    add(C_B_DIST, f'{lab} of {n}: got {g}, formula {w}')
            for n2 in names:
                w = _r_cov(xs, cols[n2])
                g = cov.loc[n, n2]
                if not _close(g, w):
                    add(C_B_COV, f'cov({n},{n2}): got {g}, formula {w}')
            for k in range(r):
                if not _close(raw[n].iloc[k], rows[k][names.index(n)]):
                    add(C_B_RAW, f'replicate {k} parameter {n}: got {raw[n].iloc[k]}, given {rows[k][names.index(n)]}')
    except Exception as e:
        add(C_B_STAT, f'result tables not indexed by parameter name: {type(e).__name__}: {e}')
    # ofvs
    try:
        ofvs = res.ofvs
        wantcols = {
            'bootstrap_bootdata_ofv': BOOT_OFV[:r],
            'original_bootdata_ofv': [sum(BOOT_IOFV[i] for i in incl[k]) if inp['orig'] else NAN for k in range(r)],
            'bootstrap_origdata_ofv': [NAN if v is None else v for v in BOOT_DOFV[:r]],
        }
        wantcols['delta_bootdata'] = [a - b for a, b in zip(wantcols['original_bootdata_ofv'],
                                                            wantcols['bootstrap_bootdata_ofv'])]
        wantcols['delta_origdata'] = [(a - 10.0) if inp['orig'] else NAN for a in wantcols['bootstrap_origdata_ofv']]
        if inp['orig']:
            wantcols['original_origdata_ofv'] = [10.0] * r
        for c, ws in wantcols.items():
            gs = [float(x) for x in ofvs[c].tolist()]
            if len(gs) != r or not all(_close(g, w) for g, w in zip(gs, ws)):
                add(C_B_OFVS, f'{c}: got {gs}, definition {ws}')
        ost, odist = res.ofv_statistics, res.ofv_distribution
        for c, ws in wantcols.items():
            xs = [w for w in ws if not math.isnan(w)]
            if not xs:
                want = {'mean': NAN, 'median': NAN, 'stderr': NAN}
            else:
                want = {'mean': _r_mean(xs), 'median': _r_median(xs), 'stderr': _r_sd(xs)}
            for k2, w in want.items():
                if not _close(ost.loc[c, k2], w):
                    add(C_B_OFVSTAT, f'ofv_statistics {k2} of {c}: got {ost.loc[c, k2]}, formula {w}')
            for lab, q in DIST_LABELS:
                w = _r_quantile(xs, q) if xs else NAN
                if not _close(odist.loc[c, lab], w):
                    add(C_B_OFVSTAT, f'ofv_distribution {lab} of {c}: got {odist.loc[c, lab]}, formula {w}')
    except Exception as e:
        add(C_B_OFVS, f'ofv tables: {type(e).__name__}: {e}')
    after = [s.parameter_estimates.to_dict() for s in reps]
    if after != snap or [list(s.parameter_estimates.index) for s in reps] != snap_order or incl != BOOT_INCL[:r]:
        add(C_B_FRAME, 'an input changed')
    return fails


def _tables(p, rmin, rmax):
    """all multisets of rmin..rmax row vectors over GRID^p (rows in alternating order to avoid sorted input only)"""
    vecs = list(itertools.product(GRID, repeat=p))
    out = []
    for r in range(rmin, rmax + 1):
        for i, ms in enumerate(itertools.combinations_with_replacement(vecs, r)):
            rows = [list(v) for v in ms]
            if i % 2:
                rows.reverse()
            out.append(rows)
    return out


def _boot_inputs(tier):
    thorough = tier == 'thorough'
    dom = []
    for p, rmax in ((1, 4), (2, 4), (3, 4 if thorough else 2)):
        for rows in _tables(p, 1, rmax):
            dom.append(dict(rows=rows, orig=True))
    for rows in _tables(2, 1, 2):
        dom.append(dict(rows=rows, orig=False))
    return dom


# ---- cdd --------------------------------------------------------------------------------------

COVS = {
    1: [[0.25]],
    2: [[1.0, 0.3], [0.3, 2.0]],
    3: [[2.0, 0.5, 0.0], [0.5, 1.0, 0.2], [0.0, 0.2, 4.0]],
}
COVS_ALT = {
    1: [[4.0]],
    2: [[0.5, -0.1], [-0.1, 0.25]],
    3: [[1.0, 0.0, 0.3], [0.0, 3.0, 0.0], [0.3, 0.0, 0.5]],
}
CDD_BASE = {'A': 0.5, 'B': 1.0, 'C': -0.25}
C_K_FORM = 'Cook score_i = sqrt((P_i - P_orig)^T cov(P_orig)^-1 (P_i - P_orig)) (all labels in the same order)'
C_K_NAME = 'Cook score matches estimates and covariance by parameter NAME when base estimates, case estimates and covariance matrix list the same labels in different orders'
C_J_FORM = 'jackknife covariance_{j,k} = (N-1)/N * sum_i (p_ij - mean_j)(p_ik - mean_k), labelled by parameter'
C_CR_FORM = 'covariance ratio_i = sqrt(det(cov(P_i)) / det(cov(P_orig))), NaN for a case without results or covariance matrix'
C_CDD_EXC = 'cdd calculate_results raises no exception when the base model has results'
C_CDD_COOK = 'case_results.cook_score follows the Cook score formula, NaN for a case without results (all labels in the same order)'
C_CDD_COOK_NAME = 'case_results.cook_score matches base estimates, case estimates and covariance matrix by parameter NAME when they list the labels in different orders'
C_CDD_JACK = 'case_results.jackknife_cook_score is the Cook score under the jackknife covariance matrix'
C_CDD_DOFV = 'case_results.delta_ofv = OFV_all - sum of iOFV of the skipped individuals - OFV_k'
C_CDD_CRAT = 'case_results.covariance_ratio follows the covariance ratio formula'
C_CDD_IDX = 'case_results has one row per case numbered from 1 and lists the skipped individuals'


def _mat_inv_quad(cov, d):
    """d^T cov^-1 d by Gaussian elimination (plain python)"""
    n = len(d)
    a = [list(map(float, cov[i])) + [float(d[i])] for i in range(n)]
    for c in range(n):
        piv = max(range(c, n), key=lambda r: abs(a[r][c]))
        a[c], a[piv] = a[piv], a[c]
        for r in range(c + 1, n):
            f = a[r][c] / a[c][c]
            for k in range(c, n + 1):
                a[r][k] -= f * a[c][k]
    x = [0.0] * n
    for r in range(n - 1, -1, -1):
        x[r] = (a[r][n] - sum(a[r][k] * x[k] for k in range(r + 1, n))) / a[r][r]
    return sum(di * xi for di, xi in zip(d, x))


def _det(m):
    n = len(m)
    a = [list(map(float, row)) for row in m]
    det = 1.0
    for c in range(n):
        piv = max(range(c, n), key=lambda r: abs(a[r][c]))
        if a[piv][c] == 0:
            return 0.0
        if piv != c:
            a[c], a[piv] = a[piv], a[c]
            det = -det
        det *= a[c][c]
        for r in range(c + 1, n):
            f = a[r][c] / a[c][c]
            for k in range(c, n):
                a[r][k] -= f * a[c][k]
    return det


def _ref_cook(names, base, rows, cov):
    return [math.sqrt(_mat_inv_quad(cov, [row[i] - base[n] for i, n in enumerate(names)])) for row in rows]


def _ref_jack(rows):
    n, p = len(rows), len(rows[0])
    means = [sum(r[j] for r in rows) / n for j in range(p)]
    return [[(n - 1) / n * sum((r[j] - means[j]) * (r[k] - means[k]) for r in rows) for k in range(p)]
            for j in range(p)]


def _labelled(mat, names, order):
    import pandas as pd

    df = pd.DataFrame(mat, index=names, columns=names)
    return df.loc[order, order]


def _cook_check(inp):
    import pandas as pd
    from pharmpy.tools.cdd.results import compute_cook_scores, compute_jackknife_covariance_matrix

    rows = inp['rows']
    p = len(rows[0])
    names = PNAMES[:p]
    ob, oc, ov = (_rot(names, 1) if inp['perm'] == w else names for w in ('base', 'cdd', 'cov'))
    base = pd.Series({n: CDD_BASE[n] for n in ob})
    cdd = pd.DataFrame(rows, columns=names)[oc]
    cov = _labelled(COVS[p], names, ov)
    tag = f"base {base.to_dict()} cases (columns {names}) {rows} cov {COVS[p]} label orders base={ob} cases={oc} cov={ov}"
    fails = []
    clause = C_K_FORM if inp['perm'] == 'none' else C_K_NAME
    want = _ref_cook(names, CDD_BASE, rows, COVS[p])
    snap = (base.to_dict(), cdd.values.tolist(), cov.values.tolist())
    try:
        got = compute_cook_scores(base, cdd, cov)
        if got is None or len(got) != len(rows) or not all(_close(g, w) for g, w in zip(got, want)):
            fails.append((FID_COOK, clause, f'{tag}: got {None if got is None else [float(g) for g in got]}, formula {want}'))
    except Exception as e:
        fails.append((FID_COOK, clause, f'{tag}: raised {type(e).__name__}: {e}'))
    if (base.to_dict(), cdd.values.tolist(), cov.values.tolist()) != snap:
        fails.append((FID_COOK, clause, f'{tag}: an input was mutated'))
    if inp['perm'] in ('none', 'cdd'):
        wj = _ref_jack(rows)
        try:
            gj = compute_jackknife_covariance_matrix(cdd)
            ok = sorted(gj.index) == sorted(names) and sorted(gj.columns) == sorted(names)
            ok = ok and all(_close(gj.loc[a, b], wj[i][j]) for i, a in enumerate(names) for j, b in enumerate(names))
            if not ok:
                fails.append((FID_JACK, C_J_FORM, f'case estimates (columns {oc}) {cdd.values.tolist()}: got '
                                                  f'{gj.to_dict()}, formula {wj} for columns {names}'))
        except Exception as e:
            fails.append((FID_JACK, C_J_FORM, f'{tag}: raised {type(e).__name__}: {e}'))
    return fails


def _cook_inputs(tier):
    thorough = tier == 'thorough'
    dom = []
    for p, rmax in ((1, 4), (2, 4), (3, 4 if thorough else 2)):
        for rows in _tables(p, 1, rmax):
            for perm in (('none',) if p == 1 else ('none', 'base', 'cdd', 'cov')):
                dom.append(dict(rows=rows, perm=perm))
    return dom


CRAT_OPTIONS = ['nores', 'nocov', 'half', 'double', 'alt']


def _crat_cov(p, opt):
    if opt == 'half':
        return [[0.5 * x for x in row] for row in COVS[p]]
    if opt == 'double':
        return [[2.0 * x for x in row] for row in COVS[p]]
    return COVS_ALT[p]


def _crat_check(inp):
    import pandas as pd
    from pharmpy.tools.cdd.results import compute_covariance_ratios
    from pharmpy.workflows.results import ModelfitResults

    p = inp['p']
    names = PNAMES[:p]
    ress, want = [], []
    for k, opt in enumerate(inp['cases']):
        if opt == 'nores':
            ress.append(None)
            want.append(NAN)
        elif opt == 'nocov':
            ress.append(ModelfitResults(ofv=1.0))
            want.append(NAN)
        else:
            m = _crat_cov(p, opt)
            ress.append(ModelfitResults(ofv=1.0, covariance_matrix=_labelled(m, names, _rot(names, k))))
            want.append(math.sqrt(_det(m) / _det(COVS[p])))
    cov = _labelled(COVS[p], names, names)
    tag = f"p={p} cases {inp['cases']} (half/double = 0.5x/2x the original covariance {COVS[p]}, alt = {COVS_ALT[p]})"
    try:
        got = compute_covariance_ratios(ress, cov)
        if got is None or len(got) != len(want) or not all(_close(g, w) for g, w in zip(got, want)):
            return [(FID_CRAT, C_CR_FORM, f'{tag}: got {got}, formula {want}')]
    except Exception as e:
        return [(FID_CRAT, C_CR_FORM, f'{tag}: raised {type(e).__name__}: {e}')]
    return []


def _crat_inputs(tier):
    dom = []
    for p in (1, 2, 3):
        for n in range(1, 4):
            for cases in itertools.product(CRAT_OPTIONS, repeat=n):
                dom.append(dict(p=p, cases=list(cases)))
    return dom


class _Named:
    def __init__(self, name):
        self.name = name


CDD_IOFV = {1: 1.0, 2: 2.5, 3: 7.0, 4: 0.5}
CDD_OFVK = [8.0, 7.25, 2.0, 9.0]


def _cdd_check(inp):
    import pandas as pd
    from pharmpy.tools.cdd.results import calculate_results
    from pharmpy.workflows.results import ModelfitResults

    rows = inp['rows']
    p, n = len(rows[0]), len(rows)
    names = PNAMES[:p]
    permuted = inp['perm']
    ob = _rot(names, 1) if permuted else names
    base = ModelfitResults(
        ofv=10.0, parameter_estimates=pd.Series({k: CDD_BASE[k] for k in ob}),
        covariance_matrix=_labelled(COVS[p], names, names),
        individual_ofv=pd.Series(CDD_IOFV).rename_axis('ID'))
    models = [_Named(f'cdd_{k + 1}') for k in range(n)]
    ress, skipped = [], []
    covopts = ['half', 'nocov', 'alt', 'double']
    for k, row in enumerate(rows):
        order = _rot(names, k) if permuted else names
        vals = dict(zip(names, row))
        kw = {}
        if covopts[k] != 'nocov':
            kw['covariance_matrix'] = _labelled(_crat_cov(p, covopts[k]), names, order)
        if k == inp.get('missing'):
            ress.append(None)
        else:
            ress.append(ModelfitResults(ofv=CDD_OFVK[k], parameter_estimates=pd.Series({m: vals[m] for m in order}), **kw))
        skipped.append([k + 1] if k != 2 else [3, 4])
    tag = (f"base { {k: CDD_BASE[k] for k in ob} } cases (columns {names}) {rows} missing={inp.get('missing')} "
           f"label order varies={permuted}")
    try:
        res = calculate_results(None, base, models, ress, 'ID', [list(s) for s in skipped])
    except Exception as e:
        return [(FID_CDD, C_CDD_EXC, f'{tag}: raised {type(e).__name__}: {e}')]
    cr = res.case_results
    fails = []

    def add(clause, detail):
        if all(c != clause for _, c, _ in fails):
            fails.append((FID_CDD, clause, f'{tag}: {detail}'))

    if list(cr.index) != list(range(1, n + 1)) or [list(x) for x in cr['skipped_individuals']] != skipped:
        add(C_CDD_IDX, f"index {list(cr.index)} skipped {cr['skipped_individuals'].tolist()}")
        return fails
    present = [k for k in range(n) if ress[k] is not None]
    cook = _ref_cook(names, CDD_BASE, rows, COVS[p])
    for k in range(n):
        w = cook[k] if k in present else NAN
        g = cr['cook_score'].iloc[k]
        if not _close(g, w):
            add(C_CDD_COOK_NAME if permuted else C_CDD_COOK, f'case {k + 1}: got {g}, formula {w}')
        tot = sum(CDD_IOFV.values()) - sum(CDD_IOFV[i] for i in skipped[k])
        w = tot - CDD_OFVK[k] if k in present else NAN
        g = cr['delta_ofv'].iloc[k]
        if not _close(g, w):
            add(C_CDD_DOFV, f'case {k + 1}: got {g}, formula {w}')
        w = NAN
        if k in present and covopts[k] != 'nocov':
            w = math.sqrt(_det(_crat_cov(p, covopts[k])) / _det(COVS[p]))
        g = cr['covariance_ratio'].iloc[k]
        if not _close(g, w):
            add(C_CDD_CRAT, f'case {k + 1}: got {g}, formula {w}')
    if len(present) == n:
        jk = _ref_jack(rows)
        d = _det(jk)
        scale = 1.0
        for i in range(p):
            scale *= jk[i][i]
        if scale > 0 and d > 1e-6 * scale:      # jackknife matrix safely positive definite
            wj = _ref_cook(names, CDD_BASE, rows, jk)
            gj = cr['jackknife_cook_score'].tolist()
            if gj is None or any(g is None for g in gj) or not all(_close(g, w, 1e-7, 1e-9) for g, w in zip(gj, wj)):
                add(C_CDD_JACK, f'got {gj}, formula {wj}')
    return fails


def _cdd_inputs(tier):
    thorough = tier == 'thorough'
    dom = []
    for p, rmax in ((1, 4), (2, 4 if thorough else 3)):
        for rows in _tables(p, 1, rmax):
            for perm in ((False,) if p == 1 else (False, True)):
                for missing in [None] + list(range(len(rows))):
                    dom.append(dict(rows=rows, perm=perm, missing=missing))
    return dom


# ---- shrinkage --------------------------------------------------------------------------------

ETA_GRID = [-0.3, 0.1, 0.4]
OMEGA_GRID = [0.04, 0.09]
C_E_VAR = 'eta shrinkage = 1 - var(eta)/omega with omega the variance parameter of that eta (individual estimates columns in model order)'
C_E_SD = 'eta shrinkage (sd=True) = 1 - sd(eta)/sqrt(omega)'
C_E_NAME = 'eta shrinkage pairs each individual-estimates column with the omega of the eta of the same NAME whatever the order of columns and of the parameter estimates'
C_E_FIX = 'eta shrinkage uses the model value of a FIXed omega that is absent from the parameter estimates'
C_I_FORM = 'individual shrinkage = var_i(eta)/omega for each individual and eta (matrix labels in model order)'
C_I_NAME = 'individual shrinkage pairs var_i(eta) with the omega of the eta of the same NAME whatever the label order of the individual covariance matrices'


def _esh_check(inp):
    import pandas as pd
    from pharmpy.modeling import calculate_eta_shrinkage

    env = _rank_env()
    variant = inp['variant']
    model = env['variants'][variant]
    etas = ['ETA_CL', 'ETA_VC']
    omega = {'ETA_CL': inp['om'][0], 'ETA_VC': inp['om'][1]}
    pe = {'POP_CL': 0.005, 'POP_VC': 1.0, 'COVAPGR': 0.1, 'IIV_CL': omega['ETA_CL'], 'IIV_VC': omega['ETA_VC'],
          'SIGMA': 0.013}
    if variant == 'fix':
        del pe['IIV_CL']
        omega['ETA_CL'] = model.parameters['IIV_CL'].init
    pnames = list(pe)
    if inp['pe_rev']:
        pnames = pnames[::-1]
    pes = pd.Series({n: pe[n] for n in pnames})
    rows = inp['rows']
    cols = etas[::-1] if inp['col_rev'] else etas
    ie = pd.DataFrame(rows, columns=etas, index=pd.Index(range(1, len(rows) + 1), name='ID'))[cols]
    tag = f"variant {variant} estimates { {n: pe[n] for n in pnames} } individual estimates columns {cols} rows(ETA_CL,ETA_VC) {rows}"
    fails = []
    for sd in (False, True):
        if inp['col_rev'] or inp['pe_rev']:
            clause = C_E_NAME
        elif variant == 'fix':
            clause = C_E_FIX
        else:
            clause = C_E_SD if sd else C_E_VAR
        want = {}
        for j, e in enumerate(etas):
            xs = [r[j] for r in rows]
            want[e] = 1 - (_r_sd(xs) / math.sqrt(omega[e]) if sd else _r_var(xs) / omega[e])
        try:
            got = calculate_eta_shrinkage(model, pes, ie, sd=sd)
            if sorted(got.index) != sorted(etas) or not all(_close(got[e], want[e]) for e in etas):
                fails.append((FID_ESH, clause, f'{tag} sd={sd}: got {got.to_dict()}, formula {want}'))
        except Exception as e:
            fails.append((FID_ESH, clause, f'{tag} sd={sd}: raised {type(e).__name__}: {e}'))
    return fails


def _esh_inputs(tier):
    thorough = tier == 'thorough'
    dom = []
    vecs = list(itertools.product(ETA_GRID, repeat=2))
    for n in range(2, (5 if thorough else 4) + 1):
        for ms in itertools.combinations_with_replacement(vecs, n):
            rows = [list(v) for v in ms]
            for om in itertools.product(OMEGA_GRID, repeat=2):
                for variant, col_rev, pe_rev in (('pheno', False, False), ('pheno', True, False), ('pheno', False, True),
                                                 ('fix', False, False)):
                    if n == 4 and not thorough and om != (0.04, 0.09):
                        continue
                    dom.append(dict(rows=rows, om=list(om), variant=variant, col_rev=col_rev, pe_rev=pe_rev))
    return dom


IVAR_GRID = [0.01, 0.02, 0.05]


def _ish_check(inp):
    import pandas as pd
    from pharmpy.modeling import calculate_individual_shrinkage

    env = _rank_env()
    model = env['variants']['pheno']
    etas = ['ETA_CL', 'ETA_VC']
    omega = {'ETA_CL': inp['om'][0], 'ETA_VC': inp['om'][1]}
    pes = pd.Series({'POP_CL': 0.005, 'POP_VC': 1.0, 'COVAPGR': 0.1, 'IIV_CL': omega['ETA_CL'],
                     'IIV_VC': omega['ETA_VC'], 'SIGMA': 0.013})
    mats, want = [], []
    for k, (v1, v2) in enumerate(inp['vars']):
        order = etas[::-1] if (inp['perm'] and k % 2 == 1) else etas
        mats.append(_labelled([[v1, 0.001], [0.001, v2]], etas, order))
        want.append({'ETA_CL': v1 / omega['ETA_CL'], 'ETA_VC': v2 / omega['ETA_VC']})
    ids = list(range(1, len(mats) + 1))
    covs = pd.Series(mats, index=pd.Index(ids, name='ID'), dtype=object)
    clause = C_I_NAME if inp['perm'] else C_I_FORM
    tag = f"omegas {omega} individual variances (ETA_CL,ETA_VC) {inp['vars']} odd individuals' matrix labels reversed={inp['perm']}"
    try:
        got = calculate_individual_shrinkage(model, pes, covs)
        ok = list(got.index) == ids and sorted(got.columns) == sorted(etas)
        ok = ok and all(_close(got.loc[i, e], want[i - 1][e]) for i in ids for e in etas)
        if not ok:
            return [(FID_ISH, clause, f'{tag}: got {got.to_dict("index")}, formula {want}')]
    except Exception as e:
        return [(FID_ISH, clause, f'{tag}: raised {type(e).__name__}: {e}')]
    return []


def _ish_inputs(tier):
    dom = []
    vecs = list(itertools.product(IVAR_GRID, repeat=2))
    for n in range(1, (4 if tier == 'thorough' else 3) + 1):
        for vs in itertools.product(vecs, repeat=n):
            if n == 3 and tier != 'thorough' and vs[2] != vecs[5]:
                continue
            for om in ((0.04, 0.09), (0.09, 0.04)):
                for perm in ((False, True) if n >= 2 else (False,)):
                    dom.append(dict(vars=[list(v) for v in vs], om=list(om), perm=perm))
    return dom


# ---- delta method ---------------------------------------------------------------------------

C_D_FORM = 'se = sqrt(g^T cov g) with g the gradient of the expression at the estimates, parameters matched by NAME (cov may list more parameters, in any order)'
DELTA_EXPRS = {
    'A': lambda a, b, c: (1.0, 0.0, 0.0),
    '3*A': lambda a, b, c: (3.0, 0.0, 0.0),
    'A + B': lambda a, b, c: (1.0, 1.0, 0.0),
    'A - B': lambda a, b, c: (1.0, -1.0, 0.0),
    'A*B': lambda a, b, c: (b, a, 0.0),
    'A/B': lambda a, b, c: (1 / b, -a / b ** 2, 0.0),
    'B/A': lambda a, b, c: (-b / a ** 2, 1 / a, 0.0),
    'exp(A)*B': lambda a, b, c: (math.exp(a) * b, math.exp(a), 0.0),
    'A**2 + C': lambda a, b, c: (2 * a, 0.0, 1.0),
    'A*B + C': lambda a, b, c: (b, a, 1.0),
    'C*exp(B)/A': lambda a, b, c: (-c * math.exp(b) / a ** 2, c * math.exp(b) / a, math.exp(b) / a),
    'sqrt(C**2)*A': lambda a, b, c: (abs(c), 0.0, a * (1 if c > 0 else -1)),
}


def _delta_check(inp):
    import pandas as pd
    import sympy
    from pharmpy.internals.math import se_delta_method

    names = PNAMES
    vals = dict(zip(names, inp['vals']))
    expr = sympy.sympify(inp['expr'], locals={n: sympy.Symbol(n) for n in names})
    cov = _labelled(COVS[3] if inp['cov'] == 0 else COVS_ALT[3], names, _rot(names, inp['rot']))
    cm = COVS[3] if inp['cov'] == 0 else COVS_ALT[3]
    g = DELTA_EXPRS[inp['expr']](*inp['vals'])
    want = math.sqrt(sum(g[i] * cm[i][j] * g[j] for i in range(3) for j in range(3)))
    values = pd.Series({n: vals[n] for n in _rot(names, 2)}) if inp['series'] else dict(vals)
    tag = f"expr {inp['expr']} at {vals} cov {cm} cov label order {list(cov.columns)} values as {'Series' if inp['series'] else 'dict'}"
    snap = cov.values.tolist()
    try:
        got = se_delta_method(expr, values, cov)
        if not _close(got, want):
            return [(FID_DELTA, C_D_FORM, f'{tag}: got {got}, formula {want}')]
        if cov.values.tolist() != snap:
            return [(FID_DELTA, C_D_FORM, f'{tag}: covariance matrix mutated')]
    except Exception as e:
        return [(FID_DELTA, C_D_FORM, f'{tag}: raised {type(e).__name__}: {e}')]
    return []


def _delta_inputs(tier):
    dom = []
    for expr in DELTA_EXPRS:
        for vals in itertools.product(GRID, repeat=3):
            for cov in (0, 1):
                for rot in (0, 1, 2):
                    for series in (False, True):
                        if tier != 'thorough' and series and rot != 1:
                            continue
                        dom.append(dict(expr=expr, vals=list(vals), cov=cov, rot=rot, series=series))
    return dom


STAT_KINDS = {
    'boot': (_boot_check, _boot_inputs, 8),
    'cook': (_cook_check, _cook_inputs, 4),
    'crat': (_crat_check, _crat_inputs, 2),
    'cdd': (_cdd_check, _cdd_inputs, 8),
    'esh': (_esh_check, _esh_inputs, 8),
    'ish': (_ish_check, _ish_inputs, 4),
    'delta': (_delta_check, _delta_inputs, 8),
}


def _stat_worker(task):
    kind, items = task
    fn = STAT_KINDS[kind][0]
    if kind in ('esh', 'ish'):
        _rank_env()
    col = _Collector()
    for n, (i, inp) in enumerate(items):
        col.cases += 1
        col.nontrivial += 1
        try:
            fails = fn(inp)
        except Exception as e:
            fails = [('contracts/b_rank.py', 'checker error', f'{type(e).__name__}: {e} on {inp}')]
        if not col.samples and n == 2:
            col.samples.append(kind + ':' + json.dumps(_js(inp))[:160])
        for fid, clause, detail in fails:
            col.fail((0, i), fid, clause, detail, kind, inp, 'bounded_tool_statistics_replay')
    return col.export()


def bounded_tool_statistics(tier):
    _rank_env()
    col = _Collector()
    tasks = []
    for kind, (fn, gen, nchunks) in STAT_KINDS.items():
        inputs = list(enumerate(gen(tier)))
        nch = nchunks * 2
        for c in range(nch):
            part = inputs[c::nch]
            if part:
                tasks.append((kind, part))
    # longest tasks (bootstrap) first
    for part in _pool_map(_stat_worker, tasks):
        col.merge(part)
    th = tier == 'thorough'
    bound = (f'all tables (multisets of rows) over the grid {GRID}: bootstrap <= 2 parameters x <= 4 replicates and 3 x <= '
             f'{4 if th else 2} (every replicate lists the labels in a different order); Cook score / jackknife <= 3 parameters '
             f'x <= {4 if th else 2} cases (p<3: 4) x 4 label-order arrangements; covariance ratios <= 3 cases x 5 kinds x p<=3; '
             f'cdd calculate_results <= 2 parameters x <= {4 if th else 3} cases x missing case; eta shrinkage: 2 etas x '
             f'{2}-{5 if th else 4} individuals over {ETA_GRID} x omegas {OMEGA_GRID}^2 x column/label orders x FIXed omega; '
             f'individual shrinkage <= {4 if th else 3} individuals over {IVAR_GRID}^2; delta method: {len(DELTA_EXPRS)} '
             f'expressions x grid^3 x 2 covariance matrices x 3 label orders')
    return col.result(bound)


def bounded_tool_statistics_replay(rp):
    case = rp['case']
    inp = _unjs(case['input'])
    fn = STAT_KINDS[case['kind']][0]
    if case['kind'] in ('esh', 'ish'):
        _rank_env()
    for _, c, d in fn(inp):
        if c == case['clause']:
            return (False, d)
    return (True, 'ok')


# ================================================================================================
# (3) NONMEM output tables (C20)
# ================================================================================================

FID_TF = 'src/pharmpy/model/external/nonmem/table.py:NONMEMTableFile._parse_table'
FID_EXT = 'src/pharmpy/model/external/nonmem/table.py:ExtTable'
FID_PHI = 'src/pharmpy/model/external/nonmem/table.py:PhiTable'
FID_COV = 'src/pharmpy/model/external/nonmem/table.py:CovTable.data_frame'
FID_TAB = 'src/pharmpy/model/external/nonmem/table.py:NONMEMTable'
FID_MMATH = 'src/pharmpy/modeling/math.py'
FID_TRI = 'src/pharmpy/internals/math.py:triangular_root'
FID_F2S = 'src/pharmpy/internals/math.py:flattened_to_symmetric'
FID_JSON = 'src/pharmpy/workflows/results.py:ResultsJSONEncoder'
FID_JSON_DF = 'src/pharmpy/workflows/results.py:_df_to_json'
FID_JSON_READ = 'src/pharmpy/workflows/results.py:read_results'
FID_MFR = 'src/pharmpy/workflows/results.py:ModelfitResults'
FID_PARSE = 'src/pharmpy/tools/external/nonmem/results.py:_parse_modelfit_results'

# ---- reference renderer (docs/NONMEM.rst and the example files pheno.ext / pheno.phi / pheno.cov) --

ITER_FINAL, ITER_SE, ITER_EIG, ITER_COND, ITER_SDC, ITER_SESDC, ITER_FIX, ITER_TERM, ITER_GRD = (
    -1000000000, -1000000001, -1000000002, -1000000003, -1000000004, -1000000005, -1000000006, -1000000007,
    -1000000008)
# printed tokens (1PE13.5 style); the reference value of a cell is float(token)
ETOKENS = ['4.69307E-03', '1.00916E+00', '-1.58920E-01', '1.30865E-02', '-7.29745E-01', '3.11280E-02',
           '2.93508E+02', '9.99999E+05', '-2.17770E-02', '1.23457E-15', '5.00000E+00', '-6.80894E-03', '8.37555E-02']
OBJTOKENS = ['587.36644134661617', '-1234.5678901234567', '12.970590911348660', '-0.12345678901234567',
             '5.9473520224225034', '100000.00000000000', '0.91847204695940881']
METHODS = [
    ('First Order Conditional Estimation with Interaction', None, 'MINIMUM VALUE OF OBJECTIVE FUNCTION', 'OBJ'),
    ('First Order Conditional Estimation with Interaction (Evaluation)', None, 'MINIMUM VALUE OF OBJECTIVE FUNCTION', 'OBJ'),
    ('Objective Function Evaluation by Importance Sampling', None, 'FINAL VALUE OF OBJECTIVE FUNCTION', 'OBJ'),
    ('Stochastic Approximation Expectation-Maximization', None, 'FINAL VALUE OF LIKELIHOOD FUNCTION', 'SAEMOBJ'),
    ('MCMC Bayesian Analysis', None, 'AVERAGE VALUE OF LIKELIHOOD FUNCTION', 'MCMCOBJ'),
    ('First Order (Evaluation)', 'D-OPTIMALITY', 'MINIMUM VALUE OF OBJECTIVE FUNCTION', 'OBJ'),
    ('First Order', None, None, 'OBJ'),
]


def _title(number, method, design, goal, problem=1, sub=0, sup1=0, it1=0, sup2=0, it2=0):
    s = 'TABLE NO. %5d: %s' % (number, method)
    if design:
        s += ': ' + design
    if goal:
        s += ': Goal Function=' + goal
    s += ': Problem=%d Subproblem=%d Superproblem1=%d Iteration1=%d Superproblem2=%d Iteration2=%d' % (
        problem, sub, sup1, it1, sup2, it2)
    return s


def _header(names):
    return ' ' + ''.join(n.ljust(13) for n in names[:-1]) + names[-1]


def _par_labels(ntheta, omega):
    """file order (THETA, SIGMA, OMEGA) and pharmpy order (THETA(n), OMEGA, SIGMA)"""
    thetas = [f'THETA{i}' for i in range(1, ntheta + 1)]
    omegas = ['OMEGA(1,1)'] if omega == 'diag1' else ['OMEGA(1,1)', 'OMEGA(2,1)', 'OMEGA(2,2)']
    sigmas = ['SIGMA(1,1)']
    file_order = thetas + sigmas + omegas
    parsed = [f'THETA({i})' for i in range(1, ntheta + 1)] + omegas + sigmas
    to_parsed = dict(zip(thetas, parsed[:ntheta]))
    return file_order, parsed, lambda n: to_parsed.get(n, n)


def _tok(i):
    return ETOKENS[i % len(ETOKENS)]


def _ext_table_spec(cfg, number):
    """rows of an ext table: list of (iteration, {file label: token}, objtoken)"""
    ntheta, omega, fixed, iters, mask, vs, meth = (cfg['ntheta'], cfg['omega'], cfg['fixed'], cfg['iters'],
                                                   cfg['mask'], cfg['vs'], cfg['method'])
    file_order, parsed, ren = _par_labels(ntheta, omega)
    fixset = {0: [], 1: [file_order[ntheta - 1]], 2: [file_order[-1] if omega == 'diag1' else 'OMEGA(2,1)'],
              3: ['SIGMA(1,1)']}[fixed]
    rows = []
    seed = vs * 5 + number * 3

    def row(it, k, obj=None, zero_theta=False, flags=None):
        cells = {}
        for j, lab in enumerate(file_order):
            if flags is not None:
                cells[lab] = '1.00000E+00' if lab in flags else '0.00000E+00'
            elif zero_theta and lab.startswith('THETA'):
                cells[lab] = '0.00000E+00'
            else:
                cells[lab] = _tok(seed + k * 7 + j * 3)
        rows.append((it, cells, obj if obj is not None else '0.0000000000000000'))

    for k, it in enumerate(iters):
        row(it, k, OBJTOKENS[(seed + k) % len(OBJTOKENS)])
    has = lambda b: bool(mask & (1 << b))  # noqa
    if has(0):
        row(ITER_FINAL, 10, OBJTOKENS[(seed + 4) % len(OBJTOKENS)])
    if has(1):
        row(ITER_SE, 11)
        row(ITER_EIG, 12)
    if has(2):
        row(ITER_COND, 13)
    if has(3):
        row(ITER_SDC, 14, zero_theta=True)
        row(ITER_SESDC, 15, zero_theta=True)
    if has(4):
        row(ITER_FIX, 16, flags=fixset)
        row(ITER_TERM, 17)
        row(ITER_GRD, 18)
    return dict(number=number, method=METHODS[meth], file_order=file_order, parsed=parsed, ren=ren, rows=rows,
                problem=1 + (number - 1) % 2, sub=(number - 1))


def _render_ext(tables):
    lines = []
    for t in tables:
        m, design, goal, objname = t['method']
        lines.append(_title(t['number'], m, design, goal, problem=t['problem'], sub=t['sub']))
        lines.append(_header(['ITERATION'] + t['file_order'] + [objname]))
        for it, cells, obj in t['rows']:
            lines.append('%13d' % it + ''.join(cells[lab].rjust(13) for lab in t['file_order']) + obj.rjust(22))
    return '\n'.join(lines) + '\n'


C_TF_SPLIT = 'a table file is split into one table per "TABLE NO." line, in order, with the table number of that line'
C_TF_META = 'method, design optimality, goal function, problem, subproblem, superproblem and iteration numbers are those of the "TABLE NO." line'
C_TF_EVAL = 'is_evaluation is True exactly for tables whose method is marked "(Evaluation)"'
C_X_DF = 'ExtTable.data_frame has the written rows in order: ITERATION, every parameter under its label (THETA(n), OMEGA(i,j), SIGMA(i,j)) and OBJ equal to the printed numbers'
C_X_ITER = 'ExtTable.iterations lists the written non-negative iteration numbers in order'
C_X_FINAL = 'final_parameter_estimates is the row -1000000000, or the last iteration when that row is absent'
C_X_SE = 'standard_errors is the row -1000000001 (KeyError when absent)'
C_X_FIX = 'fixed holds the flags of row -1000000006 as booleans (KeyError when absent)'
C_X_OFV = 'final_ofv is OBJ of row -1000000000 or else of the last iteration; initial_ofv is OBJ of iteration 0 or else of row -1000000000'
C_X_AUX = 'condition_number, omega_sigma_stdcorr and omega_sigma_se_stdcorr are taken from rows -1000000003, -1000000004 and -1000000005 (KeyError when absent)'


def _series_eq(ser, want):
    """ser: pandas Series; want: dict label -> value; exact equality of printed values"""
    return sorted(ser.index) == sorted(want) and all(_close(ser[k], v, 0, 0) for k, v in want.items())


def _ext_check(inp):
    import tempfile

    from pharmpy.model.external.nonmem.table import ExtTable, NONMEMTableFile

    specs = [_ext_table_spec(cfg, i + 1) for i, cfg in enumerate(inp['tables'])]
    text = _render_ext(specs)
    fails = []

    def add(fid, clause, detail):
        if all(c != clause for _, c, _ in fails):
            fails.append((fid, clause, detail + ' | file:\n' + text[:1500]))

    with tempfile.TemporaryDirectory() as d:
        path = os.path.join(d, 'run1.ext')
        with open(path, 'w') as fh:
            fh.write(text)
        try:
            tf = NONMEMTableFile(path)
        except Exception as e:
            return [(FID_TF, C_TF_SPLIT, f'raised {type(e).__name__}: {e} | file:\n{text[:1500]}')]
    if len(tf) != len(specs) or [t.number for t in tf] != [s['number'] for s in specs] or \
            not all(isinstance(t, ExtTable) for t in tf):
        add(FID_TF, C_TF_SPLIT, f'got {len(tf)} tables numbered {[t.number for t in tf]}')
        return fails
    for t, s in zip(tf, specs):
        m, design, goal, objname = s['method']
        gotmeta = (t.method, t.design_optimality, t.goal_function, t.problem, t.subproblem, t.superproblem1,
                   t.iteration1, t.superproblem2, t.iteration2)
        wantmeta = (m, design, goal, s['problem'], s['sub'], 0, 0, 0, 0)
        if gotmeta != wantmeta:
            add(FID_TF, C_TF_META, f"table {s['number']}: got {gotmeta}, written {wantmeta}")
        if bool(t.is_evaluation) != m.endswith('(Evaluation)'):
            add(FID_TF, C_TF_EVAL, f"table {s['number']} method '{m}': is_evaluation={t.is_evaluation}")
        if tf.table_no(s['number']) is not t:
            add(FID_TF, C_TF_SPLIT, f"table_no({s['number']}) does not return that table")
        ren = s['ren']
        rows = s['rows']
        want_cols = ['ITERATION'] + s['parsed'] + ['OBJ']
        try:
            df = t.data_frame
            ok = list(df.columns) == want_cols and len(df) == len(rows)
            if ok:
                for r, (it, cells, obj) in enumerate(rows):
                    ok = ok and df['ITERATION'].iloc[r] == it and _close(df['OBJ'].iloc[r], float(obj), 0, 0)
                    for lab, tok in cells.items():
                        ok = ok and _close(df[ren(lab)].iloc[r], float(tok), 0, 0)
            if not ok:
                add(FID_EXT + '.data_frame', C_X_DF, f"table {s['number']}: columns {list(df.columns)}, {len(df)} rows, "
                                                     f'values {df.values.tolist()}')
        except Exception as e:
            add(FID_EXT + '.data_frame', C_X_DF, f"table {s['number']}: raised {type(e).__name__}: {e}")
            continue
        byiter = {}
        for it, cells, obj in rows:
            byiter[it] = ({ren(k): float(v) for k, v in cells.items()}, float(obj))
        its = [it for it, _, _ in rows if it >= 0]

        def attempt(fn):
            try:
                return fn()
            except Exception as e:  # noqa
                return e

        got = attempt(lambda: t.iterations)
        if isinstance(got, Exception) or [int(x) for x in got] != its:
            add(FID_EXT + '.iterations', C_X_ITER, f"table {s['number']}: got {got!r}, written {its}")
        # final estimates / ofv
        src = ITER_FINAL if ITER_FINAL in byiter else (max(its) if its else None)
        if src is not None:
            got = attempt(lambda: t.final_parameter_estimates)
            if isinstance(got, Exception) or not _series_eq(got, byiter[src][0]) or got.name != 'estimates':
                add(FID_EXT + '.final_parameter_estimates', C_X_FINAL,
                    f"table {s['number']}: got {got!r}, designated row {src}: {byiter[src][0]}")
            got = attempt(lambda: t.final_ofv)
            if isinstance(got, Exception) or not _close(got, byiter[src][1], 0, 0):
                add(FID_EXT + '.final_ofv', C_X_OFV, f"table {s['number']}: final_ofv {got!r}, designated row {src}: {byiter[src][1]}")
        src0 = 0 if 0 in byiter else (ITER_FINAL if ITER_FINAL in byiter else None)
        got = attempt(lambda: t.initial_ofv)
        if src0 is None:
            if not isinstance(got, KeyError):
                add(FID_EXT + '.initial_ofv', C_X_OFV, f"table {s['number']}: initial_ofv {got!r} although neither row exists")
        elif isinstance(got, Exception) or not _close(got, byiter[src0][1], 0, 0):
            add(FID_EXT + '.initial_ofv', C_X_OFV, f"table {s['number']}: initial_ofv {got!r}, designated row {src0}: {byiter[src0][1]}")
        # rows by code
        for code, getter, clause, sub, post in (
                (ITER_SE, lambda: t.standard_errors, C_X_SE, 'standard_errors', None),
                (ITER_FIX, lambda: t.fixed, C_X_FIX, 'fixed', 'bool'),
                (ITER_SDC, lambda: t.omega_sigma_stdcorr, C_X_AUX, 'omega_sigma_stdcorr', 'nothetas'),
                (ITER_SESDC, lambda: t.omega_sigma_se_stdcorr, C_X_AUX, 'omega_sigma_se_stdcorr', 'nothetas')):
            got = attempt(getter)
            if code not in byiter:
                if not isinstance(got, KeyError):
                    add(FID_EXT + '.' + sub, clause, f"table {s['number']}: row {code} absent but got {got!r}")
                continue
            want = dict(byiter[code][0])
            if post == 'nothetas':
                want = {k: v for k, v in want.items() if not k.startswith('THETA')}
            if isinstance(got, Exception):
                add(FID_EXT + '.' + sub, clause, f"table {s['number']}: raised {type(got).__name__}: {got}")
            elif post == 'bool':
                if sorted(got.index) != sorted(want) or any(
                        type(got[k]).__name__ not in ('bool', 'bool_') or bool(got[k]) != (v != 0) for k, v in want.items()):
                    add(FID_EXT + '.' + sub, clause, f"table {s['number']}: got {got.to_dict()}, row {code}: {want}")
            elif not _series_eq(got, want):
                add(FID_EXT + '.' + sub, clause, f"table {s['number']}: got {got.to_dict()}, row {code}: {want}")
        got = attempt(lambda: t.condition_number)
        if ITER_COND not in byiter:
            if not isinstance(got, KeyError):
                add(FID_EXT + '.condition_number', C_X_AUX, f"table {s['number']}: row absent but got {got!r}")
        elif isinstance(got, Exception) or not _close(got, byiter[ITER_COND][0]['THETA(1)'], 0, 0):
            add(FID_EXT + '.condition_number', C_X_AUX, f"table {s['number']}: got {got!r}, row -1000000003 first value "
                                                        f"{byiter[ITER_COND][0]['THETA(1)']}")
    return fails


EXT_ITERS = [[0], [0, 12], [0, 5, 12], [], [3, 7]]


def _ext_inputs(tier):
    thorough = tier == 'thorough'
    dom = []
    k = 0
    for ntheta in (1, 2, 3):
        for omega in ('diag1', 'block2'):
            for fixed in range(4):
                for iters in EXT_ITERS:
                    for mask in range(32):
                        if not iters and not (mask & 1):
                            continue           # NONMEM always writes at least one row of estimates
                        for vs in ((0, 1, 2) if thorough else (0,)):
                            cfg = dict(ntheta=ntheta, omega=omega, fixed=fixed, iters=iters, mask=mask, vs=vs,
                                       method=k % len(METHODS))
                            k += 1
                            dom.append(dict(tables=[cfg]))
    # two (thorough: three) estimation steps in one file
    for ntheta in (1, 3):
        for omega in ('diag1', 'block2'):
            for iters in ([0, 12], []):
                for m1 in (0b11111, 0b00001, 0b10011):
                    for m2 in (0b11111, 0b00000, 0b01101):
                        for meth in range(len(METHODS)):
                            if not iters and not ((m1 & 1) and (m2 & 1)):
                                continue
                            t1 = dict(ntheta=ntheta, omega=omega, fixed=2, iters=iters, mask=m1, vs=0, method=meth)
                            t2 = dict(ntheta=ntheta, omega=omega, fixed=2, iters=iters, mask=m2, vs=1,
                                      method=(meth + 3) % len(METHODS))
                            tabs = [t1, t2]
                            if thorough:
                                tabs.append(dict(t1, vs=2, method=(meth + 5) % len(METHODS)))
                            dom.append(dict(tables=tabs))
    return dom


# ---- phi ------------------------------------------------------------------------------------

C_P_ALL = 'PhiTable iofv / etas / etcs hold, per individual ID, the printed OBJ, ETA (PHI) values and the ETC (PHC) values as a symmetric matrix labelled ETA(n); individuals with an all-zero line are dropped'
PHI_IDS = [1, 5, 12]


# kinds of phi lines.  'full': no zero anywhere; 'allzero': the line of an individual without observations;
# the others are lines of individuals WITH observations that contain exact zeros in some columns:
#   eta_fix_first / eta_fix_last   one ETA has its OMEGA fixed to 0: ETA(k) and every ETC(k,*) / ETC(*,k) are zero
#   etc_offdiag                    diagonal OMEGA / IOV structure: the off-diagonal ETC entries are zero
#   fo                             first order evaluation: all ETAs zero, ETC and OBJ are not
#   obj0                           the individual objective function value happens to be exactly zero
#   only_obj                       every ETA and ETC is zero, OBJ is not
#   one_etc                        a single non-zero cell (the last ETC), OBJ zero too
PHI_ROW_KINDS = ['full', 'allzero', 'eta_fix_first', 'eta_fix_last', 'etc_offdiag', 'fo', 'obj0', 'only_obj', 'one_etc']


def _phi_zero_cells(kind, n, e, c):
    """labels that are printed as exact zeros in a line of that kind, and whether OBJ is zero"""
    etas = [f'{e}({i})' for i in range(1, n + 1)]
    etcs = [(i, j) for i in range(1, n + 1) for j in range(1, i + 1)]
    lab = lambda ij: f'{c}({ij[0]},{ij[1]})'  # noqa
    if kind == 'full':
        return set(), False
    if kind == 'allzero':
        return set(etas) | set(map(lab, etcs)), True
    if kind in ('eta_fix_first', 'eta_fix_last'):
        k = 1 if kind == 'eta_fix_first' else n
        return {f'{e}({k})'} | {lab(ij) for ij in etcs if k in ij}, False
    if kind == 'etc_offdiag':
        return {lab(ij) for ij in etcs if ij[0] != ij[1]}, False
    if kind == 'fo':
        return set(etas), False
    if kind == 'obj0':
        return set(), True
    if kind == 'only_obj':
        return set(etas) | set(map(lab, etcs)), False
    if kind == 'one_etc':
        return set(etas) | set(map(lab, etcs[:-1])), True
    raise ValueError(kind)


def _phi_spec(cfg, number):
    n, N, zero, phc, vs = cfg['netas'], cfg['nind'], cfg.get('zero'), cfg['phc'], cfg['vs']
    e, c = ('PHI', 'PHC') if phc else ('ETA', 'ETC')
    etas = [f'{e}({i})' for i in range(1, n + 1)]
    etcs = [f'{c}({i},{j})' for i in range(1, n + 1) for j in range(1, i + 1)]
    kinds = cfg.get('rows') or [('allzero' if k == zero else 'full') for k in range(N)]
    rows = []
    for k in range(N):
        zeros, obj0 = _phi_zero_cells(kinds[k], n, e, c)
        cells = {lab: ('0.00000E+00' if lab in zeros else _tok(vs * 5 + number + k * 7 + j * 3))
                 for j, lab in enumerate(etas + etcs)}
        obj = '0.0000000000000000' if obj0 else OBJTOKENS[(vs + number + k) % len(OBJTOKENS)]
        rows.append((k + 1, PHI_IDS[k], cells, obj))
    return dict(number=number, etas=etas, etcs=etcs, rows=rows, n=n)


def _render_phi(tables):
    lines = []
    for t in tables:
        lines.append(_title(t['number'], METHODS[0][0], None, None))
        labs = t['etas'] + t['etcs']
        lines.append(_header(['SUBJECT_NO', 'ID'] + labs + ['OBJ']))
        for sno, ident, cells, obj in t['rows']:
            lines.append('%13d%13d' % (sno, ident) + ''.join(cells[lab].rjust(13) for lab in labs) + obj.rjust(22))
    return '\n'.join(lines) + '\n'


def _phi_check(inp):
    import tempfile

    from pharmpy.model.external.nonmem.table import NONMEMTableFile, PhiTable

    specs = [_phi_spec(cfg, i + 1) for i, cfg in enumerate(inp['tables'])]
    text = _render_phi(specs)
    with tempfile.TemporaryDirectory() as d:
        path = os.path.join(d, 'run1.phi')
        with open(path, 'w') as fh:
            fh.write(text)
        try:
            tf = NONMEMTableFile(path)
        except Exception as e:
            return [(FID_TF, C_TF_SPLIT, f'raised {type(e).__name__}: {e} | file:\n{text[:1200]}')]
    if [t.number for t in tf] != [s['number'] for s in specs] or not all(isinstance(t, PhiTable) for t in tf):
        return [(FID_TF, C_TF_SPLIT, f'got tables {[t.number for t in tf]} | file:\n{text[:1200]}')]
    fails = []
    for t, s in zip(tf, specs):
        keep = [r for r in s['rows'] if any(float(v) != 0 for v in r[2].values()) or float(r[3]) != 0]
        n = s['n']
        try:
            iofv, etas, etcs = t.iofv, t.etas, t.etcs
            ok = [int(x) for x in iofv.index] == [r[1] for r in keep]
            ok = ok and all(_close(iofv.iloc[i], float(r[3]), 0, 0) for i, r in enumerate(keep))
            ok = ok and list(etas.columns) == s['etas'] and [int(x) for x in etas.index] == [r[1] for r in keep]
            ok = ok and all(_close(etas[lab].iloc[i], float(r[2][lab]), 0, 0) for i, r in enumerate(keep) for lab in s['etas'])
            ok = ok and [int(x) for x in etcs.index] == [r[1] for r in keep]
            enames = [f'ETA({i})' for i in range(1, n + 1)]
            for i, r in enumerate(keep):
                m = etcs.iloc[i]
                ok = ok and list(m.columns) == enames and list(m.index) == enames
                for a in range(1, n + 1):
                    for b in range(1, a + 1):
                        lab = s['etcs'][0][:3] + f'({a},{b})'
                        w = float(r[2][lab])
                        ok = ok and _close(m.iloc[a - 1, b - 1], w, 0, 0) and _close(m.iloc[b - 1, a - 1], w, 0, 0)
            if not ok:
                fails.append((FID_PHI, C_P_ALL, f"table {s['number']}: iofv {iofv.to_dict()} etas {etas.to_dict('index')} "
                                                f"etcs {[m.values.tolist() for m in etcs]} | file:\n{text[:1200]}"))
        except Exception as e:
            fails.append((FID_PHI, C_P_ALL, f"table {s['number']}: raised {type(e).__name__}: {e} | file:\n{text[:1200]}"))
        if fails:
            break
    return fails


def _phi_inputs(tier):
    dom = []
    for netas in (1, 2, 3):
        for nind in (1, 2, 3):
            for zero in [None] + list(range(nind)):
                for phc in (False, True):
                    for vs in ((0, 1, 2) if tier == 'thorough' else (0, 1)):
                        cfg = dict(netas=netas, nind=nind, zero=zero, phc=phc, vs=vs)
                        dom.append(dict(tables=[cfg]))
                        dom.append(dict(tables=[cfg, dict(cfg, vs=vs + 1, zero=None)]))
    # lines with exact zeros in some but not all columns, mixed with full and all-zero lines (appended: the
    # index of the inputs above is the size order of reported cases)
    thorough = tier == 'thorough'
    few = ['full', 'allzero', 'eta_fix_last', 'fo']
    for netas in (1, 2, 3):
        for nind in (1, 2, 3):
            kinds = PHI_ROW_KINDS if (nind <= 2 or thorough) else few
            for rows in itertools.product(kinds, repeat=nind):
                if all(r in ('full', 'allzero') for r in rows):
                    continue
                for phc in (False, True):
                    for vs in ((0, 1) if thorough else (0,)):
                        cfg = dict(netas=netas, nind=nind, rows=list(rows), phc=phc, vs=vs)
                        dom.append(dict(tables=[cfg]))
                        if nind <= 2:
                            dom.append(dict(tables=[dict(cfg, rows=['full'] * nind, vs=vs + 1), cfg]))
    return dom


# ---- cov / cor / coi and the matrix relations ---------------------------------------------------

C_V_DF = 'CovTable.data_frame is the written matrix labelled THETA(n)/OMEGA/SIGMA in that order (rows and columns), without the all-zero rows and columns of FIXed parameters'
C_M_CORR = 'calculate_corr_from_cov(cov) = D^-1 cov D^-1 with D = sqrt(diag(cov)), keeping the labels'
C_M_SE = 'calculate_se_from_cov(cov) = sqrt(diag(cov)) and calculate_se_from_prec(P) = sqrt(diag(P^-1)), labelled'
C_M_PREC = 'calculate_prec_from_cov(cov) = cov^-1 and calculate_cov_from_prec(P) = P^-1, keeping the labels'
C_M_CORRSE = 'calculate_cov_from_corrse(corr, se) = D corr D and calculate_prec_from_corrse = its inverse, calculate_corr_from_prec(P) = corr of P^-1'
C_M_NAME = 'calculate_cov_from_corrse / calculate_prec_from_corrse pair each standard error with the row/column of the same NAME when the Series lists the labels in another order'
C_M_FILES = 'cov, cor and coi read from rendered files of one positive definite matrix satisfy cor = D^-1 cov D^-1 and coi = cov^-1 to printed precision'
SCALES = [2.09967e-04, 2.68946e-02, 8.37555e-02, 2.27991e-03, 1.34156e-02, 7.47591e-03, 5.1e-01]


def _pd_matrix(n, vs):
    """deterministic positive definite matrix: D R D with a diagonally dominant correlation matrix R"""
    R = [[1.0 if i == j else ((-1) ** (i + j + vs)) * (0.35 if vs % 2 else 0.2) / (1 + abs(i - j)) for j in range(n)]
         for i in range(n)]
    sc = [SCALES[(i * 2 + vs) % len(SCALES)] for i in range(n)]
    return [[sc[i] * R[i][j] * sc[j] for j in range(n)] for i in range(n)]


def _etok(x):
    return '%.5E' % x


def _fixset(file_order, ntheta, omega, fixed):
    """labels of the FIXed parameters (all-zero rows and columns of a cov/cor/coi file).
    0-3: none / the last theta / one omega / sigma;  4-6: several at once"""
    one_omega = file_order[-1] if omega == 'diag1' else 'OMEGA(2,1)'
    return {0: [], 1: [file_order[ntheta - 1]], 2: [one_omega], 3: ['SIGMA(1,1)'],
            4: ['THETA1', 'SIGMA(1,1)'],
            5: [x for x in file_order if x.startswith('OMEGA')],
            6: [x for x in file_order if x.startswith('THETA')] + [one_omega]}[fixed]


def _is_pd(m):
    """Cholesky in plain floats"""
    n = len(m)
    L = [[0.0] * n for _ in range(n)]
    for i in range(n):
        for j in range(i + 1):
            s = m[i][j] - sum(L[i][k] * L[j][k] for k in range(j))
            if i == j:
                if s <= 0:
                    return False
                L[i][i] = math.sqrt(s)
            else:
                L[i][j] = s / L[j][j]
    return True


def _cancel_matrix(n, r, vs, d):
    """symmetric positive definite n x n matrix (n >= 2) of dyadic rationals - exact in the printed 1PE13.5
    tokens - in which no entry of row r is zero but the row (and column) sums to exactly zero in floating
    point: m[r][r] = d, the other entries of the row are -d/2, -d/4, ... (adding up to -d).  The other
    diagonal entries are 4d or 6d, the other off-diagonal entries +-d/16."""
    assert n >= 2 and 0 <= r < n
    w = [2.0 ** -(k + 1) for k in range(n - 1)]
    w[-1] *= 2
    others = [j for j in range(n) if j != r]
    if vs % 2:
        others = others[::-1]
    m = [[0.0] * n for _ in range(n)]
    m[r][r] = d
    for wgt, j in zip(w, others):
        m[r][j] = m[j][r] = -d * wgt
    for a in others:
        m[a][a] = d * (4 + 2 * (a % 2))
        for b in others:
            if a < b:
                m[a][b] = m[b][a] = d / 16 * (-1) ** (a + b + vs)
    return m


def _render_matrix(file_order, live, mat_tokens, number=1):
    """mat_tokens: dict (a,b) -> token for live labels; other cells zero"""
    lines = [_title(number, METHODS[0][0], None, None), _header(['NAME'] + file_order)]
    for a in file_order:
        cells = [mat_tokens.get((a, b), '0.00000E+00') for b in file_order]
        lines.append(' ' + a.ljust(12) + ''.join(c.rjust(13) for c in cells))
    return '\n'.join(lines) + '\n'


def _inv(m):
    n = len(m)
    a = [list(map(float, m[i])) + [1.0 if i == j else 0.0 for j in range(n)] for i in range(n)]
    for c in range(n):
        piv = max(range(c, n), key=lambda r: abs(a[r][c]))
        a[c], a[piv] = a[piv], a[c]
        pv = a[c][c]
        a[c] = [x / pv for x in a[c]]
        for r in range(n):
            if r != c:
                f = a[r][c]
                a[r] = [x - f * y for x, y in zip(a[r], a[c])]
    return [row[n:] for row in a]


def _three_matrices(n, vs, cancel=None):
    """(cov, cor with the standard errors on the diagonal, coi = cov^-1) as written by NONMEM for one positive
    definite matrix.  cancel = [file, r]: the matrix printed in that file ('cov', 'cor' or 'coi') is a
    _cancel_matrix whose row r sums to exactly zero; the other two are derived from it."""
    if cancel is None:
        cov = _pd_matrix(n, vs)
        coi = _inv(cov)
    else:
        which, r = cancel
        base = _cancel_matrix(n, r, vs, 0.5 if which == 'cor' else 0.25)
        if which == 'cov':
            cov, coi = base, _inv(base)
        elif which == 'coi':
            cov, coi = _inv(base), base
        else:
            cov = [[base[i][i] * (1.0 if i == j else base[i][j]) * base[j][j] for j in range(n)] for i in range(n)]
            coi = _inv(cov)
        if not _is_pd(cov):
            raise AssertionError(f'not positive definite: {cov}')
    se = [math.sqrt(cov[i][i]) for i in range(n)]
    cor = [[se[i] if i == j else cov[i][j] / (se[i] * se[j]) for j in range(n)] for i in range(n)]
    if cancel is not None and cancel[0] == 'cor':
        cor = base
    return cov, cor, coi


def _assert_cancels(file_order, live, toks, r):
    """precondition of the cancelling cases: the printed row (and column) of the r-th estimated parameter has
    no zero among the estimated parameters and adds up to exactly 0.0"""
    a = live[r]
    row = [float(toks.get((a, b), '0.00000E+00')) for b in file_order]
    col = [float(toks.get((b, a), '0.00000E+00')) for b in file_order]
    if any(float(toks[(a, b)]) == 0 for b in live) or sum(row) != 0.0 or sum(col) != 0.0 or \
            sum(reversed(row)) != 0.0:
        raise AssertionError(f'row {a} does not cancel: {row}')


def _cov_check(inp):
    import tempfile

    import pandas as pd
    import pharmpy.modeling as pm
    from pharmpy.model.external.nonmem.table import CovTable, NONMEMTableFile

    file_order, parsed, ren = _par_labels(inp['ntheta'], inp['omega'])
    ntheta = inp['ntheta']
    fixset = _fixset(file_order, ntheta, inp['omega'], inp['fixed'])
    live = [lab for lab in file_order if lab not in fixset]
    n = len(live)
    cov, cor, coi = _three_matrices(n, inp['vs'], inp.get('cancel'))
    fails = []
    parsed_mats = {}
    live_parsed = [p for p in parsed if p in {ren(x) for x in live}]
    for suffix, mat in (('.cov', cov), ('.cor', cor), ('.coi', coi)):
        toks = {(a, b): _etok(mat[i][j]) for i, a in enumerate(live) for j, b in enumerate(live)}
        if inp.get('cancel') and '.' + inp['cancel'][0] == suffix:
            _assert_cancels(file_order, live, toks, inp['cancel'][1])
        text = _render_matrix(file_order, live, toks)
        with tempfile.TemporaryDirectory() as d:
            path = os.path.join(d, 'run1' + suffix)
            with open(path, 'w') as fh:
                fh.write(text)
            try:
                tf = NONMEMTableFile(path)
                t = tf[0]
                df = t.data_frame
            except Exception as e:
                fails.append((FID_COV, C_V_DF, f'{suffix}: raised {type(e).__name__}: {e} | file:\n{text[:1500]}'))
                continue
        ok = isinstance(t, CovTable) and list(df.index) == live_parsed and list(df.columns) == live_parsed
        if ok:
            for (a, b), tok in toks.items():
                ok = ok and _close(df.loc[ren(a), ren(b)], float(tok), 0, 0)
        if not ok:
            if all(c != C_V_DF for _, c, _ in fails):
                fails.append((FID_COV, C_V_DF, f'{suffix}: got index {list(df.index)} columns {list(df.columns)} values '
                                               f'{df.values.tolist()} | file:\n{text[:1500]}'))
        else:
            parsed_mats[suffix] = df
    if len(parsed_mats) < 3:
        return fails
    pcov, pcor, pcoi = parsed_mats['.cov'], parsed_mats['.cor'], parsed_mats['.coi']
    labels = list(pcov.index)
    C = [[float(pcov.loc[a, b]) for b in labels] for a in labels]
    sd = [math.sqrt(C[i][i]) for i in range(n)]
    Rref = [[C[i][j] / (sd[i] * sd[j]) for j in range(n)] for i in range(n)]
    Pref = _inv(C)

    def mat_ok(df, ref, rtol=1e-9, scale=None):
        if list(df.index) != labels or list(df.columns) != labels:
            return False
        for i in range(n):
            for j in range(n):
                g, w = float(df.iloc[i, j]), ref[i][j]
                if scale:
                    g, w = g * scale[i] * scale[j], w * scale[i] * scale[j]
                if not _close(g, w, rtol, rtol):
                    return False
        return True

    def ser_ok(ser, ref, rtol=1e-9):
        return list(ser.index) == labels and all(_close(ser.iloc[i], ref[i], rtol, 0) for i in range(n))

    tag = f"labels {labels} cov {C}"
    try:
        if not mat_ok(pm.calculate_corr_from_cov(pcov), Rref):
            fails.append((FID_MMATH + ':calculate_corr_from_cov', C_M_CORR, f'{tag}: got {pm.calculate_corr_from_cov(pcov).values.tolist()}, expected {Rref}'))
        if not ser_ok(pm.calculate_se_from_cov(pcov), sd) or not ser_ok(pm.calculate_se_from_prec(pd.DataFrame(Pref, index=labels, columns=labels)), sd, 1e-7):
            fails.append((FID_MMATH + ':calculate_se_from_cov', C_M_SE, f'{tag}: got {pm.calculate_se_from_cov(pcov).to_dict()}, expected {sd}'))
        P = pd.DataFrame(Pref, index=labels, columns=labels)
        if not mat_ok(pm.calculate_prec_from_cov(pcov), Pref, 1e-7, sd) or not mat_ok(pm.calculate_cov_from_prec(P), C, 1e-7, [1 / s for s in sd]):
            fails.append((FID_MMATH + ':calculate_prec_from_cov', C_M_PREC, f'{tag}: got {pm.calculate_prec_from_cov(pcov).values.tolist()}, expected {Pref}'))
        Rdf = pd.DataFrame(Rref, index=labels, columns=labels)
        ses = pd.Series(sd, index=labels)
        if not (mat_ok(pm.calculate_cov_from_corrse(Rdf, ses), C, 1e-9, [1 / s for s in sd])
                and mat_ok(pm.calculate_prec_from_corrse(Rdf, ses), Pref, 1e-7, sd)
                and mat_ok(pm.calculate_corr_from_prec(P), Rref, 1e-7)):
            fails.append((FID_MMATH + ':calculate_cov_from_corrse', C_M_CORRSE, f'{tag}: corr {Rref} se {sd}: got '
                                                                                 f'{pm.calculate_cov_from_corrse(Rdf, ses).values.tolist()}'))
        if n >= 2:
            ses_rev = ses[labels[::-1]]
            if not (mat_ok(pm.calculate_cov_from_corrse(Rdf, ses_rev), C, 1e-9, [1 / s for s in sd])
                    and mat_ok(pm.calculate_prec_from_corrse(Rdf, ses_rev), Pref, 1e-7, sd)):
                fails.append((FID_MMATH + ':calculate_cov_from_corrse', C_M_NAME,
                              f'corr labels {labels} {Rref}, se given as {ses_rev.to_dict()}: got '
                              f'{pm.calculate_cov_from_corrse(Rdf, ses_rev).values.tolist()}, expected {C}'))
    except Exception as e:
        fails.append((FID_MMATH, C_M_CORR, f'{tag}: raised {type(e).__name__}: {e}'))
    # relations between the three files, to printed precision (5 decimals of the mantissa)
    ok = True
    for i in range(n):
        ok = ok and _close(float(pcor.iloc[i, i]), sd[i], 2e-5, 0)
        for j in range(n):
            if i != j:
                ok = ok and _close(float(pcor.iloc[i, j]), Rref[i][j], 0, 2e-5)
            ok = ok and _close(float(pcoi.iloc[i, j]) * sd[i] * sd[j], Pref[i][j] * sd[i] * sd[j], 0, 5e-4)
    if not ok:
        fails.append((FID_COV, C_M_FILES, f'{tag}: cor file {pcor.values.tolist()} coi file {pcoi.values.tolist()}'))
    return fails


def _cov_inputs(tier):
    dom = []
    for ntheta in (1, 2, 3):
        for omega in ('diag1', 'block2'):
            for fixed in range(4):
                for vs in range(6 if tier == 'thorough' else 3):
                    dom.append(dict(ntheta=ntheta, omega=omega, fixed=fixed, vs=vs))
    # appended (the index of the inputs above is the size order of reported cases):
    # several FIXed parameters at once; an estimated parameter whose printed row cancels to a zero sum in the
    # cov, the cor or the coi file, alone and together with genuinely all-zero FIX rows
    thorough = tier == 'thorough'
    for ntheta in (1, 2, 3):
        for omega in ('diag1', 'block2'):
            for fixed in (4, 5, 6):
                for vs in range(6 if thorough else 2):
                    dom.append(dict(ntheta=ntheta, omega=omega, fixed=fixed, vs=vs))
            for fixed in range(7):
                file_order = _par_labels(ntheta, omega)[0]
                n = len(file_order) - len(set(_fixset(file_order, ntheta, omega, fixed)))
                for which in ('cov', 'cor', 'coi'):
                    for r in range(n if n >= 2 else 0):
                        for vs in ((0, 1) if thorough else (r % 2,)):
                            dom.append(dict(ntheta=ntheta, omega=omega, fixed=fixed, vs=vs, cancel=[which, r]))
    return dom


# ---- $TABLE files ---------------------------------------------------------------------------------

C_T_ALL = '$TABLE files: every "TABLE NO." section is one table with the written column labels and rows (repeated header lines inside a section are dropped)'
TAB_COLS = ['ID', 'TIME', 'DV', 'CIPREDI', 'PRED', 'RES', 'CWRES']
TABTOKENS = ['1.0000E+00', '0.0000E+00', '1.7300E+01', '-6.7046E-01', '1.8143E+01', '-4.0104E-01', '2.5000E+02',
             '9.9999E-05']


def _tab_check(inp):
    import tempfile

    from pharmpy.model.external.nonmem.table import NONMEMTableFile

    lines = []
    want = []
    for tno in range(1, inp['ntab'] + 1):
        cols = TAB_COLS[:inp['ncol']] if tno % 2 else TAB_COLS[:inp['ncol']][::-1]
        lines.append('TABLE NO.%3d' % tno)
        hdr = ' ' + ''.join(c.ljust(12) for c in cols).rstrip()
        lines.append(hdr)
        rows = []
        for r in range(inp['nrow']):
            if inp['repeat'] and r > 0 and r % inp['repeat'] == 0:
                lines.append(hdr)
            toks = [TABTOKENS[(tno + r * 3 + j * 5 + inp['vs']) % len(TABTOKENS)] for j in range(len(cols))]
            lines.append(''.join(t.rjust(12) for t in toks))
            rows.append([float(t) for t in toks])
        want.append((tno, cols, rows))
    text = '\n'.join(lines) + '\n'
    with tempfile.TemporaryDirectory() as d:
        path = os.path.join(d, 'sdtab1')
        with open(path, 'w') as fh:
            fh.write(text)
        try:
            tf = NONMEMTableFile(path)
            got = [(t.number, list(t.data_frame.columns), t.data_frame.values.tolist()) for t in tf]
        except Exception as e:
            return [(FID_TAB, C_T_ALL, f'raised {type(e).__name__}: {e} | file:\n{text[:1200]}')]
    ok = len(got) == len(want)
    if ok:
        for (gn, gc, gr), (wn, wc, wr) in zip(got, want):
            ok = ok and gn == wn and gc == wc and len(gr) == len(wr) and all(
                _close(a, b, 0, 0) for x, y in zip(gr, wr) for a, b in zip(x, y))
    if not ok:
        return [(FID_TAB, C_T_ALL, f'got {got} | file:\n{text[:1200]}')]
    return []


def _tab_inputs(tier):
    dom = []
    for ntab in (1, 2, 3):
        for ncol in (1, 3, 7):
            for nrow in (1, 2, 5):
                for repeat in (0, 1, 2):
                    if repeat and repeat >= nrow:
                        continue
                    for vs in ((0, 1, 2) if tier == 'thorough' else (0,)):
                        dom.append(dict(ntab=ntab, ncol=ncol, nrow=nrow, repeat=repeat, vs=vs))
    return dom


# ---- internals.math --------------------------------------------------------------------------------

C_TRI = 'triangular_root(n(n+1)/2) == n'
C_F2S = 'flattened_to_symmetric puts element k of the row-wise lower triangle at (i,j) and (j,i)'


def _imath_check(inp):
    from pharmpy.internals.math import flattened_to_symmetric, triangular_root

    n = inp['n']
    fails = []
    try:
        got = triangular_root(n * (n + 1) // 2)
        if got != n:
            fails.append((FID_TRI, C_TRI, f'n={n}: got {got}'))
    except Exception as e:
        fails.append((FID_TRI, C_TRI, f'n={n}: raised {type(e).__name__}: {e}'))
    if n >= 1:
        flat = [float((k * 7 + inp['vs'] * 3) % 11 - 4) + 0.25 * k for k in range(n * (n + 1) // 2)]
        snap = list(flat)
        try:
            arg = __import__('numpy').array(flat) if inp['as_array'] else list(flat)
            m = flattened_to_symmetric(arg)
            ok = tuple(m.shape) == (n, n)
            k = 0
            for i in range(n):
                for j in range(i + 1):
                    ok = ok and m[i][j] == flat[k] and m[j][i] == flat[k]
                    k += 1
            if not ok or flat != snap:
                fails.append((FID_F2S, C_F2S, f'x={flat}: got {m.tolist()}'))
        except Exception as e:
            fails.append((FID_F2S, C_F2S, f'x={flat}: raised {type(e).__name__}: {e}'))
    return fails


def _imath_inputs(tier):
    nmax = 60 if tier == 'thorough' else 6
    return [dict(n=n, vs=vs, as_array=a) for n in range(0, nmax + 1) for vs in (0, 1, 2) for a in (False, True)]


# ---- JSON round trip --------------------------------------------------------------------------

C_J_STRUCT = 'read_results(to_json(r)) restores every set field of a ModelfitResults with the same type, labels (index/column names, MultiIndex) and values to 1e-14 relative'
C_J_EXACT = 'read_results(to_json(r)) restores floating point values exactly'
C_J_UNSET = 'fields that were not set stay equal to their default after a JSON round trip'
C_J_FILE = 'to_json(path) followed by read_results(path) gives the same object as the string form'
C_J_LZMA = 'to_json(path, lzma=True) followed by read_results(path + ".xz") gives the same object as the string form'
JVALS = [0.1 + 0.2, -1.0 / 3.0, 587.36644134661617, 1e-300, -2.5, 4.69307e-03, 1e22, 0.0]
JVALS_SHORT = [0.25, -2.5, 587.125, 1e-3, 4.0, -1234.5, 1e10, 0.0]


def _json_build(inp):
    import pandas as pd
    from pharmpy.workflows.results import ModelfitResults

    vals = JVALS if inp['long'] else JVALS_SHORT
    v = lambda k: vals[(k + inp['vs']) % len(vals)]  # noqa
    names = ['POP_CL', 'IIV_CL', 'SIGMA'][:inp['npar']]
    kw = {}
    fields = inp['fields']
    if 'scalars' in fields:
        kw.update(ofv=inp['ofv'], minimization_successful=inp['flag'], termination_cause=inp['cause'],
                  significant_digits=v(1), warnings=list(inp['warn']), function_evaluations=47, runtime_total=v(2),
                  covstep_successful=inp['flag'])
    if 'series' in fields:
        kw.update(parameter_estimates=pd.Series({n: v(i) for i, n in enumerate(names)}, name='estimates'),
                  standard_errors=pd.Series({n: v(i + 3) for i, n in enumerate(names)}, name='SE'),
                  individual_ofv=pd.Series([v(4), v(5)], index=pd.Index([1, 12], name='ID'), name='iOFV'),
                  evaluation=pd.Series([0.0, 1.0], index=[1, 2], name='evaluation'))
    if 'frames' in fields:
        kw.update(covariance_matrix=pd.DataFrame([[v(i + j) for j in range(len(names))] for i in range(len(names))],
                                                 index=names, columns=names),
                  individual_estimates=pd.DataFrame({'ETA_CL': [v(1), v(2)], 'ETA_VC': [v(3), v(4)]},
                                                    index=pd.Index([1, 12], name='ID')))
    if 'multi' in fields:
        mi = pd.MultiIndex.from_tuples([(1, 0), (1, 5), (2, 0)], names=['step', 'iteration'])
        kw.update(parameter_estimates_iterations=pd.DataFrame({n: [v(i), v(i + 1), v(i + 2)] for i, n in enumerate(names)},
                                                              index=mi),
                  ofv_iterations=pd.Series([v(0), v(1), v(2)], index=mi, name='OFV'))
    if 'nested' in fields:
        en = ['ETA_CL', 'ETA_VC']
        kw.update(individual_estimates_covariance=pd.Series(
            [pd.DataFrame([[v(1), v(2)], [v(2), v(3)]], index=en, columns=en),
             pd.DataFrame([[v(4), v(5)], [v(5), v(6)]], index=en, columns=en)],
            index=pd.Index([1, 12], name='ID'), dtype=object))
    return ModelfitResults(**kw), kw


def _json_cmp(a, b, exact):
    """None when equal, else a description"""
    import pandas as pd

    rt = 0 if exact else 1e-14
    if isinstance(a, pd.DataFrame):
        if not isinstance(b, pd.DataFrame):
            return f'type {type(b).__name__}'
        if list(a.columns) != list(b.columns) or a.index.tolist() != b.index.tolist() or list(a.index.names) != list(b.index.names):
            return f'labels {b.index.tolist()} {list(b.columns)} names {list(b.index.names)}'
        for x, y in zip(a.values.ravel().tolist(), b.values.ravel().tolist()):
            if not _close(x, y, rt, 0):
                return f'value {y!r} for {x!r}'
        return None
    if isinstance(a, pd.Series):
        if not isinstance(b, pd.Series):
            return f'type {type(b).__name__}'
        if a.index.tolist() != b.index.tolist() or list(a.index.names) != list(b.index.names) or a.name != b.name:
            return f'labels {b.index.tolist()} names {list(b.index.names)} name {b.name}'
        for x, y in zip(a.tolist(), b.tolist()):
            if isinstance(x, pd.DataFrame):
                d = _json_cmp(x, y, exact)
                if d:
                    return d
            elif not _close(x, y, rt, 0):
                return f'value {y!r} for {x!r}'
        return None
    if isinstance(a, float):
        if not isinstance(b, (float, int)) or isinstance(b, bool) or not _close(a, b, rt, 0):
            return f'value {b!r} for {a!r}'
        return None
    if type(a) is not type(b) or a != b:
        return f'value {b!r} for {a!r}'
    return None


def _json_check(inp):
    import dataclasses
    import tempfile
    from pathlib import Path

    from pharmpy.workflows.results import ModelfitResults, read_results

    r, kw = _json_build(inp)
    tag = f"fields {sorted(kw)} spec {json.dumps(_js(inp))}"
    try:
        s = r.to_json()
        r2 = read_results(s)
    except Exception as e:
        return [(FID_JSON, C_J_STRUCT, f'{tag}: raised {type(e).__name__}: {e}')]
    fails = []
    if type(r2) is not ModelfitResults:
        return [(FID_JSON, C_J_STRUCT, f'{tag}: got a {type(r2).__name__}')]
    for f in dataclasses.fields(r):
        a, b = getattr(r, f.name), getattr(r2, f.name)
        if f.name in kw:
            d = _json_cmp(a, b, False)
            if d:
                if all(c != C_J_STRUCT for _, c, _ in fails):
                    fails.append((FID_JSON, C_J_STRUCT, f'{tag}: field {f.name}: {d}'))
            else:
                d = _json_cmp(a, b, True)
                if d and all(c != C_J_EXACT for _, c, _ in fails):
                    fails.append((FID_JSON_DF, C_J_EXACT, f'{tag}: field {f.name}: {d}'))
        else:
            same = (a is None and b is None) or (type(a) is type(b) and a == b)
            if not same and all(c != C_J_UNSET for _, c, _ in fails):
                fails.append((FID_MFR, C_J_UNSET, f'field {f.name} was left at its default {a!r} and came back as {b!r}'))
    if inp.get('file'):
        for clause, use_lzma in ((C_J_FILE, False), (C_J_LZMA, True)):
            try:
                with tempfile.TemporaryDirectory() as d:
                    p = Path(d) / 'results.json'
                    r.to_json(p, lzma=use_lzma)
                    r3 = read_results(Path(d) / ('results.json.xz' if use_lzma else 'results.json'))
                for f in dataclasses.fields(r):
                    if f.name in kw and _json_cmp(getattr(r2, f.name), getattr(r3, f.name), True):
                        if all(c != clause for _, c, _ in fails):
                            fails.append((FID_JSON_READ, clause, f'{tag}: field {f.name} differs between string and file form'))
            except Exception as e:
                fails.append((FID_JSON_READ, clause, f'{tag}: raised {type(e).__name__}: {e}'))
    return fails


def _json_inputs(tier):
    dom = []
    groups = ['scalars', 'series', 'frames', 'multi', 'nested']
    k = 0
    for n in range(0, len(groups) + 1):
        for fields in itertools.combinations(groups, n):
            for long in (False, True):
                for vs in range(8 if tier == 'thorough' else 3):
                    for npar in (1, 3):
                        ofv = [NAN, -10.5, JVALS[2]][k % 3]
                        dom.append(dict(fields=list(fields), long=long, vs=vs, npar=npar, ofv=ofv, flag=[True, False, None][k % 3],
                                        cause=[None, 'rounding_errors'][k % 2], warn=[[], ['final_zero_gradient']][k % 2],
                                        file=(k % 5 == 0)))
                        k += 1
    return dom


# ---- end to end: parse_modelfit_results on the pheno example with rendered output files -----------

C_E_EXC = 'read_modelfit_results raises no exception on a complete set of NONMEM output files (ext, lst and any of cov/cor/coi)'
C_E_ALL = 'read_modelfit_results on pheno.mod with rendered ext/cov/cor/coi: estimates, standard errors and OFV are those of the designated ext rows under the model parameter names, FIXed parameters left out'
C_E_REL = 'covariance, correlation, precision matrix and standard errors reported together satisfy cor = D^-1 cov D^-1 (unit diagonal), precision = cov^-1, se = sqrt(diag cov) to printed precision, labelled by model parameter names'
C_E_PHI = 'read_modelfit_results on pheno.mod with a rendered phi file: individual_ofv, individual_estimates and individual_estimates_covariance hold, under the model eta names, the printed OBJ, ETA and ETC values of exactly the individuals whose phi line is not all zero'
PHENO_ETAS = ('ETA_CL', 'ETA_VC')
PHENO_MAP = {'THETA1': 'POP_CL', 'THETA2': 'POP_VC', 'THETA3': 'COVAPGR', 'OMEGA(1,1)': 'IIV_CL', 'OMEGA(2,2)': 'IIV_VC',
             'SIGMA(1,1)': 'SIGMA'}
EXAMPLE_DIR = '/repo/src/pharmpy/internals/example_models'


def _e2e_check(inp):
    import shutil
    import tempfile

    from pharmpy.tools import read_modelfit_results

    file_order = ['THETA1', 'THETA2', 'THETA3', 'SIGMA(1,1)', 'OMEGA(1,1)', 'OMEGA(2,1)', 'OMEGA(2,2)']
    fixset = ['OMEGA(2,1)'] + {0: [], 1: ['THETA3'], 2: ['OMEGA(2,2)'], 3: ['SIGMA(1,1)']}[inp['fixed']]
    live = [x for x in file_order if x not in fixset]
    n = len(live)
    vs = inp['vs']
    cov, cor, coi = _three_matrices(n, vs, inp.get('cancel'))
    se = [math.sqrt(cov[i][i]) for i in range(n)]
    setok = {lab: _etok(se[i]) for i, lab in enumerate(live)}
    est = {lab: ('0.00000E+00' if lab == 'OMEGA(2,1)' else _tok(vs * 3 + j * 2).lstrip('-')) for j, lab in enumerate(file_order)}
    obj0, objf = OBJTOKENS[vs % len(OBJTOKENS)], OBJTOKENS[(vs + 2) % len(OBJTOKENS)]
    rows = [(0, {lab: _tok(vs + j).lstrip('-') if lab != 'OMEGA(2,1)' else '0.00000E+00' for j, lab in enumerate(file_order)}, obj0),
            (9, est, objf), (ITER_FINAL, est, objf),
            (ITER_SE, {lab: setok.get(lab, '1.00000E+10') for lab in file_order}, '0.0000000000000000'),
            (ITER_SDC, {lab: ('0.00000E+00' if lab.startswith('THETA') else _etok(math.sqrt(float(est[lab])))) for lab in file_order}, '0.0000000000000000'),
            (ITER_SESDC, {lab: ('0.00000E+00' if lab.startswith('THETA') else setok.get(lab, '1.00000E+10')) for lab in file_order}, '0.0000000000000000'),
            (ITER_FIX, {lab: ('1.00000E+00' if lab in fixset else '0.00000E+00') for lab in file_order}, '0.0000000000000000')]
    ext = _render_ext([dict(number=1, method=METHODS[0], file_order=file_order, rows=rows, problem=1, sub=0)])
    fails = []
    phi = None
    if inp.get('phi'):
        phi = _phi_spec(dict(netas=2, nind=len(inp['phi']), rows=inp['phi'], phc=False, vs=vs), 1)
    with tempfile.TemporaryDirectory() as d:
        if phi is not None:
            with open(os.path.join(d, 'pheno.phi'), 'w') as fh:
                fh.write(_render_phi([phi]))
        for f in ('pheno.mod', 'pheno.lst', 'pheno.dta', 'pheno.datainfo'):
            if os.path.exists(os.path.join(EXAMPLE_DIR, f)):
                shutil.copy(os.path.join(EXAMPLE_DIR, f), os.path.join(d, f))
        with open(os.path.join(d, 'pheno.ext'), 'w') as fh:
            fh.write(ext)
        for suffix, mat in (('cov', cov), ('cor', cor), ('coi', coi)):
            if suffix in inp['files']:
                toks = {(a, b): _etok(mat[i][j]) for i, a in enumerate(live) for j, b in enumerate(live)}
                if inp.get('cancel') and inp['cancel'][0] == suffix:
                    _assert_cancels(file_order, live, toks, inp['cancel'][1])
                with open(os.path.join(d, 'pheno.' + suffix), 'w') as fh:
                    fh.write(_render_matrix(file_order, live, toks))
        try:
            res = read_modelfit_results(os.path.join(d, 'pheno.mod'))
        except Exception as e:
            return [(FID_PARSE, C_E_EXC, f'{json.dumps(_js(inp))}: raised {type(e).__name__}: {e} | ext:\n{ext}')]
    names = [PHENO_MAP[x] for x in ['THETA1', 'THETA2', 'THETA3', 'OMEGA(1,1)', 'OMEGA(2,2)', 'SIGMA(1,1)'] if x in live]
    want_pe = {PHENO_MAP[x]: float(est[x]) for x in live}
    want_se = {PHENO_MAP[x]: float(setok[x]) for x in live}
    pe, ses = res.parameter_estimates, res.standard_errors
    ok = list(pe.index) == names and all(_close(pe[k], v, 0, 0) for k, v in want_pe.items())
    ok = ok and _close(res.ofv, float(objf), 0, 0)
    ok = ok and ses is not None and list(ses.index) == names and all(_close(ses[k], v, 0, 0) for k, v in want_se.items())
    if not ok:
        fails.append((FID_PARSE, C_E_ALL, f'{json.dumps(_js(inp))}: estimates {pe.to_dict()} se {None if ses is None else ses.to_dict()} '
                                          f'ofv {res.ofv}; written {want_pe} / {want_se} / {objf} | ext:\n{ext}'))
    if phi is not None:
        keep = [r for r in phi['rows'] if any(float(v) != 0 for v in r[2].values()) or float(r[3]) != 0]
        ids = [r[1] for r in keep]
        enames = list(PHENO_ETAS)
        try:
            iofv, ie, iec = res.individual_ofv, res.individual_estimates, res.individual_estimates_covariance
            ok = iofv is not None and ie is not None and iec is not None
            ok = ok and [int(x) for x in iofv.index] == ids and [int(x) for x in ie.index] == ids
            ok = ok and [int(x) for x in iec.index] == ids and list(ie.columns) == enames
            for i, r in enumerate(keep):
                ok = ok and _close(iofv.iloc[i], float(r[3]), 0, 0)
                m = iec.iloc[i] if ok else None
                ok = ok and list(m.index) == enames and list(m.columns) == enames
                for a in (1, 2):
                    ok = ok and _close(ie.iloc[i, a - 1], float(r[2][f'ETA({a})']), 0, 0)
                    for b in range(1, a + 1):
                        w = float(r[2][f'ETC({a},{b})'])
                        ok = ok and _close(m.iloc[a - 1, b - 1], w, 0, 0) and _close(m.iloc[b - 1, a - 1], w, 0, 0)
            if not ok:
                fails.append((FID_PARSE, C_E_PHI, f'{json.dumps(_js(inp))}: individual_ofv '
                                                  f'{None if iofv is None else iofv.to_dict()} individual_estimates '
                                                  f'{None if ie is None else ie.to_dict("index")} covariance of '
                                                  f'{None if iec is None else list(iec.index)}; expected individuals {ids} | phi:\n'
                                                  f'{_render_phi([phi])}'))
        except Exception as e:
            fails.append((FID_PARSE, C_E_PHI, f'{json.dumps(_js(inp))}: raised {type(e).__name__}: {e} | phi:\n'
                                              f'{_render_phi([phi])}'))
    if inp['files']:
        idx = {PHENO_MAP[x]: i for i, x in enumerate(live)}
        rc, rr, rp = res.covariance_matrix, res.correlation_matrix, res.precision_matrix
        ok = all(m is not None and list(m.index) == names and list(m.columns) == names for m in (rc, rr, rp))
        if ok:
            for a in names:
                for b in names:
                    i, j = idx[a], idx[b]
                    ok = ok and _close(rc.loc[a, b], cov[i][j], 5e-5, 0)
                    ok = ok and _close(rr.loc[a, b], 1.0 if a == b else cov[i][j] / (se[i] * se[j]), 0, 5e-5)
                    ok = ok and _close(rp.loc[a, b] * se[i] * se[j], coi[i][j] * se[i] * se[j], 0, 1e-3)
                ok = ok and _close(ses[a], math.sqrt(float(rc.loc[a, a])), 5e-5, 0)
        if not ok:
            fails.append((FID_PARSE, C_E_REL, f'{json.dumps(_js(inp))}: cov {None if rc is None else rc.to_dict()} cor '
                                              f'{None if rr is None else rr.to_dict()} precision {None if rp is None else rp.to_dict()} '
                                              f'se {None if ses is None else ses.to_dict()}; rendered cov {cov} for {live}'))
    return fails


def _e2e_inputs(tier):
    dom = []
    for files in ([], ['cov'], ['cor'], ['coi'], ['cov', 'cor'], ['cov', 'coi'], ['cor', 'coi'], ['cov', 'cor', 'coi']):
        for fixed in range(4):
            for vs in ((0, 1, 2) if tier == 'thorough' else (0,)):
                dom.append(dict(files=files, fixed=fixed, vs=vs))
    # appended: an estimated parameter whose printed row cancels to a zero sum in one of the matrix files;
    # a phi file with lines that contain exact zeros in some columns
    thorough = tier == 'thorough'
    for files in (['cov'], ['cor'], ['coi'], ['cov', 'cor'], ['cov', 'coi'], ['cor', 'coi'], ['cov', 'cor', 'coi']):
        for fixed in (range(4) if thorough else (0, 2)):
            for which in (files if thorough else files[:1]):
                for r in (range(5) if thorough else ((0, 3) if len(files) == 1 else (1,))):
                    dom.append(dict(files=files, fixed=fixed, vs=r % 2, cancel=[which, r]))
    kinds = PHI_ROW_KINDS if thorough else ['full', 'allzero', 'eta_fix_last', 'etc_offdiag', 'fo', 'only_obj']
    for rows in [(k,) for k in kinds] + [('full', k, 'full') for k in kinds] + \
            ([(a, b) for a in kinds for b in kinds] if thorough else [('eta_fix_first', 'allzero'), ('obj0', 'one_etc')]):
        dom.append(dict(files=[], fixed=0, vs=0, phi=list(rows)))
    return dom


# ---- end to end on a synthetic run directory: several $TABLE files, EM-method phi files ------------
#
# A small one-compartment model is written as NONMEM code together with its data set, an ext file and the
# output files under test; everything pharmpy is asked to report was written here, so the reference is
# the writer's own input.

C_E_TABS = ('read_modelfit_results on a run with several $TABLE files: predictions, residuals and derivatives hold '
            'under each column name (PRED, IPRED, CIPREDI, CPRED / RES, WRES, CWRES / G and H columns) the numbers '
            'written in that column of the table files, whatever columns the tables share and in whatever order '
            'they list them')
C_E_MU = ('read_modelfit_results on a run whose phi file has PHI/PHC columns (EM methods): individual_estimates are '
          'ETA(i) = PHI(i) - MU_i with MU_i evaluated at the final estimates of the run (the model value for FIXed '
          'parameters, the baseline covariates of the individual; PHI(i) itself when the model defines no MU_i), '
          'individual_ofv and individual_estimates_covariance are the printed OBJ and PHC values; with ETA/ETC '
          'columns the printed values are reported unchanged')
C_E_MU_ID = ('individual_estimates from PHI columns subtract from each line the MU_i of the SAME individual (baseline '
             'covariates matched by ID) when the phi file has no usable line for some individual of the data set')
RUN_WGT = [2.5, 3.5, 4.5]          # baseline covariate of the individuals 1, 2, 3 of the written data set
RUN_PRED = ['PRED', 'CIPREDI', 'CPRED', 'IPRED']
RUN_RES = ['RES', 'WRES', 'CWRES']
RUN_DERIV = {'G11': 'ETA_1', 'G21': 'ETA_2', 'H11': 'EPS_1'}
RUN_COLS = ['ID', 'TIME', 'WGT', 'DV', 'PRED', 'CIPREDI', 'CPRED', 'IPRED', 'RES', 'WRES', 'CWRES', 'G11', 'G21', 'H11']
RUN_APPENDED = ['DV', 'PRED', 'RES', 'WRES']
# column lists that name items of the appended block themselves (DV / PRED / RES / WRES first, in the middle, last)
RUNTAB_BODIES_APP = [['DV'], ['DV', 'IPRED'], ['IPRED', 'DV'], ['DV', 'CWRES'], ['DV', 'PRED', 'IPRED'],
                     ['PRED', 'DV', 'CIPREDI'], ['WGT', 'DV', 'G11'], ['DV', 'WRES', 'CPRED'], ['WRES'],
                     ['WRES', 'IPRED'], ['RES', 'DV', 'WRES', 'CWRES'], ['DV', 'H11', 'G21']]


def _run_write_data(d, no_obs=()):
    """individuals listed in no_obs have a dose record only (NONMEM prints an all-zero phi line for them)"""
    rows = ['ID TIME AMT WGT DV']
    for i, (w, nobs) in enumerate(zip(RUN_WGT, SYN_OBS), start=1):
        rows.append(f'{i} 0 25 {w} 0')
        for k in range(0 if i in no_obs else nobs):
            rows.append(f'{i} {2.0 + k} 0 {w} {10 + k + i}')
    with open(os.path.join(d, 'syn.dta'), 'w') as fh:
        fh.write('\n'.join(rows) + '\n')


def _run_ext(labels, init, final, fixed, method, last=None):
    """ext file: iteration 0 at the initial values, a last iteration and the final row at the final values, flags;
    with `last` the last printed iteration has these values instead of those of the final row (same OBJ)"""
    tok = lambda x: '%.5E' % x  # noqa
    last = final if last is None else last
    rows = [(0, {lab: tok(init[lab]) for lab in labels}, OBJTOKENS[0]),
            (35, {lab: tok(last[lab]) for lab in labels}, OBJTOKENS[2]),
            (ITER_FINAL, {lab: tok(final[lab]) for lab in labels}, OBJTOKENS[2]),
            (ITER_FIX, {lab: ('1.00000E+00' if lab in fixed else '0.00000E+00') for lab in labels},
             '0.0000000000000000')]
    return _render_ext([dict(number=1, method=method, file_order=labels, rows=rows, problem=1, sub=0)])


def _run_cell(col, r):
    """printed token of row r of a column: the same in every table that lists the column, different for
    different columns"""
    if col == 'ID':
        return '%.4E' % (1 + r // 2)
    k = RUN_COLS.index(col)
    x = (k + 2) * 11.5 + r * 1.25
    return '%.4E' % (-x if col in RUN_RES or col == 'G21' else x)


def _run_file_columns(tab):
    """columns of the file NONMEM writes for a $TABLE record: the listed items, with DV PRED RES WRES appended
    (and PRED RES WRES taken out of the list) unless NOAPPEND"""
    if tab['noappend']:
        return list(tab['cols'])
    return [c for c in tab['cols'] if c not in ('PRED', 'RES', 'WRES')] + RUN_APPENDED


def _run_render_table(cols, nrow, number=1):
    lines = ['TABLE NO.%3d' % number, ' ' + ''.join(c.ljust(12) for c in cols).rstrip()]
    for r in range(nrow):
        lines.append(''.join(_run_cell(c, r).rjust(12) for c in cols))
    return '\n'.join(lines) + '\n'


RUN_MODEL_HEAD = ['$PROBLEM synthetic run', '$DATA syn.dta IGNORE=@', '$INPUT ID TIME AMT WGT DV',
                  '$SUBROUTINE ADVAN1 TRANS2']
RUN_MODEL_ERROR = ['$ERROR', 'IPRED = F', 'Y = IPRED + IPRED*EPS(1)']


def _runtab_check(inp):
    import tempfile

    from pharmpy.tools import read_modelfit_results

    nrow = inp['nrow']
    lines = RUN_MODEL_HEAD + ['$PK', 'CL = THETA(1)*EXP(ETA(1))', 'V = THETA(2)*EXP(ETA(2))', 'S1 = V'] + RUN_MODEL_ERROR
    lines += ['$THETA (0,0.5)', '$THETA (0,1.5)', '$OMEGA 0.1', '$OMEGA 0.2', '$SIGMA 0.02',
              '$ESTIMATION METHOD=1 INTERACTION']
    files = []
    for k, tab in enumerate(inp['tables'], start=1):
        lines.append('$TABLE ' + ' '.join(tab['cols']) + (' NOAPPEND' if tab['noappend'] else '')
                     + f' NOPRINT ONEHEADER FILE=tab{k}')
        files.append((f'tab{k}', _run_file_columns(tab)))
    labels = ['THETA1', 'THETA2', 'SIGMA(1,1)', 'OMEGA(1,1)', 'OMEGA(2,1)', 'OMEGA(2,2)']
    init = dict(zip(labels, [0.5, 1.5, 0.02, 0.1, 0.0, 0.2]))
    final = dict(zip(labels, [0.61, 1.72, 0.031, 0.12, 0.0, 0.23]))
    code = '\n'.join(lines) + '\n'
    tag = json.dumps(_js(inp)) + ' | ' + ' | '.join(ln for ln in lines if ln.startswith('$TABLE'))
    with tempfile.TemporaryDirectory() as d:
        _run_write_data(d)
        with open(os.path.join(d, 'run1.mod'), 'w') as fh:
            fh.write(code)
        with open(os.path.join(d, 'run1.ext'), 'w') as fh:
            fh.write(_run_ext(labels, init, final, ['OMEGA(2,1)'], METHODS[0]))
        for name, cols in files:
            with open(os.path.join(d, name), 'w') as fh:
                fh.write(_run_render_table(cols, nrow))
        try:
            res = read_modelfit_results(os.path.join(d, 'run1.mod'))
            got = {'predictions': res.predictions, 'residuals': res.residuals, 'derivatives': res.derivatives}
        except Exception as e:
            return [(FID_PARSE, C_E_TABS, f'{tag}: raised {type(e).__name__}: {e}')]
    written = [c for _, cols in files for c in cols]
    want = {
        'predictions': {c: c for c in RUN_PRED if c in written},
        'residuals': {c: c for c in RUN_RES if c in written},
        'derivatives': {RUN_DERIV[c]: c for c in RUN_DERIV if c in written},
    }
    bad = None
    for field, cols in want.items():
        df = got[field]
        if not cols:
            if df is not None and len(df.columns):
                bad = f'{field} has columns {list(df.columns)} although no table lists one'
            continue
        if df is None or sorted(df.columns) != sorted(cols):
            bad = f'{field} has columns {None if df is None else list(df.columns)}, the tables list {sorted(cols.values())}'
            break
        if len(df) != nrow:
            bad = f'{field} has {len(df)} rows, the tables {nrow}'
            break
        for name, col in cols.items():
            vals = [float(x) for x in df[name].tolist()]
            wr = [float(_run_cell(col, r)) for r in range(nrow)]
            if not all(_close(a, b, 0, 0) for a, b in zip(vals, wr)):
                bad = f'{field}[{name}] is {vals}, column {col} was written as {wr}'
                break
        if bad:
            break
    if bad:
        return [(FID_PARSE, C_E_TABS, f'{tag}: {bad} | files: ' + '; '.join(f'{n}: {" ".join(c)}' for n, c in files))]
    return []


def _runtab_inputs(tier):
    thorough = tier == 'thorough'
    prefixes = [[], ['ID'], ['ID', 'TIME'], ['TIME', 'ID']]
    bodies = [[], ['IPRED'], ['CWRES'], ['CPRED'], ['PRED'], ['WGT'], ['G11'], ['IPRED', 'CWRES'], ['CWRES', 'IPRED'],
              ['WGT', 'IPRED'], ['PRED', 'IPRED'], ['IPRED', 'RES'], ['CIPREDI', 'CPRED'], ['H11', 'G21', 'G11']]

    def options(ps, bs):
        out = []
        for p in ps:
            for b in bs:
                for noappend in (False, True):
                    if noappend and not (p + b):
                        continue          # a table without any column
                    out.append(dict(cols=p + b, noappend=noappend))
        return out

    full = options(prefixes, bodies)
    first_quick = [dict(cols=c, noappend=na) for c, na in (
        (['IPRED'], False), (['WGT', 'CWRES'], True), (['ID', 'TIME'], False), (['ID', 'TIME'], True),
        (['ID', 'TIME', 'IPRED'], False), (['ID', 'TIME', 'IPRED'], True), (['ID', 'TIME', 'PRED', 'IPRED'], False),
        (['ID', 'TIME', 'WGT', 'CWRES'], True))]
    first = options([[], ['ID', 'TIME']], bodies) if thorough else first_quick
    dom = [dict(tables=[t], nrow=4) for t in full]
    dom += [dict(tables=[a, b], nrow=4) for a in first for b in full]
    t1 = options([['ID', 'TIME']], [[], ['IPRED']])[:3]
    t2 = options([['ID', 'TIME'], ['ID']], [['CWRES'], ['WGT', 'CPRED']]) if not thorough else first
    t3 = options([[], ['ID', 'TIME'], ['TIME', 'ID']], [['CIPREDI'], ['G11', 'IPRED'], ['H11']])
    if not thorough:
        t3 = [t for t in t3 if t['noappend']]
    dom += [dict(tables=[a, b, c], nrow=3) for a in t1 for b in t2 for c in t3]
    # appended: tables that list items of the appended block (DV PRED RES WRES) themselves, at every position of
    # the list.  Without NOAPPEND an explicitly listed DV stays where it is listed (and DV is written a second time
    # in the appended block), explicitly listed PRED RES WRES are only written in the appended block.
    full2 = options(prefixes, RUNTAB_BODIES_APP)
    dom += [dict(tables=[t], nrow=4) for t in full2]
    if thorough:
        first2 = options([[], ['ID', 'TIME']], RUNTAB_BODIES_APP)
        dom += [dict(tables=[a, b], nrow=4) for a in first2 for b in full2]
        dom += [dict(tables=[a, b], nrow=4) for a in first_quick for b in full2]
    else:
        first2 = [dict(cols=c, noappend=na) for c, na in (
            (['ID', 'TIME', 'DV', 'IPRED'], False), (['DV', 'WRES', 'CPRED'], False), (['ID', 'DV', 'CWRES'], True))]
        second2 = options([[], ['ID', 'TIME']], RUNTAB_BODIES_APP)
        dom += [dict(tables=[a, b], nrow=4) for a in first2 for b in second2]
        second = [t for t in options([['ID', 'TIME']], bodies) if not t['noappend']]
        dom += [dict(tables=[a, b], nrow=4) for a in first2[:2] for b in second]
    return dom


RUN_MU_FORMS = ['none', 'lin', 'log', 'cov', 'prod']
RUN_MU_FIX = ['none', 'first', 'cov']


def _runmu_check(inp):
    import tempfile

    from pharmpy.tools import read_modelfit_results

    forms, fix, phc = inp['forms'], inp['fix'], inp['phc']
    # THETA(1), THETA(2): typical values of CL and V; THETA(3): covariate coefficient / common factor
    init = {'THETA1': 0.5, 'THETA2': 1.5, 'THETA3': 0.75, 'SIGMA(1,1)': 0.02, 'OMEGA(1,1)': 0.1, 'OMEGA(2,1)': 0.0,
            'OMEGA(2,2)': 0.2}
    final = {'THETA1': 0.61, 'THETA2': 1.72, 'THETA3': 0.93, 'SIGMA(1,1)': 0.031, 'OMEGA(1,1)': 0.12, 'OMEGA(2,1)': 0.0,
             'OMEGA(2,2)': 0.23}
    fixed = ['OMEGA(2,1)'] + {'none': [], 'first': ['THETA1'], 'cov': ['THETA3']}[fix]
    for lab in fixed:
        final[lab] = init[lab]           # a FIXed parameter stays at its value
    labels = ['THETA1', 'THETA2', 'THETA3', 'SIGMA(1,1)', 'OMEGA(1,1)', 'OMEGA(2,1)', 'OMEGA(2,2)']
    last = None
    if inp.get('last') == 'differs':
        # the last printed iteration is not repeated by the final row: MU_i is to be evaluated at row -1000000000
        last = {lab: final[lab] if lab in fixed else (init[lab] + 2 * final[lab]) / 3 for lab in labels}
    pk = ['$PK']
    for i, (form, par) in enumerate(zip(forms, ('CL', 'V')), start=1):
        mu = {'lin': f'THETA({i})', 'log': f'LOG(THETA({i}))', 'cov': f'LOG(THETA({i})) + THETA(3)*LOG(WGT/3)',
              'prod': f'LOG(THETA({i})*THETA(3))'}.get(form)
        if mu is None:
            pk.append(f'{par} = THETA({i})*THETA(3)*EXP(ETA({i}))')
        else:
            pk += [f'MU_{i} = {mu}', f'{par} = EXP(MU_{i} + ETA({i}))']
    pk.append('S1 = V')

    def ref_mu(form, i, wgt):
        th, th3 = final[f'THETA{i}'], final['THETA3']
        return {'none': 0.0, 'lin': th, 'log': math.log(th), 'cov': math.log(th) + th3 * math.log(wgt / 3),
                'prod': math.log(th * th3)}[form]

    lines = RUN_MODEL_HEAD + pk + RUN_MODEL_ERROR
    for lab in ('THETA1', 'THETA2', 'THETA3'):
        lines.append(f'$THETA (0,{init[lab]})' + (' FIX' if lab in fixed else ''))
    lines += ['$OMEGA 0.1', '$OMEGA 0.2', '$SIGMA 0.02']
    lines.append('$ESTIMATION METHOD=SAEM INTERACTION NBURN=200 NITER=100' if phc
                 else '$ESTIMATION METHOD=1 INTERACTION')
    method = METHODS[3] if phc else METHODS[0]
    phi = _phi_spec(dict(netas=2, nind=3, rows=inp['rows'], phc=phc, vs=inp['vs']), 1)
    phi['rows'] = [(sno, sno, cells, obj) for sno, _, cells, obj in phi['rows']]     # individuals 1, 2, 3
    e, c = ('PHI', 'PHC') if phc else ('ETA', 'ETC')
    tag = json.dumps(_js(inp)) + ' | ' + ' | '.join(pk[1:-1])
    clause = C_E_MU
    with tempfile.TemporaryDirectory() as d:
        _run_write_data(d, no_obs=[k + 1 for k, kind in enumerate(inp['rows']) if kind == 'allzero'])
        with open(os.path.join(d, 'run1.mod'), 'w') as fh:
            fh.write('\n'.join(lines) + '\n')
        with open(os.path.join(d, 'run1.ext'), 'w') as fh:
            fh.write(_run_ext(labels, init, final, fixed, method, last=last))
        with open(os.path.join(d, 'run1.phi'), 'w') as fh:
            fh.write(_render_phi([phi]))
        try:
            res = read_modelfit_results(os.path.join(d, 'run1.mod'))
            iofv, ie, iec = res.individual_ofv, res.individual_estimates, res.individual_estimates_covariance
            pe = res.parameter_estimates
        except Exception as ex:
            if phc and 'cov' in forms and any(k == 'allzero' for k in inp['rows']):
                clause = C_E_MU_ID
            return [(FID_PARSE, clause, f'{tag}: raised {type(ex).__name__}: {ex} | phi:\n{_render_phi([phi])}')]
    keep = [r for r in phi['rows'] if any(float(v) != 0 for v in r[2].values()) or float(r[3]) != 0]
    ids = [r[1] for r in keep]
    if len(keep) < len(phi['rows']) and phc and 'cov' in forms:
        clause = C_E_MU_ID
    want = {}
    for r in keep:
        for i, form in enumerate(forms, start=1):
            printed = float(r[2][f'{e}({i})'])
            want[(r[1], i)] = printed - ref_mu(form, i, RUN_WGT[r[1] - 1]) if phc else printed
    bad = None
    try:
        if iofv is None or ie is None or iec is None:
            bad = 'individual results missing'
        elif [int(x) for x in ie.index] != ids or [int(x) for x in iofv.index] != ids or [int(x) for x in iec.index] != ids:
            bad = f'individuals {list(ie.index)} / {list(iofv.index)} / {list(iec.index)}, expected {ids}'
        elif len(ie.columns) != 2:
            bad = f'columns {list(ie.columns)}'
        else:
            for k, r in enumerate(keep):
                for i in (1, 2):
                    g = float(ie.iloc[k, i - 1])
                    if not _close(g, want[(r[1], i)], 1e-9, 1e-9):
                        bad = bad or (f'ETA({i}) of individual {r[1]} is {g}, expected {want[(r[1], i)]} = printed '
                                      f'{r[2][f"{e}({i})"]}' + (f' - MU_{i} at the final estimates' if phc else ''))
                if not _close(iofv.iloc[k], float(r[3]), 0, 0):
                    bad = bad or f'individual_ofv of {r[1]} is {iofv.iloc[k]}, printed {r[3]}'
                m = iec.iloc[k]
                for a in (1, 2):
                    for b in range(1, a + 1):
                        w = float(r[2][f'{c}({a},{b})'])
                        if not (_close(m.iloc[a - 1, b - 1], w, 0, 0) and _close(m.iloc[b - 1, a - 1], w, 0, 0)):
                            bad = bad or f'covariance ({a},{b}) of individual {r[1]} is {m.iloc[a - 1, b - 1]}, printed {w}'
    except Exception as ex:
        bad = f'raised {type(ex).__name__}: {ex}'
    if bad:
        return [(FID_PARSE, clause, f'{tag}: {bad}; final estimates {None if pe is None else pe.to_dict()} | phi:\n'
                                    f'{_render_phi([phi])}')]
    return []


def _runmu_inputs(tier):
    dom = []
    thorough = tier == 'thorough'
    for forms in itertools.product(RUN_MU_FORMS, repeat=2):
        for fix in RUN_MU_FIX:
            for phc in (True, False):
                if not phc and not thorough and fix != 'none':
                    continue
                for rows in ([['full'] * 3, ['full', 'allzero', 'full']] + ([['fo', 'full', 'eta_fix_last']] if thorough else [])):
                    if rows != ['full'] * 3 and not (thorough or fix == 'none'):
                        continue
                    for vs in ((0, 1) if thorough else (0,)):
                        dom.append(dict(forms=list(forms), fix=fix, phc=phc, rows=rows, vs=vs))
    # appended: ext files whose final row (-1000000000) does not repeat the last printed iteration
    for forms in itertools.product(RUN_MU_FORMS, repeat=2):
        for fix in (RUN_MU_FIX if thorough else ['none']):
            for phc in ((True, False) if thorough else (True,)):
                dom.append(dict(forms=list(forms), fix=fix, phc=phc, rows=['full'] * 3, vs=0, last='differs'))
    return dom


# ---- end to end on a synthetic run directory: ext files whose designated rows are written independently ----
#
# NONMEM designates row -1000000000 of the table of the last estimation step for the final estimates and the
# final objective value, row -1000000001 for the standard errors, rows -1000000004 / -1000000005 for the sd/corr
# form and row -1000000006 for the FIX flags.  The printed iterations are a trace; the final row need not repeat
# the last printed iteration (estimates are re-evaluated / printed with other settings, BAYES reports the mean of
# the samples), so the writer below generates every row on its own and the reference is the writer's input.

C_RX_EXC = 'read_modelfit_results raises no exception on a run directory with a model and a complete ext file'
C_RX_PE = ('read_modelfit_results: parameter_estimates are the values of row -1000000000 of the table of the last '
           'estimation step (not those of a printed iteration or of an earlier step), under the model parameter names in '
           'model order, FIXed parameters left out')
C_RX_OFV = 'read_modelfit_results: ofv is the OBJ of row -1000000000 of the table of the last estimation step'
C_RX_SE = ('read_modelfit_results: standard_errors are the values of row -1000000001 of the table of the last estimation '
           'step under the model parameter names without FIXed parameters, and relative_standard_errors = standard error '
           '/ final estimate')
C_RX_SDC = ('parameter_estimates_sdcorr / standard_errors_sdcorr hold the final estimates / standard errors of the thetas '
            'and the values of rows -1000000004 / -1000000005 for omegas and sigmas, FIXed parameters left out')
C_RX_ITER = ('parameter_estimates_iterations and ofv_iterations hold, for every estimation step that printed iteration 0, '
             'the printed iterations: iteration number, values of the estimated parameters, OBJ')
C_RX_MEAN = ('parameter_estimates and ofv are those of row -1000000000 also when the OBJ of that row differs from the OBJ '
             'of the last printed iteration (a BAYES step reports the mean over the samples in that row)')
RX_LABELS = ['THETA1', 'THETA2', 'THETA3', 'SIGMA(1,1)', 'OMEGA(1,1)', 'OMEGA(2,1)', 'OMEGA(2,2)']       # file order
RX_MODEL_ORDER = ['THETA1', 'THETA2', 'THETA3', 'OMEGA(1,1)', 'OMEGA(2,1)', 'OMEGA(2,2)', 'SIGMA(1,1)']
RX_NAMES = {'THETA1': 'TVCL', 'THETA2': 'TVV', 'THETA3': 'TVCOV', 'OMEGA(1,1)': 'OMEGA_1_1', 'OMEGA(2,1)': 'OMEGA_2_1',
            'OMEGA(2,2)': 'OMEGA_2_2', 'SIGMA(1,1)': 'SIGMA_1_1'}
RX_INIT = {'THETA1': 0.5, 'THETA2': 1.5, 'THETA3': 0.75, 'SIGMA(1,1)': 0.02, 'OMEGA(1,1)': 0.1, 'OMEGA(2,1)': 0.01,
           'OMEGA(2,2)': 0.2}
RX_ITERS = [[0, 5, 9], [0, 9], [0], []]
RX_FINALS = ['copy', 'all'] + RX_LABELS + ['mean']


def _rx_fixset(fix, block):
    fixed = {0: [], 1: ['THETA3'], 2: ['OMEGA(1,1)', 'OMEGA(2,1)', 'OMEGA(2,2)'] if block else ['OMEGA(2,2)'],
             3: ['SIGMA(1,1)']}[fix]
    return fixed if block else fixed + ['OMEGA(2,1)']


def _rx_tables(inp):
    """the tables of the ext file (one per estimation step), every row generated on its own"""
    e5 = lambda x: '%.5E' % x  # noqa
    block, iters_last = inp['block'], inp['iters']
    fixed = _rx_fixset(inp['fix'], block)
    init = dict(RX_INIT)
    if not block:
        init['OMEGA(2,1)'] = 0.0
    zero = '0.0000000000000000'
    tables = []
    for s in range(1, inp['nsteps'] + 1):
        last_step = s == inp['nsteps']
        iters = iters_last if last_step else [0, 4, 8]
        rows = []
        val = lambda lab, k: init[lab] if lab in fixed else init[lab] * (1 + 0.07 * k + 0.013 * (s - 1))  # noqa
        for k, it in enumerate(iters):
            rows.append((it, {lab: e5(val(lab, k)) for lab in RX_LABELS}, OBJTOKENS[(k + 2 * s) % len(OBJTOKENS)]))
        klast = len(iters) - 1 if iters else 3
        objf = OBJTOKENS[(klast + 2 * s) % len(OBJTOKENS)]
        final = {lab: val(lab, klast) for lab in RX_LABELS}
        how = inp['final'] if last_step else 'copy'
        if how == 'mean':
            objf = OBJTOKENS[(klast + 2 * s + 3) % len(OBJTOKENS)]
        for lab in RX_LABELS:
            if lab not in fixed and (how in ('all', 'mean') or how == lab):
                final[lab] *= 0.9973 if how == 'mean' else 1.0021
        rows.append((ITER_FINAL, {lab: e5(final[lab]) for lab in RX_LABELS}, objf))
        if inp['se'] or not last_step:
            se = {lab: 0.1 * abs(final[lab]) * (1 + 0.1 * j) for j, lab in enumerate(RX_LABELS)}
            big = '1.00000E+10'
            rows.append((ITER_SE, {lab: big if lab in fixed else e5(se[lab]) for lab in RX_LABELS}, zero))
            sd = {}
            for lab in RX_LABELS:
                if lab.startswith('THETA'):
                    sd[lab] = 0.0
                elif lab == 'OMEGA(2,1)':
                    sd[lab] = final[lab] / math.sqrt(final['OMEGA(1,1)'] * final['OMEGA(2,2)'])
                else:
                    sd[lab] = math.sqrt(final[lab])
            rows.append((ITER_SDC, {lab: e5(sd[lab]) for lab in RX_LABELS}, zero))
            rows.append((ITER_SESDC, {lab: ('0.00000E+00' if lab.startswith('THETA') else big if lab in fixed
                                            else e5(0.37 * se[lab] / (abs(sd[lab]) + 0.5))) for lab in RX_LABELS}, zero))
        if inp['fixrow']:
            rows.append((ITER_FIX, {lab: ('1.00000E+00' if lab in fixed else '0.00000E+00') for lab in RX_LABELS}, zero))
        if last_step:
            method = METHODS[4] if how == 'mean' else METHODS[0] if inp['nsteps'] == 1 else METHODS[2]
        else:
            method = METHODS[3]
        tables.append(dict(number=s, method=method, file_order=RX_LABELS, rows=rows, problem=1, sub=0))
    return tables, fixed


def _rx_model(inp, fixed):
    block = inp['block']
    fx = lambda lab: ' FIX' if lab in fixed else ''  # noqa
    lines = RUN_MODEL_HEAD + ['$PK', 'CL = THETA(1)*EXP(ETA(1))*(WGT/3)**THETA(3)', 'V = THETA(2)*EXP(ETA(2))', 'S1 = V']
    lines += RUN_MODEL_ERROR
    lines += [f'$THETA (0,0.5){fx("THETA1")} ; TVCL', f'$THETA (0,1.5){fx("THETA2")} ; TVV',
              f'$THETA (0,0.75){fx("THETA3")} ; TVCOV']
    if block:
        lines.append(f'$OMEGA BLOCK(2){fx("OMEGA(1,1)")} 0.1 0.01 0.2')
    else:
        lines += [f'$OMEGA 0.1{fx("OMEGA(1,1)")}', f'$OMEGA 0.2{fx("OMEGA(2,2)")}']
    lines.append(f'$SIGMA 0.02{fx("SIGMA(1,1)")}')
    for s in range(1, inp['nsteps'] + 1):
        if s < inp['nsteps']:
            lines.append('$ESTIMATION METHOD=SAEM INTERACTION NBURN=200 NITER=100')
        elif inp['final'] == 'mean':
            lines.append('$ESTIMATION METHOD=BAYES INTERACTION NBURN=100 NITER=100')
        elif not inp['iters']:
            lines.append('$ESTIMATION METHOD=1 INTERACTION MAXEVAL=0')
        elif inp['nsteps'] == 1:
            lines.append('$ESTIMATION METHOD=1 INTERACTION')
        else:
            lines.append('$ESTIMATION METHOD=IMP INTERACTION NITER=10')
    return lines


def _runext_check(inp):
    import tempfile

    from pharmpy.tools import read_modelfit_results

    tables, fixed = _rx_tables(inp)
    ext = _render_ext(tables)
    lines = _rx_model(inp, fixed)
    tag = json.dumps(_js(inp))
    with tempfile.TemporaryDirectory() as d:
        _run_write_data(d)
        with open(os.path.join(d, 'run1.mod'), 'w') as fh:
            fh.write('\n'.join(lines) + '\n')
        with open(os.path.join(d, 'run1.ext'), 'w') as fh:
            fh.write(ext)
        try:
            res = read_modelfit_results(os.path.join(d, 'run1.mod'))
            pe, ofv, ses, rse = res.parameter_estimates, res.ofv, res.standard_errors, res.relative_standard_errors
            pesd, sesd = res.parameter_estimates_sdcorr, res.standard_errors_sdcorr
            pit, oit = res.parameter_estimates_iterations, res.ofv_iterations
        except Exception as e:
            return [(FID_PARSE, C_RX_EXC, f'{tag}: raised {type(e).__name__}: {e} | ext:\n{ext}')]
    live = [lab for lab in RX_MODEL_ORDER if lab not in fixed]
    names = [RX_NAMES[lab] for lab in live]
    rows = {it: (cells, obj) for it, cells, obj in tables[-1]['rows']}
    fcells, fobj = rows[ITER_FINAL]
    want_pe = {RX_NAMES[lab]: float(fcells[lab]) for lab in live}
    mean = inp['final'] == 'mean'
    fails = []

    def ser_ok(ser, want, ordered=True):
        if ser is None or not hasattr(ser, 'index'):
            return False
        if (list(ser.index) != list(want)) if ordered else (sorted(ser.index) != sorted(want)):
            return False
        return all(_close(float(ser[k]), v, 1e-12, 0) for k, v in want.items())

    def show(ser):
        return ser.to_dict() if hasattr(ser, 'to_dict') else ser

    if not ser_ok(pe, want_pe):
        fails.append((FID_PARSE, C_RX_MEAN if mean else C_RX_PE,
                      f'{tag}: parameter_estimates {show(pe)}; row -1000000000 of table {len(tables)} has {want_pe} | ext:\n{ext}'))
    if not _close(ofv, float(fobj), 0, 0):
        fails.append((FID_PARSE, C_RX_MEAN if mean else C_RX_OFV,
                      f'{tag}: ofv {ofv}; row -1000000000 of table {len(tables)} has OBJ {fobj} | ext:\n{ext}'))
    if mean:
        return fails[:1]
    if inp['se']:
        want_se = {RX_NAMES[lab]: float(rows[ITER_SE][0][lab]) for lab in live}
        want_rse = {k: want_se[k] / want_pe[k] for k in want_se}
        if not (ser_ok(ses, want_se) and ser_ok(rse, want_rse, ordered=False)):
            fails.append((FID_PARSE, C_RX_SE, f'{tag}: standard_errors {show(ses)} relative_standard_errors {show(rse)}; '
                                              f'row -1000000001 has {want_se}, final estimates {want_pe} | ext:\n{ext}'))
        want_pesd = {RX_NAMES[lab]: float((fcells if lab.startswith('THETA') else rows[ITER_SDC][0])[lab]) for lab in live}
        want_sesd = {RX_NAMES[lab]: float((rows[ITER_SE][0] if lab.startswith('THETA') else rows[ITER_SESDC][0])[lab])
                     for lab in live}
        if not (ser_ok(pesd, want_pesd, ordered=False) and ser_ok(sesd, want_sesd, ordered=False)):
            fails.append((FID_PARSE, C_RX_SDC, f'{tag}: parameter_estimates_sdcorr {show(pesd)} standard_errors_sdcorr '
                                               f'{show(sesd)}; written {want_pesd} / {want_sesd} | ext:\n{ext}'))
    bad = None
    try:
        got_p = {(int(s), int(i)): r for (s, i), r in pit.iterrows()}
        got_o = {(int(s), int(i)): float(v) for (s, i), v in oit.items()}
        for t in tables:
            its = [r for r in t['rows'] if r[0] >= 0]
            if not its:
                continue
            if sorted(k[1] for k in got_p if k[0] == t['number']) != [r[0] for r in its] or \
                    sorted(k[1] for k in got_o if k[0] == t['number']) != [r[0] for r in its]:
                bad = (f'step {t["number"]} has iterations {sorted(k[1] for k in got_p if k[0] == t["number"])} / '
                       f'{sorted(k[1] for k in got_o if k[0] == t["number"])}, printed {[r[0] for r in its]}')
                break
            for it, cells, obj in its:
                r = got_p[(t['number'], it)]
                for lab in live:
                    if RX_NAMES[lab] not in r.index or not _close(float(r[RX_NAMES[lab]]), float(cells[lab]), 1e-12, 0):
                        bad = bad or (f'step {t["number"]} iteration {it}: {RX_NAMES[lab]} is '
                                      f'{r.get(RX_NAMES[lab])}, printed {cells[lab]}')
                if not _close(got_o[(t['number'], it)], float(obj), 0, 0):
                    bad = bad or f'step {t["number"]} iteration {it}: OFV {got_o[(t["number"], it)]}, printed {obj}'
            if bad:
                break
    except Exception as e:
        bad = f'raised {type(e).__name__}: {e}'
    if bad:
        fails.append((FID_PARSE, C_RX_ITER, f'{tag}: {bad} | ext:\n{ext}'))
    return fails


def _runext_inputs(tier):
    dom = []

    def add(**kw):
        case = dict(dict(nsteps=1, iters=RX_ITERS[0], final='copy', fix=0, block=False, se=True, fixrow=True), **kw)
        fixed = _rx_fixset(case['fix'], case['block'])
        if case['final'] in fixed:
            return                            # a FIXed parameter does not move
        if not case['iters'] and case['final'] not in ('copy', 'mean'):
            return                            # no printed iteration the final row could differ from
        if case not in dom:
            dom.append(case)

    if tier == 'thorough':
        for nsteps in (1, 2):
            for iters in RX_ITERS:
                for se, fixrow in ((True, True), (False, True), (True, False)):
                    for fix in range(4):
                        for block in (False, True):
                            for final in RX_FINALS:
                                add(nsteps=nsteps, iters=iters, final=final, fix=fix, block=block, se=se, fixrow=fixrow)
        return dom
    for fix in range(4):
        for block in (False, True):
            for final in RX_FINALS:
                add(final=final, fix=fix, block=block)
    for fix in range(4):
        for block in (False, True):
            for final in ('copy', 'all', 'mean'):
                add(nsteps=2, final=final, fix=fix, block=block)
    for iters in RX_ITERS[1:]:
        for nsteps in (1, 2):
            for final in ('copy', 'all', 'THETA1', 'mean'):
                for fix in (0, 1):
                    add(nsteps=nsteps, iters=iters, final=final, fix=fix, block=bool(fix))
    for se, fixrow in ((False, True), (True, False)):
        for fix in range(4):
            for final in ('copy', 'all'):
                add(final=final, fix=fix, block=fix == 2, se=se, fixrow=fixrow)
    return dom


NM_KINDS = {
    'ext': (_ext_check, _ext_inputs, 16),
    'phi': (_phi_check, _phi_inputs, 6),
    'covm': (_cov_check, _cov_inputs, 6),
    'tab': (_tab_check, _tab_inputs, 1),
    'imath': (_imath_check, _imath_inputs, 1),
    'json': (_json_check, _json_inputs, 4),
    'e2e': (_e2e_check, _e2e_inputs, 8),
    'runtab': (_runtab_check, _runtab_inputs, 32),
    'runmu': (_runmu_check, _runmu_inputs, 4),
    'runext': (_runext_check, _runext_inputs, 8),
}


def _nm_worker(task):
    kind, items = task
    fn = NM_KINDS[kind][0]
    col = _Collector()
    for n, (i, inp) in enumerate(items):
        col.cases += 1
        col.nontrivial += 1
        try:
            fails = fn(inp)
        except Exception as e:
            fails = [('contracts/b_rank.py', 'checker error', f'{kind}: {type(e).__name__}: {e} on {inp}')]
        if not col.samples and n == 1:
            col.samples.append(kind + ':' + json.dumps(_js(inp))[:160])
        for fid, clause, detail in fails:
            col.fail((0, i), fid, clause, detail, kind, inp, 'bounded_nonmem_tables_replay')
    return col.export()


def bounded_nonmem_tables(tier):
    import pharmpy.modeling  # noqa: F401  (import before forking)
    import pharmpy.tools  # noqa: F401

    col = _Collector()
    tasks = []
    for kind, (fn, gen, nch) in NM_KINDS.items():
        inputs = list(enumerate(gen(tier)))
        for c in range(nch):
            part = inputs[c::nch]
            if part:
                tasks.append((kind, part))
    tasks.sort(key=lambda t: 0 if t[0] in ('e2e', 'ext', 'runtab') else 1)
    for part in _pool_map(_nm_worker, tasks):
        col.merge(part)
    th = tier == 'thorough'
    app = lambda x: any(c in ('DV', 'WRES') for t in x['tables'] for c in t['cols'])  # noqa  (appended layouts)
    ntab = {k: sum(1 for x in _runtab_inputs(tier) if len(x['tables']) == k and not app(x)) for k in (1, 2, 3)}
    ntab_app = sum(1 for x in _runtab_inputs(tier) if app(x))
    bound = (f'ext files: <= 3 thetas x (1 omega | 2x2 omega block) x sigma, 4 FIX patterns, 5 iteration lists, all 32 '
             f'combinations of the special rows (-1000000000 / -1000000001,-2 / -3 / -4,-5 / -6,-7,-8), 7 method titles, '
             f'{3 if th else 1} value set(s), plus files with {3 if th else 2} estimation steps; phi: <= 3 etas x <= 3 individuals x '
             f'all-zero individual x ETA|PHI x 1-2 tables, plus every assignment of {len(PHI_ROW_KINDS)} line kinds (no zero, all zero '
             f'= no observations, one ETA fixed to 0 with its ETC entries, zero off-diagonal ETC, all ETAs 0, OBJ 0, only OBJ '
             f'non-zero, one non-zero ETC) to <= {3 if th else 2} individuals{"" if th else " and of 4 kinds to 3 individuals"}; '
             f'cov/cor/coi: same parameter configurations x {6 if th else 3} positive '
             f'definite matrices, plus 3 patterns of several FIXed parameters at once, plus for each of 7 FIX patterns, each of '
             f'the three files and every estimated parameter a positive definite matrix of dyadic entries whose printed row of '
             f'that parameter has no zero but sums to exactly 0; $TABLE: <= 3 tables x <= 7 columns x <= 5 rows x repeated headers; triangular numbers n <= '
             f'{60 if th else 6}; JSON: all subsets of 5 field groups x short/17-digit floats; pheno end-to-end: 8 cov/cor/coi file '
             f'subsets x 4 FIX patterns, plus cancelling rows in each file subset ({"4 FIX patterns x every file x 5 rows" if th else "2 FIX patterns, first file, 1-2 rows"}) '
             f'and a rendered phi file with {"every pair of line kinds" if th else "6 line kinds alone and between two full lines"} '
             f'(individual_ofv / individual_estimates / individual_estimates_covariance); synthetic run directories '
             f'(written model, data, ext): 1-3 $TABLE files whose column lists are a prefix (none, ID, ID TIME, TIME ID) plus '
             f'one of 14 bodies over IPRED CWRES CPRED PRED CIPREDI RES WGT G11 G21 H11, with/without NOAPPEND: every single '
             f'table, {"every first table with prefix none / ID TIME" if th else "8 first tables"} x every second table '
             f'({ntab[2]} layouts), and {ntab[3]} three-table layouts (predictions / residuals / derivatives per column); '
             f'phi files of a mu-referenced model: every pair of 5 MU forms (none, theta, log theta, log theta + theta*log '
             f'covariate, log of a product) x 3 FIX patterns x PHI/PHC | ETA/ETC columns with final estimates different '
             f'from the initial ones, also with an individual without observations; appended: $TABLE layouts whose column '
             f'list names items of the appended block itself ({len(RUNTAB_BODIES_APP)} bodies with DV / PRED / RES / WRES first, in '
             f'the middle or last x 4 prefixes x with/without NOAPPEND, {ntab_app} layouts: every single table, '
             f'{"every such table with prefix none / ID TIME and 8 plain first tables x every such second table" if th else "3 such first tables x such second tables with prefix none / ID TIME, 2 of them x 14 plain second tables"}); '
             f'mu-referenced runs whose ext final row does not repeat the last printed iteration (every pair of MU forms'
             f'{" x 3 FIX patterns x PHI|ETA" if th else ", PHI columns"}); run directories with an ext file whose rows are all '
             f'written independently ({len(_runext_inputs(tier))} files: 1-2 estimation steps x printed iterations [0,5,9] | [0,9] | [0] | none x '
             f'final row = copy of the last iteration | differing in one estimated parameter (each of 7) | in all | in all and '
             f'in OBJ (BAYES mean) x 4 FIX patterns x diagonal | block omega x with/without SE rows x with/without FIX-flag row'
             f'{"" if th else "; quick: full final-row x FIX x omega product for one step, reduced combinations for the rest"})')
    return col.result(bound)


def bounded_nonmem_tables_replay(rp):
    case = rp['case']
    inp = _unjs(case['input'])
    fn = NM_KINDS[case['kind']][0]
    for _, c, d in fn(inp):
        if c == case['clause']:
            return (False, d)
    return (True, 'ok')
