"""Contracts for the ADVAN/TRANS kinetic tables of src/pharmpy/model/external/nonmem/advan.py (C01).

PREDPP reference (NONMEM Users Guide VI / help entries TRANS1-TRANS6), transcribed by hand: the
micro rate constants as functions of the BASIC PK parameters of each TRANS.  The returned tuple of
every _advanN_trans function must (i) mention only basic parameters of the chosen TRANS and
(ii) equal the table for all real parameter values with non-zero denominators.
"""
from pyvc.api import *

M = ModuleSpec('src/pharmpy/model/external/nonmem/advan.py', prop='C01')
M.symbolic_division = True

TRUSTED = [
    'PREDPP TRANS definitions transcribed by hand from the NONMEM guides (contracts/advan.py PREDPP)',
    'Expr arithmetic (+ - * /) on symbols is real arithmetic; Expr.symbol(n) is the real variable n',
]

S3 = 'ALPHA + BETA + GAMMA'
P3 = 'ALPHA * BETA + ALPHA * GAMMA + BETA * GAMMA'


def _t5(kxy):  # two-compartment TRANS5 in terms of AOB, ALPHA, BETA; kxy = name-free formulas
    k21 = '((AOB * BETA + ALPHA) / (AOB + 1))'
    k = f'(ALPHA * BETA / {k21})'
    k12 = f'(ALPHA + BETA - {k21} - {k})'
    return [k, k12, k21]


def _t6(k21name):
    k = f'(ALPHA * BETA / {k21name})'
    k12 = f'(ALPHA + BETA - {k21name} - {k})'
    return [k, k12, k21name]


def _t6_3cmt(k21, k31):
    k = f'(ALPHA * BETA * GAMMA / ({k21} * {k31}))'
    k13 = f'(({P3} + {k31} * {k31} - {k31} * ({S3}) - {k} * {k21}) / ({k21} - {k31}))'
    k12 = f'({S3} - {k} - {k13} - {k21} - {k31})'
    return [k, k12, k21, k13, k31]


# function -> {trans: (basic parameters, [rate formulas in the order the function returns them])}
PREDPP = {
    '_advan1and2_trans': {
        'TRANS2': (['CL', 'V'], ['CL / V']),
        'TRANS1': (['K'], ['K']),
    },
    '_advan3_trans': {
        'TRANS3': (['CL', 'V', 'Q', 'VSS'], ['CL / V', 'Q / V', 'Q / (VSS - V)']),
        'TRANS4': (['CL', 'V1', 'Q', 'V2'], ['CL / V1', 'Q / V1', 'Q / V2']),
        'TRANS5': (['AOB', 'ALPHA', 'BETA'], _t5(None)),
        'TRANS6': (['ALPHA', 'BETA', 'K21'], _t6('K21')),
        'TRANS1': (['K', 'K12', 'K21'], ['K', 'K12', 'K21']),
    },
    '_advan4_trans': {
        'TRANS3': (['CL', 'V', 'Q', 'VSS', 'KA'], ['CL / V', 'Q / V', 'Q / (VSS - V)', 'KA']),
        'TRANS4': (['CL', 'V2', 'Q', 'V3', 'KA'], ['CL / V2', 'Q / V2', 'Q / V3', 'KA']),
        'TRANS5': (['AOB', 'ALPHA', 'BETA', 'KA'], _t5(None) + ['KA']),
        'TRANS6': (['ALPHA', 'BETA', 'K32', 'KA'], _t6('K32') + ['KA']),
        'TRANS1': (['K', 'K23', 'K32', 'KA'], ['K', 'K23', 'K32', 'KA']),
    },
    '_advan11_trans': {
        'TRANS4': (['CL', 'V1', 'Q2', 'V2', 'Q3', 'V3'],
                   ['CL / V1', 'Q2 / V1', 'Q2 / V2', 'Q3 / V1', 'Q3 / V3']),
        'TRANS6': (['ALPHA', 'BETA', 'GAMMA', 'K21', 'K31'], _t6_3cmt('K21', 'K31')),
        'TRANS1': (['K', 'K12', 'K21', 'K13', 'K31'], ['K', 'K12', 'K21', 'K13', 'K31']),
    },
    '_advan12_trans': {
        'TRANS4': (['CL', 'V2', 'Q3', 'V3', 'Q4', 'V4', 'KA'],
                   ['CL / V2', 'Q3 / V2', 'Q3 / V3', 'Q4 / V2', 'Q4 / V4', 'KA']),
        'TRANS6': (['ALPHA', 'BETA', 'GAMMA', 'K32', 'K42', 'KA'], _t6_3cmt('K32', 'K42') + ['KA']),
        'TRANS1': (['K', 'K23', 'K32', 'K24', 'K42', 'KA'], ['K', 'K23', 'K32', 'K24', 'K42', 'KA']),
    },
}
ALL_SYMBOLS = sorted({s for tbl in PREDPP.values() for basic, _ in tbl.values() for s in basic}
                     | {'K', 'K12', 'K21', 'K13', 'K31', 'K23', 'K32', 'K24', 'K42'})
for s_ in ALL_SYMBOLS:
    M.consts[s_] = Real


def _symbolic():
    import z3

    from pyvc.symexec import PyTuple, Val
    from pyvc.sym import TBool, TReal

    @M.intrinsic('Expr.symbol')
    def _symbol(ex, st, args, kwargs, node):
        name = node.args[0].value
        return Val(TReal, z3.Const('glob_' + name, z3.RealSort()))

    def consts_of(t, acc):
        if z3.is_const(t) and t.decl().kind() == z3.Z3_OP_UNINTERPRETED:
            acc.add(t.decl().name())
        for c in t.children():
            consts_of(c, acc)
        return acc

    @M.intrinsic('uses_only')
    def _uses_only(ex, st, args, kwargs, node):
        """syntactic: every symbol of the returned expressions is one of the listed basic parameters"""
        res, allowed = args[0], args[1]
        names = {node.args[1].elts[i].value for i in range(len(node.args[1].elts))}
        items = res.items if isinstance(res, PyTuple) else [res]
        used = set()
        for it in items:
            consts_of(z3.simplify(it.t) if False else it.t, used)
        used = {u[5:] for u in used if u.startswith('glob_')}
        return Val(TBool, z3.BoolVal(used <= names))


try:
    import z3  # noqa: F401
    _symbolic()
except ImportError:
    pass

for fn, table in PREDPP.items():
    ens = []
    others = [t for t in table if t != 'TRANS1']
    for trans, (basic, rates) in table.items():
        guard = f"trans == '{trans}'" if trans != 'TRANS1' else ' and '.join(f"trans != '{t}'" for t in others)
        ens.append(f'implies({guard}, uses_only(result, {basic!r}))')
        for i, r in enumerate(rates):
            lhs = 'result' if fn == '_advan1and2_trans' else f'result[{i}]'
            # denominators of the table formula must be non-zero (not stated for plain symbols)
            ens.append(f'implies({guard}, {lhs} == {r})')
    M.contract(fn, params={'trans': Str}, ensures=ens)
