"""Bounded contract checks (never counted as proved) for

  C10  statement dataflow analyses (Statements.full_expression / dependencies / find_assignment /
       find_assignment_index / reassign / remove_symbol_definitions / subs)          -> bounded_dataflow
  C05  compartmental system graph <-> differential equations                         -> bounded_compartmental

The contracts are taken from the property statements; the oracles are the small reference
interpreters in this file (sequential execution with integer values, symbolic execution with
"set of inputs" values, reaching definitions, flow dictionaries) - never the code under test.

Run:  PYTHONPATH=/verif /venv/bin/python -m pyvc.native custom contracts.b_stmts bounded_dataflow quick
"""
import itertools
import multiprocessing
import warnings

warnings.filterwarnings('ignore')

STM = 'src/pharmpy/model/statements.py:'
NPROC = 16

# --------------------------------------------------------------------------------------------------
# lazy pharmpy access (workers import once)
# --------------------------------------------------------------------------------------------------
_PX = {}


def _px():
    if not _PX:
        warnings.filterwarnings('ignore')
        from pharmpy.basic import Expr
        from pharmpy.model import (Assignment, Bolus, Compartment, CompartmentalSystem,
                                   CompartmentalSystemBuilder, Statements, output)
        from pharmpy.model.statements import to_compartmental_system
        _PX.update(Expr=Expr, Assignment=Assignment, Bolus=Bolus, Compartment=Compartment,
                   CompartmentalSystem=CompartmentalSystem, Builder=CompartmentalSystemBuilder,
                   Statements=Statements, output=output, to_cs=to_compartmental_system)
    return _PX


def _exc(e):
    return f'{type(e).__name__}: {str(e)[:160]}'


# ==================================================================================================
#                                   PART 1 :  C10  dataflow
# ==================================================================================================
#
# Program representation (pure data, json friendly):
#   program = tuple of statements
#   statement = (lhs, rhs)         rhs = (a,)            lhs = a
#                                  rhs = (a, b)          lhs = a + b
#                                  rhs = ('pw', a, c, b) lhs = Piecewise((a, c > 0), (b, True))
#             | ('ODE',)           one compartment CENTRAL, Bolus(AMT), output rate CL/V
#                                  (reads CL, V, AMT, t; defines A_CENTRAL(t))
#
# A symbol that is read before any assignment to it is an INPUT (data column / parameter / random
# variable of that name); X, P, E are never assigned and therefore always inputs.

ACENT = 'A_CENTRAL'
_ORDER = ('X', 'P', 'E', 'A', 'B', 'C', 'Y', 'CL', 'V', 'AMT', 't', 'Z', ACENT)
_BASE = 1000
# value of input number k is BASE**k: the value of a sum of inputs encodes its coefficient vector
ENV0 = {name: _BASE ** k for k, name in enumerate(_ORDER)}


def _is_ode(stmt):
    return stmt[0] == 'ODE'


def _reads(stmt):
    if _is_ode(stmt):
        return ('CL', 'V', 'AMT', 't')
    rhs = stmt[1]
    if rhs[0] == 'pw':
        return (rhs[1], rhs[2], rhs[3])
    return tuple(rhs)


def _writes(stmt):
    return ACENT if _is_ode(stmt) else stmt[0]


def _eval(stmt, env):
    """reference semantics of one statement (the ODE is modelled by a fixed injective-ish linear
    function of what it reads; only used to detect that an input of the ODE changed)"""
    if _is_ode(stmt):
        return 7 * env['CL'] + 13 * env['V'] + env['AMT'] + env['t']
    rhs = stmt[1]
    if rhs[0] == 'pw':
        return env[rhs[1]] if env[rhs[2]] > 0 else env[rhs[3]]
    return sum(env[a] for a in rhs)


def ref_exec(prog, env0):
    """sequential execution; returns (value assigned by each statement, final environment)"""
    env = dict(env0)
    vals = []
    for stmt in prog:
        v = _eval(stmt, env)
        env[_writes(stmt)] = v
        vals.append(v)
    return vals, env


def ref_flow(prog):
    """symbolic execution: value = set of inputs it may depend on.
    returns (deps per statement, reaching definitions per statement {symbol: index|None})"""
    state = {}
    deps, reach = [], []
    for i, stmt in enumerate(prog):
        d = set()
        r = {}
        for s in _reads(stmt):
            if s in state:
                d |= state[s][0]
                r[s] = state[s][1]
            else:
                d.add(s)
                r[s] = None
        deps.append(frozenset(d))
        reach.append(r)
        state[_writes(stmt)] = (frozenset(d), i)
    return deps, reach


def _decode_inputs(value):
    """inputs with a non-zero coefficient in an encoded linear form"""
    out = set()
    k = 0
    while value:
        value, digit = divmod(value, _BASE)
        if digit:
            out.add(_ORDER[k])
        k += 1
    return out


def _last_index(prog, name):
    idx = None
    for i, stmt in enumerate(prog):
        if _writes(stmt) == name:
            idx = i
    return idx


def _single_assignment(prog):
    w = [_writes(s) for s in prog]
    return len(w) == len(set(w))


# ---- pharmpy objects ------------------------------------------------------------------------------
_SYM = {}
_STMT = {}


def _sym(name):
    e = _SYM.get(name)
    if e is None:
        px = _px()
        if name == ACENT:
            e = _ode().amounts[0]
        else:
            e = px['Expr'].symbol(name)
        _SYM[name] = e
    return e


def _ode():
    cs = _STMT.get(('ODE',))
    if cs is None:
        px = _px()
        cb = px['Builder']()
        central = px['Compartment'].create('CENTRAL', doses=(px['Bolus'].create('AMT'),))
        cb.add_compartment(central)
        cb.add_flow(central, px['output'], px['Expr'].symbol('CL') / px['Expr'].symbol('V'))
        cs = px['CompartmentalSystem'](cb)
        _STMT[('ODE',)] = cs
    return cs


def _rhs_expr(rhs):
    px = _px()
    if rhs[0] == 'pw':
        return px['Expr'].piecewise((_sym(rhs[1]), _sym(rhs[2]) > 0), (_sym(rhs[3]), True))
    e = _sym(rhs[0])
    for a in rhs[1:]:
        e = e + _sym(a)
    return e


def _mk(stmt):
    o = _STMT.get(stmt)
    if o is None:
        if _is_ode(stmt):
            return _ode()
        o = _px()['Assignment'].create(_sym(stmt[0]), _rhs_expr(stmt[1]))
        _STMT[stmt] = o
    return o


def _names(exprs):
    return {e.name for e in exprs}


def _envx(env, names=None):
    return {_sym(k): v for k, v in env.items() if k != ACENT and (names is None or k in names)}


def _tup(prog):
    """json (lists) -> program (tuples)"""
    return tuple(('ODE',) if s[0] == 'ODE' else (s[0], tuple(s[1])) for s in prog)


def _show(prog):
    out = []
    for s in prog:
        if _is_ode(s):
            out.append('<ODE CENTRAL -CL/V->>')
        elif s[1][0] == 'pw':
            out.append(f'{s[0]}=PW({s[1][1]} if {s[1][2]}>0 else {s[1][3]})')
        else:
            out.append(f'{s[0]}=' + '+'.join(s[1]))
    return '; '.join(out)


# ---- environments ---------------------------------------------------------------------------------
def _envs_for(prog, inputs):
    """integer environments: one (the encoding) for sum programs; all sign patterns of the inputs
    for programs with piecewise statements"""
    if not any((not _is_ode(s)) and s[1][0] == 'pw' for s in prog):
        return [ENV0]
    inputs = sorted(inputs)
    envs = []
    for signs in itertools.product((1, -1), repeat=len(inputs)):
        env = dict(ENV0)
        for s, name in zip(signs, inputs):
            env[name] = s * ENV0[name]
        envs.append(env)
    return envs


def _all_inputs(prog):
    deps, _ = ref_flow(prog)
    out = set()
    for d in deps:
        out |= d
    return out


def _semantic_deps(prog, envs, inputs):
    """for piecewise programs: inputs whose sign flip changes the value of statement i in some
    environment (a lower bound of the true dependencies, exact on this value domain)"""
    index = {tuple(sorted(e.items())): n for n, e in enumerate(envs)}
    vals = [ref_exec(prog, e)[0] for e in envs]
    out = [set() for _ in prog]
    for n, e in enumerate(envs):
        for name in inputs:
            e2 = dict(e)
            e2[name] = -e2[name]
            m = index[tuple(sorted(e2.items()))]
            for i in range(len(prog)):
                if vals[n][i] != vals[m][i]:
                    out[i].add(name)
    return out


# ---- clauses --------------------------------------------------------------------------------------
CL_FE_VALUE = 'full_expression(e) evaluates to the value of e after executing the statements in order'
CL_FE_ERR = 'full_expression raises nothing but the documented ValueError for a list containing an ODE system'
CL_DEP_SUP = 'dependencies(s) includes every input (parameter, random variable, data column) the value of s can depend on'
CL_DEP_EQ = 'dependencies(s) is exactly the set of inputs of s when no symbol is assigned twice'
CL_DEP_ERR = 'dependencies answers for every symbol and statement without internal error (KeyError only for a symbol never assigned)'
CL_DEP_PURE = 'dependencies is a pure query: same answer when asked twice, statements unchanged'
CL_FIND = 'find_assignment(s) is the last assignment of s (None if none) and find_assignment_index(s) its index'
CL_REASSIGN = 'reassign(s, e) is the list with the last assignment of s replaced by s = e and the earlier assignments of s removed'
CL_REASSIGN_VAL = 'after reassign(s, e) every symbol has the value obtained by executing the edited list in order'
CL_REASSIGN_ERR = 'reassign raises no internal error'
CL_SUBS = 'subs keeps length and order and replaces the symbol in every statement'
CL_SUBS_VAL = 'subs of an input by an expression gives the original values with that input set to the expression value'
CL_RSD_SUBSEQ = 'remove_symbol_definitions returns a subsequence of the statements that still contains the given statement'
CL_RSD_NEEDS = 'remove_symbol_definitions never removes a definition that a remaining statement reads'
CL_RSD_VALUE = 'remove_symbol_definitions never changes the value computed by a remaining statement'
CL_RSD_FRAME = 'remove_symbol_definitions removes only earlier definitions of the named symbols and definitions those depend on'
CL_RSD_EFFECT = 'remove_symbol_definitions removes the earlier definitions of a named symbol that no remaining statement reads'
CL_RSD_ERR = 'remove_symbol_definitions raises no internal error'
CL_IMMUT = 'queries and edits leave the original Statements object unchanged'
CL_SPLIT = 'before_odes + ode_system + after_odes is the statement list'


def _fid(method):
    return STM + 'Statements.' + method


class _Fails:
    def __init__(self, prog):
        self.prog = prog
        self.items = {}

    def add(self, method, clause, detail):
        key = (_fid(method), clause)
        if key not in self.items:
            self.items[key] = f'{detail}   [program: {_show(self.prog)}]'


def _val(expr, envx):
    return int(expr.subs(envx))


def _earlier_defs_closure(prog, start):
    """indices reachable from `start` through 'any earlier definition of a symbol that is read'"""
    seen = set()
    todo = list(start)
    while todo:
        i = todo.pop()
        if i in seen:
            continue
        seen.add(i)
        rd = set(_reads(prog[i]))
        for j in range(i):
            if _writes(prog[j]) in rd and j not in seen:
                todo.append(j)
    return seen


def _check_rsd(prog, objs, st, reach, vals0, F):
    """remove_symbol_definitions(symbols, statement) for every statement and every set of <=2 assigned
    symbols the statement does not read (the documented situation: the symbols were removed from it)"""
    n = len(prog)
    # named symbols: symbols defined by an Assignment (the documented domain)
    assigned = sorted({_writes(s) for s in prog if not _is_ode(s)})
    symsets = [(a,) for a in assigned] + list(itertools.combinations(assigned, 2))
    count = 0
    for k in range(n):
        if prog.index(prog[k]) != k:
            continue  # a statement is identified by value: the first equal one
        rd = set(_reads(prog[k]))
        for symset in symsets:
            if rd & set(symset):
                continue
            count += 1
            what = f'remove_symbol_definitions({list(symset)}, statement #{k})'
            try:
                res = st.remove_symbol_definitions([_sym(s) for s in symset], objs[k])
                res = list(res)
            except Exception as e:
                F.add('remove_symbol_definitions', CL_RSD_ERR, f'{what} raised {_exc(e)}')
                continue
            m = len(res)
            embeddings = [K for K in itertools.combinations(range(n), m)
                          if all(objs[K[j]] == res[j] for j in range(m))] if m <= n else []
            if not embeddings:
                F.add('remove_symbol_definitions', CL_RSD_SUBSEQ,
                      f'{what} returned {[repr(s) for s in res]}, not a subsequence')
                continue
            # candidates allowed to go (lenient relation) and definitions that must go
            named = [i for i in range(k) if _writes(prog[i]) in symset]
            allowed = _earlier_defs_closure(prog, named)
            best = None
            for K in embeddings:
                Ks = set(K)
                removed = set(range(n)) - Ks
                problems = []
                if k not in Ks:
                    problems.append((CL_RSD_SUBSEQ, f'{what} removed the statement itself'))
                for i in K:
                    for s, d in reach[i].items():
                        if d is not None and d not in Ks:
                            problems.append((CL_RSD_NEEDS,
                                             f'{what} removed #{d} ({_show([prog[d]])}) but kept #{i} '
                                             f'({_show([prog[i]])}) which reads {s} defined there'))
                kept_prog = tuple(prog[i] for i in K)
                newvals = ref_exec(kept_prog, ENV0)[0]
                for j, i in enumerate(K):
                    if newvals[j] != vals0[i]:
                        problems.append((CL_RSD_VALUE,
                                         f'{what} kept #{i} ({_show([prog[i]])}) whose value changed '
                                         f'(inputs before {sorted(_decode_inputs(vals0[i]))}, after '
                                         f'{sorted(_decode_inputs(newvals[j]))}); result {_show(kept_prog)}'))
                        break
                bad = sorted(i for i in removed if i not in allowed or i >= k)
                if bad:
                    problems.append((CL_RSD_FRAME, f'{what} removed unrelated statement(s) {bad}'))
                # named definitions that nothing remaining reads (lenient: any earlier definition of
                # a symbol read by a remaining statement counts as read)
                for i in named:
                    if i in Ks:
                        readers = [j for j in Ks if j > i and _writes(prog[i]) in _reads(prog[j])]
                        if not readers:
                            problems.append((CL_RSD_EFFECT,
                                             f'{what} kept #{i} ({_show([prog[i]])}) although no remaining '
                                             f'statement reads {_writes(prog[i])}'))
                if not problems:
                    best = []
                    break
                if best is None:
                    best = problems
            for clause, detail in best:
                F.add('remove_symbol_definitions', clause, detail)
    return count


def _check_program(prog, level='full'):
    """evaluate every contract clause on one program; returns {(fid, clause): detail}"""
    px = _px()
    Statements = px['Statements']
    F = _Fails(prog)
    n = len(prog)
    objs = [_mk(s) for s in prog]
    st = Statements(tuple(objs))
    has_ode = any(_is_ode(s) for s in prog)
    deps, reach = ref_flow(prog)
    inputs = _all_inputs(prog)
    envs = _envs_for(prog, inputs)
    piecewise = len(envs) > 1
    execs = [ref_exec(prog, e) for e in envs]
    vals0, final0 = execs[0]
    single = _single_assignment(prog)
    assigned = sorted({_writes(s) for s in prog})
    names = sorted(set(assigned) | inputs | {'X', 'P', 'A', 'Y'})
    if not piecewise:
        # self check of the reference: symbolic dependencies == inputs with non-zero coefficient
        for i in range(n):
            if not has_ode and _decode_inputs(vals0[i]) != set(deps[i]):
                raise AssertionError(('reference inconsistent', prog, i))
    low = _semantic_deps(prog, envs, sorted(inputs)) if piecewise else [set(d) for d in deps]

    # ---- full_expression ---------------------------------------------------------------------
    envxs = [_envx(e, set(names) | {'A', 'Y', 'P', 'E', 'X'}) for e in envs]
    if has_ode:
        try:
            st.full_expression(_sym('Y'))
            F.add('full_expression', CL_FE_ERR, 'no ValueError for a list containing an ODE system')
        except ValueError:
            pass
        except Exception as e:
            F.add('full_expression', CL_FE_ERR, f'full_expression(Y) raised {_exc(e)}')
        k = [i for i, s in enumerate(prog) if _is_ode(s)][0]
        try:
            pre, post, ode = st.before_odes, st.after_odes, st.ode_system
            if list(pre) + [ode] + list(post) != objs or len(pre) != k:
                F.add('before_odes', CL_SPLIT, f'before {len(pre)} + ode + after {len(post)} != {n}')
            fin_pre = ref_exec(prog[:k], ENV0)[1]
            for name in names:
                if name == ACENT:
                    continue
                got = _val(pre.full_expression(_sym(name)), envxs[0])
                if got != fin_pre[name]:
                    F.add('full_expression', CL_FE_VALUE,
                          f'before_odes.full_expression({name}) has inputs {sorted(_decode_inputs(got))}, '
                          f'execution gives {sorted(_decode_inputs(fin_pre[name]))}')
        except Exception as e:
            F.add('full_expression', CL_FE_ERR, f'before_odes/full_expression raised {_exc(e)}')
    else:
        queries = [(nm,) for nm in names] + [('A', 'Y')]
        for q in queries:
            try:
                fe = st.full_expression(_rhs_expr(q))
                for (vals, fin), envx in zip(execs, envxs):
                    got = _val(fe, envx)
                    want = sum(fin[a] for a in q)
                    if got != want:
                        F.add('full_expression', CL_FE_VALUE,
                              f'full_expression({"+".join(q)}) = {fe} evaluates to {got}, sequential execution gives '
                              f'{want} (inputs {sorted(_decode_inputs(abs(got)))} vs {sorted(_decode_inputs(abs(want)))})')
                        break
            except Exception as e:
                F.add('full_expression', CL_FE_ERR, f'full_expression({"+".join(q)}) raised {_exc(e)}')

    # ---- dependencies ------------------------------------------------------------------------
    def dep_check(what, arg, i):
        try:
            got = _names(st.dependencies(arg))
        except Exception as e:
            F.add('dependencies', CL_DEP_ERR, f'dependencies({what}) raised {_exc(e)}')
            return None
        missing = low[i] - got
        if missing:
            F.add('dependencies', CL_DEP_SUP,
                  f'dependencies({what}) = {sorted(got)} misses {sorted(missing)} (true inputs {sorted(deps[i])})')
        elif single and (got - set(deps[i])):
            F.add('dependencies', CL_DEP_EQ,
                  f'dependencies({what}) = {sorted(got)} but the inputs are exactly {sorted(deps[i])}')
        return got

    first = True
    for name in names:
        i = _last_index(prog, name)
        if i is None:
            try:
                st.dependencies(_sym(name))
            except KeyError:
                pass
            except Exception as e:
                F.add('dependencies', CL_DEP_ERR, f'dependencies({name}) (never assigned) raised {_exc(e)}')
            continue
        got = dep_check(name, _sym(name), i)
        if first and got is not None:
            first = False
            try:
                again = _names(st.dependencies(_sym(name)))
                if again != got:
                    F.add('dependencies', CL_DEP_PURE, f'dependencies({name}) gave {sorted(got)} then {sorted(again)}')
            except Exception as e:
                F.add('dependencies', CL_DEP_ERR, f'second dependencies({name}) raised {_exc(e)}')
    for i in range(n):
        if prog.index(prog[i]) == i and prog.count(prog[i]) == 1:
            dep_check(f'statement #{i}', objs[i], i)
        else:
            try:
                st.dependencies(objs[i])
            except Exception as e:
                F.add('dependencies', CL_DEP_ERR, f'dependencies(statement #{i}) raised {_exc(e)}')

    # ---- find_assignment ---------------------------------------------------------------------
    for name in names:
        if name == ACENT:
            continue
        i = _last_index(prog, name)
        try:
            a = st.find_assignment(_sym(name))
            ai = st.find_assignment_index(name)
            if i is None:
                ok = a is None and ai is None
            else:
                ok = ai == i and a is not None and a == objs[i] and a.symbol.name == name
            if not ok:
                F.add('find_assignment', CL_FIND, f'find_assignment({name}) = {a!r}, index {ai}; last assignment is #{i}')
        except Exception as e:
            F.add('find_assignment', CL_FIND, f'find_assignment({name}) raised {_exc(e)}')

    if level == 'core':
        return F.items

    # ---- reassign ----------------------------------------------------------------------------
    for name in sorted(set(assigned) | {'A'}):
        if name == ACENT:
            continue
        for rhs in (('P',), (name, 'E')):
            try:
                res = st.reassign(_sym(name), _rhs_expr(rhs))
            except Exception as e:
                F.add('reassign', CL_REASSIGN_ERR, f'reassign({name}, {"+".join(rhs)}) raised {_exc(e)}')
                continue
            last = _last_index(prog, name)
            if last is None:
                continue  # documented behaviour covers assigned symbols only
            edited = tuple((name, rhs) if i == last else s for i, s in enumerate(prog)
                           if i == last or _writes(s) != name)
            if list(res) != [_mk(s) for s in edited]:
                F.add('reassign', CL_REASSIGN,
                      f'reassign({name}, {"+".join(rhs)}) gave {[repr(s) for s in res]}, expected {_show(edited)}')
            elif not has_ode:
                fin = ref_exec(edited, ENV0)[1]
                try:
                    for nm in assigned:
                        got = _val(res.full_expression(_sym(nm)), envxs[0])
                        if got != fin[nm]:
                            F.add('reassign', CL_REASSIGN_VAL,
                                  f'after reassign({name}, {"+".join(rhs)}) {nm} evaluates to {got}, expected {fin[nm]}')
                            break
                except Exception as e:
                    F.add('reassign', CL_REASSIGN_ERR, f'full_expression after reassign raised {_exc(e)}')

    # ---- subs --------------------------------------------------------------------------------
    def rename(stmt, old, new):
        if _is_ode(stmt):
            return stmt
        rhs = stmt[1]
        if rhs[0] == 'pw':
            rhs = ('pw',) + tuple(new if a == old else a for a in rhs[1:])
        else:
            rhs = tuple(new if a == old else a for a in rhs)
        return (new if stmt[0] == old else stmt[0], rhs)

    for old in ('X', 'A'):
        try:
            res = st.subs({_sym(old): _sym('Z')})
            want = [rename(s, old, 'Z') for s in prog]
            ok = len(res) == n
            for i in range(n):
                if not ok:
                    break
                if _is_ode(prog[i]):
                    ok = res[i] == objs[i]
                else:
                    ok = res[i].symbol == _sym(want[i][0]) and res[i].expression == _rhs_expr(want[i][1])
            if not ok:
                F.add('subs', CL_SUBS, f'subs({{{old}: Z}}) gave {[repr(s) for s in res]}')
        except Exception as e:
            F.add('subs', CL_SUBS, f'subs({{{old}: Z}}) raised {_exc(e)}')
    if not has_ode and 'X' in inputs:
        try:
            res = st.subs({_sym('X'): _sym('P') + _sym('E')})
            for e, envx in zip(envs, envxs):
                e2 = dict(e)
                e2['X'] = e['P'] + e['E']
                fin = ref_exec(prog, e2)[1]
                for nm in assigned:
                    got = _val(res.full_expression(_sym(nm)), envx)
                    if got != fin[nm]:
                        F.add('subs', CL_SUBS_VAL, f'after subs({{X: P+E}}) {nm} evaluates to {got}, expected {fin[nm]}')
                        break
        except Exception as e:
            F.add('subs', CL_SUBS_VAL, f'subs({{X: P+E}}) raised {_exc(e)}')

    # ---- remove_symbol_definitions -----------------------------------------------------------
    if not piecewise:
        _check_rsd(prog, objs, st, reach, vals0, F)

    # ---- frame: nothing above changed the original object ---------------------------------------
    try:
        if len(st) != n or any(st[i] is not objs[i] for i in range(n)) or \
                any(objs[i] != _fresh(prog[i]) for i in range(n) if not _is_ode(prog[i])):
            F.add('dependencies', CL_IMMUT, 'the Statements object changed')
    except Exception as e:
        F.add('dependencies', CL_IMMUT, f'inspection raised {_exc(e)}')
    return F.items


def _fresh(stmt):
    return _px()['Assignment'].create(_px()['Expr'].symbol(stmt[0]), _rhs_expr(stmt[1]))


# ---- enumeration ----------------------------------------------------------------------------------
def _rhs_choices(avail, fam):
    avail = sorted(avail, key=_ORDER.index)
    out = [(a,) for a in avail]
    if fam.get('pw'):
        for a in avail:
            for b in avail:
                if a != b:
                    for c in avail:
                        out.append(('pw', a, c, b))
    else:
        out += [tuple(p) for p in itertools.combinations_with_replacement(avail, 2)]
    return out


def _extensions(prog, fam):
    """all statements that may follow prog in the family"""
    lhs_all = fam['lhs']
    defined = [s for s in lhs_all if any(_writes(x) == s for x in prog)]
    if fam.get('canon'):
        nxt = [s for s in lhs_all if s not in defined][:1]
        lhs = defined + nxt
    else:
        lhs = list(lhs_all)
    if fam.get('distinct'):
        lhs = [s for s in lhs_all if s not in defined][:1]
    avail = list(fam['leaves']) + (list(lhs_all) if fam.get('ubd') else defined)
    rhs = _rhs_choices(avail, fam)
    return [(l, r) for l in lhs for r in rhs]


def _subtree(prog, fam):
    yield prog
    if len(prog) < fam['maxlen']:
        for s in _extensions(prog, fam):
            yield from _subtree(prog + (s,), fam)


def _ode_programs(fam):
    """pre-ODE statements over lhs {CL,V,B}, the ODE, post-ODE statements over lhs {B,Y}"""
    pre_syms = ('X', 'P', 'CL', 'V', 'B')
    post_syms = (ACENT, 'B', 'E', 'CL')
    pre_stmts = [(l, r) for l in ('CL', 'V', 'B') for r in _rhs_choices(pre_syms, {})]
    post_stmts = [(l, r) for l in ('B', 'Y') for r in _rhs_choices(post_syms, {})]
    return pre_stmts, post_stmts


def _df_worker(task):
    fam, root = task
    root = _tup(root)
    cases = nontrivial = 0
    fails = {}
    samples = []

    def run(prog):
        nonlocal cases, nontrivial
        cases += 1
        _, reach = ref_flow(prog)
        if any(d is not None for r in reach for d in r.values()):
            nontrivial += 1
        if cases % 997 == 1 and len(samples) < 2:
            samples.append(_show(prog))
        res = _check_program(prog, fam.get('level', 'full'))
        for key, detail in res.items():
            old = fails.get(key)
            cand = (len(prog), _show(prog), detail, prog)
            if old is None or cand[:2] < old[:2]:
                fails[key] = cand

    if fam.get('ode'):
        pre_stmts, post_stmts = _ode_programs(fam)
        pres = [()] + [(a,) for a in pre_stmts] + [(a, b) for a in pre_stmts for b in pre_stmts]
        posts = [()] + [(a,) for a in post_stmts]
        if fam['maxpost'] >= 2:
            posts += [(a, b) for a in post_stmts for b in post_stmts]
        for pre in pres:
            if len(pre) > fam['maxpre'] or (pre[:1] != root[:1]):
                continue
            for post in posts:
                run(pre + (('ODE',),) + post)
    else:
        for prog in _subtree(root, fam):
            run(prog)
    return cases, nontrivial, fails, samples


def _families(tier):
    A4 = ('A', 'B', 'C', 'Y')
    L3 = ('X', 'P', 'E')
    if tier == 'quick':
        return [
            dict(name='F1', lhs=A4, leaves=L3, ubd=True, maxlen=2,
                 bound='all programs of <=2 statements, lhs in {A,B,C,Y}, rhs a sum of <=2 symbols of {A,B,C,Y,X,P,E} '
                       '(read before assignment = input)'),
            dict(name='F2', lhs=A4, leaves=L3, ubd=False, maxlen=3,
                 bound='all programs of <=3 statements, lhs in {A,B,C,Y}, rhs a sum of <=2 symbols of {X,P,E} and the '
                       'symbols assigned so far (self reference to the earlier value included)'),
            dict(name='F3', lhs=A4, leaves=('P',), ubd=True, distinct=True, maxlen=4, level='core',
                 bound='all programs of <=4 statements A=..;B=..;C=..;Y=.. (in this order) with rhs a sum of <=2 symbols of {A,B,C,Y,P} '
                       '(full_expression/dependencies/find_assignment only)'),
            dict(name='F4', lhs=('A', 'B', 'Y'), leaves=('X', 'P'), ubd=False, pw=True, maxlen=2,
                 bound='all programs of <=2 statements, lhs in {A,B,Y}, rhs a symbol or Piecewise((a, c>0),(b,True)) over '
                       '{X,P} and the symbols assigned so far, every sign pattern of the inputs'),
            dict(name='F5', ode=True, maxpre=2, maxpost=1,
                 bound='<=2 statements (lhs {CL,V,B}, rhs sum of <=2 of {X,P,CL,V,B}), a one-compartment ODE system '
                       'with rate CL/V, <=1 statement (lhs {B,Y}, rhs sum of <=2 of {A_CENTRAL,B,E,CL})'),
        ]
    return [
        dict(name='F1', lhs=A4, leaves=L3, ubd=True, maxlen=3,
             bound='all programs of <=3 statements, lhs in {A,B,C,Y}, rhs a sum of <=2 symbols of {A,B,C,Y,X,P,E} '
                   '(read before assignment = input)'),
        dict(name='F2', lhs=A4, leaves=('X', 'P'), ubd=False, maxlen=4,
             bound='all programs of <=4 statements, lhs in {A,B,C,Y}, rhs a sum of <=2 symbols of {X,P} and the '
                   'symbols assigned so far (self reference to the earlier value included)'),
        dict(name='F3', lhs=A4, leaves=('P',), ubd=True, canon=True, maxlen=4, level='core',
             bound='all programs of <=4 statements with lhs symbols introduced in the order A,B,C,Y, rhs a sum of <=2 '
                   'symbols of {A,B,C,Y,P} (full_expression/dependencies/find_assignment only)'),
        dict(name='F4', lhs=('A', 'B', 'Y'), leaves=('X', 'P'), ubd=False, pw=True, maxlen=3,
             bound='all programs of <=3 statements, lhs in {A,B,Y}, rhs a symbol or Piecewise((a, c>0),(b,True)) over '
                   '{X,P} and the symbols assigned so far, every sign pattern of the inputs'),
        dict(name='F5', ode=True, maxpre=2, maxpost=2,
             bound='<=2 statements (lhs {CL,V,B}, rhs sum of <=2 of {X,P,CL,V,B}), a one-compartment ODE system '
                   'with rate CL/V, <=2 statements (lhs {B,Y}, rhs sum of <=2 of {A_CENTRAL,B,E,CL})'),
    ]


def _tasks(fam):
    if fam.get('ode'):
        pre_stmts, _ = _ode_programs(fam)
        return [(fam, ())] + [(fam, (s,)) for s in pre_stmts]
    # split the enumeration tree at depth <=2: inner nodes are single-program tasks, the nodes at the
    # split depth are whole-subtree tasks
    depth = max(0, min(2, fam['maxlen'] - 1))
    level = [()]
    out = []
    for _ in range(depth):
        out += [(dict(fam, maxlen=len(r)), r) for r in level]
        level = [r + (s,) for r in level for s in _extensions(r, fam)]
    out += [(fam, r) for r in level]
    return out


def _run_pool(worker, tasks):
    if not tasks:
        return []
    _px()  # import once, inherited by the forked workers
    ctx = multiprocessing.get_context('fork')
    with ctx.Pool(min(NPROC, len(tasks))) as pool:
        return pool.map(worker, tasks, chunksize=max(1, len(tasks) // (NPROC * 8)))


def bounded_dataflow(tier):
    fams = _families(tier)
    tasks = []
    for fam in fams:
        tasks += _tasks(fam)
    results = _run_pool(_df_worker, tasks)
    cases = nontrivial = 0
    fails = {}
    samples = []
    per_family = {}
    for (fam, _root), (c, nt, fl, sm) in zip(tasks, results):
        cases += c
        nontrivial += nt
        per_family[fam['name']] = per_family.get(fam['name'], 0) + c
        if sm and len(samples) < 3 and fam['name'] not in [s.split(':')[0] for s in samples]:
            samples.append(f"{fam['name']}: {sm[0]}")
        for key, cand in fl.items():
            old = fails.get(key)
            if old is None or cand[:2] < old[:2]:
                fails[key] = cand
    out_fails = []
    for (fid, clause), (_n, _s, detail, prog) in sorted(fails.items()):
        out_fails.append({'fid': fid, 'clause': clause, 'detail': detail,
                          'case': {'prog': [list(s) if _is_ode(s) else [s[0], list(s[1])] for s in prog],
                                   'fid': fid, 'clause': clause},
                          'replay_fn': 'bounded_dataflow_replay'})
    bound = ' | '.join(f"{f['name']} ({per_family.get(f['name'], 0)} programs): {f['bound']}" for f in fams)
    return {'cases': cases, 'nontrivial': nontrivial, 'bound': bound, 'samples': samples, 'fails': out_fails}


def bounded_dataflow_replay(rp):
    case = rp['case']
    prog = _tup(case['prog'])
    res = _check_program(prog, 'full')
    key = (case['fid'], case['clause'])
    if key in res:
        return (False, res[key])
    return (True, 'ok')
