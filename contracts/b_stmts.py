"""Bounded contract checks (never counted as proved) for

  C10  statement dataflow analyses (Statements.full_expression / dependencies / direct_dependencies /
       find_assignment / find_assignment_index / reassign / remove_symbol_definitions / subs with symbol,
       amount-function and compound-expression keys; remove_unused_parameters_and_rvs on the programs
       with an ODE system, whose dose, rate, input, lag time or bioavailability may be a symbol defined
       by an earlier statement)                                                       -> bounded_dataflow
  C05  compartmental system graph <-> differential equations                         -> bounded_compartmental

The contracts are taken from the property statements; the oracles are the small reference
interpreters in this file (sequential execution with integer values, symbolic execution with
"set of inputs" values, reaching definitions, flow dictionaries) - never the code under test.

Run:  PYTHONPATH=/verif /venv/bin/python -m pyvc.native custom contracts.b_stmts bounded_dataflow quick
"""
import itertools
import multiprocessing
import warnings

warnings.filterwarnings('ignore')

STM = 'src/pharmpy/model/statements.py:'
NPROC = 16
ALSO_CAP = 300   # length of the `also` lists (every failing case of a clause, tools/BOUNDED_GUIDE.md)


def _also_list(case, cases):
    """the `also` list: the failing cases in enumeration order, capped; the reported (smallest) case is always in it"""
    cases = cases[:ALSO_CAP]
    return cases if case in cases else [case] + cases[:ALSO_CAP - 1]

# --------------------------------------------------------------------------------------------------
# lazy pharmpy access (workers import once)
# --------------------------------------------------------------------------------------------------
_PX = {}


def _px():
    if not _PX:
        warnings.filterwarnings('ignore')
        from pharmpy.basic import Expr
        from pharmpy.model import (Assignment, Bolus, Compartment, CompartmentalSystem,
                                   CompartmentalSystemBuilder, Statements, output)
        from pharmpy.model.statements import to_compartmental_system
        _PX.update(Expr=Expr, Assignment=Assignment, Bolus=Bolus, Compartment=Compartment,
                   CompartmentalSystem=CompartmentalSystem, Builder=CompartmentalSystemBuilder,
                   Statements=Statements, output=output, to_cs=to_compartmental_system)
    return _PX


_PXM = []


def _pxm():
    """the model level names (imported once, before the workers are forked)"""
    if not _PXM:
        from pharmpy.model import Model, NormalDistribution, Parameter, Parameters, RandomVariables
        from pharmpy.modeling import remove_unused_parameters_and_rvs
        _PXM.extend([Model, NormalDistribution, Parameter, Parameters, RandomVariables,
                     remove_unused_parameters_and_rvs])
    return _PXM


_PXQ = {}


def _pxq():
    """the model level dependency queries of pharmpy.modeling.expressions (imported once, before the fork)"""
    if not _PXQ:
        from pharmpy.model import DataInfo
        from pharmpy.modeling.expressions import depends_on, get_parameter_rv, has_random_effect
        _PXQ.update(DataInfo=DataInfo, depends_on=depends_on, get_parameter_rv=get_parameter_rv,
                    has_random_effect=has_random_effect)
    return _PXQ


def _exc(e):
    return f'{type(e).__name__}: {str(e)[:160]}'


# ==================================================================================================
#                                   PART 1 :  C10  dataflow
# ==================================================================================================
#
# Program representation (pure data, json friendly):
#   program = tuple of statements
#   statement = (lhs, rhs)         rhs = (a,)            lhs = a
#                                  rhs = (a, b)          lhs = a + b
#                                  rhs = ('pw', a, c, b) lhs = Piecewise((a, c > 0), (b, True))
#             | ('ODE',)           one compartment CENTRAL, Bolus(AMT), output rate CL/V
#                                  (reads CL, V, AMT, t; defines A_CENTRAL(t))
#             | ('ODE', spec)      the same system with the attributes spec = ((role, symbol), ...) set:
#                                    dose    the dose into CENTRAL is Bolus(symbol) instead of Bolus(AMT)
#                                    lag     lag time of CENTRAL            bio   bioavailability of CENTRAL
#                                    input   zero-order input of CENTRAL    rate  the output rate is the symbol
#                                    q       rate of the flows CENTRAL -> PERI and PERI -> CENTRAL (default Q)
#                                    pdose   a second dose Bolus(symbol, admid=2) into PERI (default AMT, present
#                                            only together with plag / pbio)
#                                    plag / pbio / pinput   lag time, bioavailability, zero-order input of PERI
#                                  (a second compartment PERI exists iff one of q, pdose, plag, pbio, pinput is
#                                  given).  The system reads every symbol of its rates, doses, inputs, lag times and
#                                  bioavailabilities and t; it defines A_CENTRAL(t).
#
# A symbol that is read before any assignment to it is an INPUT (data column / parameter / random
# variable of that name); X, P, E are never assigned and therefore always inputs.

ACENT = 'A_CENTRAL'
ACENTX = 'A_CENTRALX'     # a second amount function, only used as the value of substitutions
_ORDER = ('X', 'P', 'E', 'A', 'B', 'C', 'Y', 'CL', 'V', 'AMT', 't', 'Z', ACENT, 'S', 'T', 'Q', ACENTX)
_BASE = 1000
# value of input number k is BASE**k: the value of a sum of inputs encodes its coefficient vector
ENV0 = {name: _BASE ** k for k, name in enumerate(_ORDER)}

ODE_ROLES = ('dose', 'lag', 'bio', 'input', 'rate', 'q', 'pdose', 'plag', 'pbio', 'pinput')
_PERI_ROLES = ('q', 'pdose', 'plag', 'pbio', 'pinput')
# coefficient of each thing the ODE system reads in its (fixed, linear) reference value
_ODE_COEF = {'CL': 7, 'V': 13, 'AMT': 1, 't': 1, 'dose': 23, 'lag': 17, 'bio': 19, 'input': 29, 'rate': 31,
             'q': 37, 'pdose': 59, 'plag': 41, 'pbio': 43, 'pinput': 47}


def _is_ode(stmt):
    return stmt[0] == 'ODE'


def _ode_spec(stmt):
    return dict(stmt[1]) if len(stmt) > 1 else {}


def _ode_terms(stmt):
    """reference model of an ODE statement: (symbol, coefficient) for everything the system reads"""
    spec = _ode_spec(stmt)
    terms = [(spec['rate'], _ODE_COEF['rate'])] if 'rate' in spec else [('CL', _ODE_COEF['CL']), ('V', _ODE_COEF['V'])]
    terms.append((spec['dose'], _ODE_COEF['dose']) if 'dose' in spec else ('AMT', _ODE_COEF['AMT']))
    terms.append(('t', _ODE_COEF['t']))
    for role in ('lag', 'bio', 'input'):
        if role in spec:
            terms.append((spec[role], _ODE_COEF[role]))
    if any(r in spec for r in _PERI_ROLES):
        terms.append((spec.get('q', 'Q'), _ODE_COEF['q']))
        if any(r in spec for r in ('pdose', 'plag', 'pbio')):
            terms.append((spec.get('pdose', 'AMT'), _ODE_COEF['pdose']))
        for role in ('plag', 'pbio', 'pinput'):
            if role in spec:
                terms.append((spec[role], _ODE_COEF[role]))
    return terms


def _reads(stmt):
    if _is_ode(stmt):
        return tuple(s for s, _ in _ode_terms(stmt))
    rhs = stmt[1]
    if rhs[0] == 'pw':
        return (rhs[1], rhs[2], rhs[3])
    return tuple(rhs)


def _writes(stmt):
    return ACENT if _is_ode(stmt) else stmt[0]


def _eval(stmt, env):
    """reference semantics of one statement (the ODE is modelled by a fixed injective-ish linear
    function of what it reads; only used to detect that an input of the ODE changed)"""
    if _is_ode(stmt):
        return sum(c * env[s] for s, c in _ode_terms(stmt))
    rhs = stmt[1]
    if rhs[0] == 'pw':
        return env[rhs[1]] if env[rhs[2]] > 0 else env[rhs[3]]
    return sum(env[a] for a in rhs)


def ref_exec(prog, env0):
    """sequential execution; returns (value assigned by each statement, final environment)"""
    env = dict(env0)
    vals = []
    for stmt in prog:
        v = _eval(stmt, env)
        env[_writes(stmt)] = v
        vals.append(v)
    return vals, env


def ref_flow(prog):
    """symbolic execution: value = set of inputs it may depend on.
    returns (deps per statement, reaching definitions per statement {symbol: index|None})"""
    state = {}
    deps, reach = [], []
    for i, stmt in enumerate(prog):
        d = set()
        r = {}
        for s in _reads(stmt):
            if s in state:
                d |= state[s][0]
                r[s] = state[s][1]
            else:
                d.add(s)
                r[s] = None
        deps.append(frozenset(d))
        reach.append(r)
        state[_writes(stmt)] = (frozenset(d), i)
    return deps, reach


def _decode_inputs(value):
    """inputs with a non-zero coefficient in an encoded linear form"""
    out = set()
    k = 0
    while value:
        value, digit = divmod(value, _BASE)
        if digit:
            out.add(_ORDER[k])
        k += 1
    return out


def _last_index(prog, name):
    idx = None
    for i, stmt in enumerate(prog):
        if _writes(stmt) == name:
            idx = i
    return idx


def _single_assignment(prog):
    w = [_writes(s) for s in prog]
    return len(w) == len(set(w))


# ---- pharmpy objects ------------------------------------------------------------------------------
_SYM = {}
_STMT = {}


def _sym(name):
    e = _SYM.get(name)
    if e is None:
        px = _px()
        if name == ACENT:
            e = _ode().amounts[0]
        elif name == ACENTX:
            e = px['Expr'].function(ACENTX, 't')
        else:
            e = px['Expr'].symbol(name)
        _SYM[name] = e
    return e


def _ode(stmt=('ODE',)):
    cs = _STMT.get(stmt)
    if cs is None:
        px = _px()
        S = px['Expr'].symbol
        spec = _ode_spec(stmt)
        cb = px['Builder']()
        if not spec:
            central = px['Compartment'].create('CENTRAL', doses=(px['Bolus'].create('AMT'),))
        else:
            central = px['Compartment'].create(
                'CENTRAL', doses=(px['Bolus'].create(S(spec.get('dose', 'AMT'))),),
                input=S(spec['input']) if 'input' in spec else 0,
                lag_time=S(spec['lag']) if 'lag' in spec else 0,
                bioavailability=S(spec['bio']) if 'bio' in spec else 1)
        cb.add_compartment(central)
        cb.add_flow(central, px['output'], S(spec['rate']) if 'rate' in spec else S('CL') / S('V'))
        if any(r in spec for r in _PERI_ROLES):
            doses = ()
            if any(r in spec for r in ('pdose', 'plag', 'pbio')):
                doses = (px['Bolus'].create(S(spec.get('pdose', 'AMT')), admid=2),)
            peri = px['Compartment'].create(
                'PERI', doses=doses,
                input=S(spec['pinput']) if 'pinput' in spec else 0,
                lag_time=S(spec['plag']) if 'plag' in spec else 0,
                bioavailability=S(spec['pbio']) if 'pbio' in spec else 1)
            cb.add_compartment(peri)
            cb.add_flow(central, peri, S(spec.get('q', 'Q')))
            cb.add_flow(peri, central, S(spec.get('q', 'Q')))
        cs = px['CompartmentalSystem'](cb)
        _STMT[stmt] = cs
    return cs


def _rhs_expr(rhs):
    px = _px()
    if rhs[0] == 'pw':
        return px['Expr'].piecewise((_sym(rhs[1]), _sym(rhs[2]) > 0), (_sym(rhs[3]), True))
    e = _sym(rhs[0])
    for a in rhs[1:]:
        e = e + _sym(a)
    return e


def _mk(stmt):
    o = _STMT.get(stmt)
    if o is None:
        if _is_ode(stmt):
            return _ode(stmt)
        o = _px()['Assignment'].create(_sym(stmt[0]), _rhs_expr(stmt[1]))
        _STMT[stmt] = o
    return o


def _names(exprs):
    return {e.name for e in exprs}


def _envx(env, names=None):
    return {_sym(k): v for k, v in env.items() if k not in (ACENT, ACENTX) and (names is None or k in names)}


def _tup(prog):
    """json (lists) -> program (tuples)"""
    return tuple((('ODE',) if len(s) == 1 else ('ODE', tuple((r, v) for r, v in s[1]))) if s[0] == 'ODE'
                 else (s[0], tuple(s[1])) for s in prog)


def _untup(prog):
    """program (tuples) -> json (lists)"""
    return [(['ODE'] if len(s) == 1 else ['ODE', [list(p) for p in s[1]]]) if _is_ode(s) else [s[0], list(s[1])]
            for s in prog]


def _show(prog):
    out = []
    for s in prog:
        if _is_ode(s) and len(s) > 1:
            out.append('<ODE CENTRAL -CL/V->> with ' + ', '.join(f'{r}={v}' for r, v in s[1]) + '>')
        elif _is_ode(s):
            out.append('<ODE CENTRAL -CL/V->>')
        elif s[1][0] == 'pw':
            out.append(f'{s[0]}=PW({s[1][1]} if {s[1][2]}>0 else {s[1][3]})')
        else:
            out.append(f'{s[0]}=' + '+'.join(s[1]))
    return '; '.join(out)


# ---- environments ---------------------------------------------------------------------------------
def _envs_for(prog, inputs):
    """integer environments: one (the encoding) for sum programs; all sign patterns of the inputs
    for programs with piecewise statements"""
    if not any((not _is_ode(s)) and s[1][0] == 'pw' for s in prog):
        return [ENV0]
    inputs = sorted(inputs)
    envs = []
    for signs in itertools.product((1, -1), repeat=len(inputs)):
        env = dict(ENV0)
        for s, name in zip(signs, inputs):
            env[name] = s * ENV0[name]
        envs.append(env)
    return envs


def _all_inputs(prog):
    deps, _ = ref_flow(prog)
    out = set()
    for d in deps:
        out |= d
    return out


def _semantic_deps(prog, envs, inputs):
    """for piecewise programs: inputs whose sign flip changes the value of statement i in some
    environment (a lower bound of the true dependencies, exact on this value domain)"""
    index = {tuple(sorted(e.items())): n for n, e in enumerate(envs)}
    vals = [ref_exec(prog, e)[0] for e in envs]
    out = [set() for _ in prog]
    for n, e in enumerate(envs):
        for name in inputs:
            e2 = dict(e)
            e2[name] = -e2[name]
            m = index[tuple(sorted(e2.items()))]
            for i in range(len(prog)):
                if vals[n][i] != vals[m][i]:
                    out[i].add(name)
    return out


# ---- clauses --------------------------------------------------------------------------------------
CL_FE_VALUE = 'full_expression(e) evaluates to the value of e after executing the statements in order'
CL_FE_ERR = 'full_expression raises nothing but the documented ValueError for a list containing an ODE system'
CL_DEP_SUP = 'dependencies(s) includes every input (parameter, random variable, data column) the value of s can depend on'
CL_DEP_EQ = 'dependencies(s) is exactly the set of inputs of s when no symbol is assigned twice'
CL_DEP_ERR = 'dependencies answers for every symbol and statement without internal error (KeyError only for a symbol never assigned)'
CL_DEP_PURE = 'dependencies is a pure query: same answer when asked twice, statements unchanged'
CL_FIND = 'find_assignment(s) is the last assignment of s (None if none) and find_assignment_index(s) its index'
CL_REASSIGN = 'reassign(s, e) is the list with the last assignment of s replaced by s = e and the earlier assignments of s removed'
CL_REASSIGN_VAL = 'after reassign(s, e) every symbol has the value obtained by executing the edited list in order'
CL_REASSIGN_ERR = 'reassign raises no internal error'
CL_SUBS = 'subs keeps length and order and replaces the symbol in every statement'
CL_SUBS_VAL = 'subs of an input by an expression gives the original values with that input set to the expression value'
CL_RSD_SUBSEQ = 'remove_symbol_definitions returns a subsequence of the statements that still contains the given statement'
CL_RSD_NEEDS = 'remove_symbol_definitions never removes a definition that a remaining statement reads'
CL_RSD_VALUE = 'remove_symbol_definitions never changes the value computed by a remaining statement'
CL_RSD_FRAME = 'remove_symbol_definitions removes only earlier definitions of the named symbols and definitions those depend on'
CL_RSD_EFFECT = 'remove_symbol_definitions removes the earlier definitions of a named symbol that no remaining statement reads'
CL_RSD_ERR = 'remove_symbol_definitions raises no internal error'
CL_IMMUT = 'queries and edits leave the original Statements object unchanged'
CL_DD_SUP = ('direct_dependencies(s) contains the reaching definition of every symbol and compartment amount that s '
             'reads (for an ODE system: every symbol of its rates, doses, inputs, lag times and bioavailabilities)')
CL_DD_FRAME = 'direct_dependencies(s) lists only earlier statements defining something s reads, each once, in statement order'
CL_DD_ERR = 'direct_dependencies raises no internal error'
CL_RUP = ('remove_unused_parameters_and_rvs removes exactly the parameters and random variables that no statement reads '
          '(an ODE system reads its rates, doses, inputs, lag times and bioavailabilities) and keeps the statements')
CL_RUP_ERR = 'remove_unused_parameters_and_rvs raises no internal error'
FID_RUP = 'src/pharmpy/modeling/common.py:remove_unused_parameters_and_rvs'
CL_SUBS_FUNC = ('subs with an applied function (compartment amount A_X(t)) as key replaces it in every statement that '
                'contains it and changes nothing else')
CL_SUBS_EXPR = ('subs with a compound expression as key replaces the right hand sides equal to that expression and '
                'changes nothing else')
CL_SPLIT = 'before_odes + ode_system + after_odes is the statement list'
# the dependency queries on a model (pharmpy.modeling.expressions); the value of s is its value after the statements
# before the ODE system (all statements if there is none)
EXPRM = 'src/pharmpy/modeling/expressions.py:'
CL_MQ_DEP_SUP = ('depends_on(model, s, x) is True for every input x (parameter, random variable, data column) the value '
                 'of s can depend on')
CL_MQ_DEP_EQ = ('depends_on(model, s, x) is False for every input x the value of s does not depend on when no symbol is '
                'assigned twice')
CL_MQ_DEP_ERR = 'depends_on answers for every symbol without internal error (KeyError only for a symbol never assigned)'
CL_MQ_HRE_SUP = ('has_random_effect(model, s, level) is True when the value of s can depend on a random variable of that '
                 'level (iiv, iov, all)')
CL_MQ_HRE_EQ = ('has_random_effect(model, s, level) is False when the value of s depends on no random variable of that '
                'level and no symbol is assigned twice')
CL_MQ_HRE_ERR = ('has_random_effect answers for every symbol and level without internal error (KeyError only for a '
                 'symbol never assigned)')
CL_MQ_GPR_SUP = ('get_parameter_rv(model, s, var_type) lists every random variable of that type the value of s can '
                 'depend on (s not defined by an expression in a single symbol such as S1 = V)')
CL_MQ_GPR_EQ = ('get_parameter_rv(model, s, var_type) is a sorted list of random variables of that type that s depends '
                'on, and no others, when no symbol is assigned twice (s not defined by an expression in a single symbol)')
CL_MQ_GPR_ERR = 'get_parameter_rv raises no internal error for a symbol of the statements that is not a random variable'
CL_MQ_PURE = 'the dependency queries on a model leave the model statements unchanged'
# the same clauses on the programs in which a symbol is read before its first assignment (the earlier reads see the
# parameter or data column of that name, which is overwritten later) are reported under keys of their own
_MQ_UBD = ' (programs that read a symbol before its first assignment, i.e. overwrite a parameter or data column later)'
_MQ_CLAUSES = {False: (CL_MQ_DEP_SUP, CL_MQ_DEP_EQ, CL_MQ_HRE_SUP, CL_MQ_HRE_EQ, CL_MQ_GPR_SUP, CL_MQ_GPR_EQ)}
_MQ_CLAUSES[True] = tuple(c + _MQ_UBD for c in _MQ_CLAUSES[False])


def _fid(method):
    return STM + 'Statements.' + method


class _Fails:
    def __init__(self, prog):
        self.prog = prog
        self.items = {}

    def add(self, method, clause, detail):
        self.add_fid(_fid(method), clause, detail)

    def add_fid(self, fid, clause, detail):
        key = (fid, clause)
        if key not in self.items:
            self.items[key] = f'{detail}   [program: {_show(self.prog)}]'


def _val(expr, envx):
    return int(expr.subs(envx))


def _earlier_defs_closure(prog, start):
    """indices reachable from `start` through 'any earlier definition of a symbol that is read'"""
    seen = set()
    todo = list(start)
    while todo:
        i = todo.pop()
        if i in seen:
            continue
        seen.add(i)
        rd = set(_reads(prog[i]))
        for j in range(i):
            if _writes(prog[j]) in rd and j not in seen:
                todo.append(j)
    return seen


def _check_rsd(prog, objs, st, reach, vals0, F):
    """remove_symbol_definitions(symbols, statement) for every statement and every set of <=2 assigned
    symbols the statement does not read (the documented situation: the symbols were removed from it)"""
    n = len(prog)
    # named symbols: symbols defined by an Assignment (the documented domain)
    assigned = sorted({_writes(s) for s in prog if not _is_ode(s)})
    symsets = [(a,) for a in assigned] + list(itertools.combinations(assigned, 2))
    count = 0
    for k in range(n):
        if prog.index(prog[k]) != k:
            continue  # a statement is identified by value: the first equal one
        rd = set(_reads(prog[k]))
        for symset in symsets:
            if rd & set(symset):
                continue
            count += 1
            what = f'remove_symbol_definitions({list(symset)}, statement #{k})'
            try:
                res = st.remove_symbol_definitions([_sym(s) for s in symset], objs[k])
                res = list(res)
            except Exception as e:
                F.add('remove_symbol_definitions', CL_RSD_ERR, f'{what} raised {_exc(e)}')
                continue
            m = len(res)
            embeddings = [K for K in itertools.combinations(range(n), m)
                          if all(objs[K[j]] == res[j] for j in range(m))] if m <= n else []
            if not embeddings:
                F.add('remove_symbol_definitions', CL_RSD_SUBSEQ,
                      f'{what} returned {[repr(s) for s in res]}, not a subsequence')
                continue
            # candidates allowed to go (lenient relation) and definitions that must go
            named = [i for i in range(k) if _writes(prog[i]) in symset]
            allowed = _earlier_defs_closure(prog, named)
            best = None
            for K in embeddings:
                Ks = set(K)
                removed = set(range(n)) - Ks
                problems = []
                if k not in Ks:
                    problems.append((CL_RSD_SUBSEQ, f'{what} removed the statement itself'))
                for i in K:
                    for s, d in reach[i].items():
                        if d is not None and d not in Ks:
                            problems.append((CL_RSD_NEEDS,
                                             f'{what} removed #{d} ({_show([prog[d]])}) but kept #{i} '
                                             f'({_show([prog[i]])}) which reads {s} defined there'))
                kept_prog = tuple(prog[i] for i in K)
                newvals = ref_exec(kept_prog, ENV0)[0]
                for j, i in enumerate(K):
                    if newvals[j] != vals0[i]:
                        problems.append((CL_RSD_VALUE,
                                         f'{what} kept #{i} ({_show([prog[i]])}) whose value changed '
                                         f'(inputs before {sorted(_decode_inputs(vals0[i]))}, after '
                                         f'{sorted(_decode_inputs(newvals[j]))}); result {_show(kept_prog)}'))
                        break
                bad = sorted(i for i in removed if i not in allowed or i >= k)
                if bad:
                    problems.append((CL_RSD_FRAME, f'{what} removed unrelated statement(s) {bad}'))
                # named definitions that nothing remaining reads (lenient: any earlier definition of
                # a symbol read by a remaining statement counts as read)
                for i in named:
                    if i in Ks:
                        readers = [j for j in Ks if j > i and _writes(prog[i]) in _reads(prog[j])]
                        if not readers:
                            problems.append((CL_RSD_EFFECT,
                                             f'{what} kept #{i} ({_show([prog[i]])}) although no remaining '
                                             f'statement reads {_writes(prog[i])}'))
                if not problems:
                    best = []
                    break
                if best is None:
                    best = problems
            for clause, detail in best:
                F.add('remove_symbol_definitions', clause, detail)
    return count


def _check_rup(prog, objs, st, inputs, F):
    """a model around the statements: every input is a parameter, except t (the independent variable) and E, which is
    a random variable with variance OM_E; plus a parameter UNUSED and a random variable EU (variance OM_U) that
    nothing reads"""
    Model, NormalDistribution, Parameter, Parameters, RandomVariables, remove_unused_parameters_and_rvs = _pxm()
    pnames = [i for i in sorted(inputs, key=_ORDER.index) if i not in ('t', 'E')]
    try:
        pars = Parameters.create([Parameter.create(i, 1.0) for i in ['UNUSED'] + pnames + ['OM_E', 'OM_U']])
        rvs = RandomVariables.create([NormalDistribution.create('EU', 'IIV', 0, 'OM_U'),
                                      NormalDistribution.create('E', 'IIV', 0, 'OM_E')])
        model = Model.create(name='m', parameters=pars, random_variables=rvs, statements=st)
        res = remove_unused_parameters_and_rvs(model)
        got_p, got_r = list(res.parameters.names), list(res.random_variables.names)
        same = list(res.statements) == objs
    except Exception as e:
        F.add_fid(FID_RUP, CL_RUP_ERR, f'parameters {pnames}, random variable E: raised {_exc(e)}')
        return
    want_p = pnames + (['OM_E'] if 'E' in inputs else [])
    want_r = ['E'] if 'E' in inputs else []
    if got_p != want_p or got_r != want_r or not same:
        F.add_fid(FID_RUP, CL_RUP,
                  f'model with parameters {["UNUSED"] + pnames + ["OM_E", "OM_U"]} and random variables EU ~ N(0, OM_U), '
                  f'E ~ N(0, OM_E): the result has parameters {got_p} and random variables {got_r}, expected '
                  f'{want_p} and {want_r}' + ('' if same else '; the statements changed'))


_MQ_LHS = ('A', 'B', 'C', 'Y')
_MQ_LHS3 = ('A', 'B', 'Y')      # the families with three assignable symbols
_MQ_RVS = {'iiv': ('E',), 'iov': ('P',), 'all': ('E', 'P')}


def _mq_applies(prog):
    """the programs on which the model level queries are evaluated: programs without an ODE system whose assigned
    symbols are first assigned in the order A, B, C, Y or A, B, Y (programs that differ only by a renaming of the
    assigned symbols are taken once), and programs that end with the ODE system (the queries are about the statements
    before the system; what follows it does not matter)"""
    if not prog:
        return False
    if any(_is_ode(s) for s in prog):
        return _is_ode(prog[-1])
    order = []
    for s in prog:
        if s[0] not in order:
            order.append(s[0])
    return tuple(order) in (_MQ_LHS[:len(order)], _MQ_LHS3[:len(order)])


def _check_mq(prog, objs, st, deps, low, inputs, single, F):
    """depends_on / has_random_effect / get_parameter_rv of pharmpy.modeling.expressions on a model around the
    statements: X is a data column, E a random variable of the IIV level (variance OM_E), P one of the IOV level
    (variance OM_P), every other input a parameter.  The expected answers are the input sets of the reference
    interpreter (deps: symbolic execution; low: for piecewise programs the inputs whose sign changes the value)"""
    Model, NormalDistribution, Parameter, Parameters, RandomVariables, _ = _pxm()
    q = _pxq()
    pnames = [i for i in sorted(inputs, key=_ORDER.index) if i not in ('t', 'E', 'P', 'X')]
    try:
        if 'rvs' not in q:      # immutable parts of the model, created once per process
            q['rvs'] = RandomVariables.create([NormalDistribution.create('E', 'IIV', 0, 'OM_E'),
                                               NormalDistribution.create('P', 'IOV', 0, 'OM_P')])
            q['datainfo'] = q['DataInfo'].create(['X'])
        pars = Parameters.create([Parameter.create(i, 1.0) for i in pnames + ['OM_E', 'OM_P']])
        model = Model.create(name='m', parameters=pars, random_variables=q['rvs'], statements=st,
                             datainfo=q['datainfo'])
    except Exception as e:
        F.add_fid(EXPRM + 'depends_on', CL_MQ_DEP_ERR,
                  f'a model with the data column X, the random variables E (IIV), P (IOV) and the parameters {pnames} '
                  f'could not be created: {_exc(e)}')
        return
    about = f'[model: data column X, E ~ IIV, P ~ IOV, parameters {pnames}]'
    n_pre = [i for i, s in enumerate(prog) if _is_ode(s)]
    n_pre = n_pre[0] if n_pre else len(prog)
    assigned = sorted({s[0] for s in prog[:n_pre]}, key=_ORDER.index)
    ubd = bool(set(assigned) & set(inputs))
    cl_dep_sup, cl_dep_eq, cl_hre_sup, cl_hre_eq, cl_gpr_sup, cl_gpr_eq = _MQ_CLAUSES[ubd]
    cand = sorted((set(inputs) | {'X', 'P', 'E'}) - {'t'}, key=_ORDER.index)
    for s in assigned:
        i = _last_index(prog[:n_pre], s)
        others = [o for o in cand if o != s]     # depends_on(s, s) asks about the symbol itself, not about an input
        # ---- depends_on
        got = set()
        ok = True
        for o in others:
            try:
                if q['depends_on'](model, s, o):
                    got.add(o)
            except Exception as e:
                ok = False
                F.add_fid(EXPRM + 'depends_on', CL_MQ_DEP_ERR, f'depends_on(model, {s}, {o}) raised {_exc(e)} {about}')
                break
        if ok:
            missing = (set(low[i]) - {s, 't'}) - got
            extra = got - set(deps[i])
            if missing:
                F.add_fid(EXPRM + 'depends_on', cl_dep_sup,
                          f'depends_on(model, {s}, x) is False for x in {sorted(missing)}; the value of {s} depends on '
                          f'the inputs {sorted(deps[i])}; True for {sorted(got)} {about}')
            elif single and extra:
                F.add_fid(EXPRM + 'depends_on', cl_dep_eq,
                          f'depends_on(model, {s}, x) is True for x in {sorted(extra)}; the value of {s} depends exactly '
                          f'on the inputs {sorted(deps[i])} {about}')
        # ---- has_random_effect
        for lvl in ('iiv', 'iov', 'all'):
            try:
                r = q['has_random_effect'](model, s, lvl)
            except Exception as e:
                F.add_fid(EXPRM + 'has_random_effect', CL_MQ_HRE_ERR,
                          f'has_random_effect(model, {s}, {lvl!r}) raised {_exc(e)} {about}')
                continue
            if (set(_MQ_RVS[lvl]) & set(low[i])) and r is not True:
                F.add_fid(EXPRM + 'has_random_effect', cl_hre_sup,
                          f'has_random_effect(model, {s}, {lvl!r}) = {r!r}; the value of {s} depends on the inputs '
                          f'{sorted(deps[i])} {about}')
            elif single and not (set(_MQ_RVS[lvl]) & set(deps[i])) and r is not False:
                F.add_fid(EXPRM + 'has_random_effect', cl_hre_eq,
                          f'has_random_effect(model, {s}, {lvl!r}) = {r!r}; the value of {s} depends exactly on the '
                          f'inputs {sorted(deps[i])} {about}')
        # ---- get_parameter_rv (documented for parameters: not for a plain copy S1 = V of another symbol)
        rhs = prog[i][1]
        if rhs[0] != 'pw' and len(set(rhs)) == 1:
            continue      # S = V, S = V + V: an expression in a single symbol
        for lvl in ('iiv', 'iov'):
            try:
                r = q['get_parameter_rv'](model, s, lvl)
                r = list(r)
            except Exception as e:
                F.add_fid(EXPRM + 'get_parameter_rv', CL_MQ_GPR_ERR,
                          f'get_parameter_rv(model, {s}, {lvl!r}) raised {_exc(e)} {about}')
                continue
            must = sorted(set(_MQ_RVS[lvl]) & set(low[i]))
            exact = sorted(set(_MQ_RVS[lvl]) & set(deps[i]))
            if not set(must) <= set(r):
                F.add_fid(EXPRM + 'get_parameter_rv', cl_gpr_sup,
                          f'get_parameter_rv(model, {s}, {lvl!r}) = {r}; the value of {s} depends on the inputs '
                          f'{sorted(deps[i])} {about}')
            elif single and (set(r) - set(exact) or r != sorted(set(r))):
                # (for a piecewise program the syntactic inputs `exact` may contain one the value does not depend on)
                F.add_fid(EXPRM + 'get_parameter_rv', cl_gpr_eq,
                          f'get_parameter_rv(model, {s}, {lvl!r}) = {r}, expected {exact}: the value of {s} depends '
                          f'exactly on the inputs {sorted(deps[i])} {about}')
    # a symbol that is never assigned: an answer or the KeyError, nothing else
    never = [o for o in ('X', 'P', 'E') if o not in assigned][:1]
    for o in never:
        for fn, clause, call in (('depends_on', CL_MQ_DEP_ERR, lambda: q['depends_on'](model, o, 'P')),
                                 ('has_random_effect', CL_MQ_HRE_ERR, lambda: q['has_random_effect'](model, o))):
            try:
                call()
            except KeyError:
                pass
            except Exception as e:
                F.add_fid(EXPRM + fn, clause, f'{fn}(model, {o}, ...) ({o} is never assigned) raised {_exc(e)} {about}')
    try:
        if list(model.statements) != objs:
            F.add_fid(EXPRM + 'depends_on', CL_MQ_PURE, f'the statements of the model changed {about}')
    except Exception as e:
        F.add_fid(EXPRM + 'depends_on', CL_MQ_PURE, f'inspection raised {_exc(e)}')


def _check_program(prog, level='full'):
    """evaluate every contract clause on one program; returns {(fid, clause): detail}"""
    px = _px()
    Statements = px['Statements']
    F = _Fails(prog)
    n = len(prog)
    objs = [_mk(s) for s in prog]
    st = Statements(tuple(objs))
    has_ode = any(_is_ode(s) for s in prog)
    deps, reach = ref_flow(prog)
    inputs = _all_inputs(prog)
    envs = _envs_for(prog, inputs)
    piecewise = len(envs) > 1
    execs = [ref_exec(prog, e) for e in envs]
    vals0, final0 = execs[0]
    single = _single_assignment(prog)
    assigned = sorted({_writes(s) for s in prog})
    names = sorted(set(assigned) | inputs | {'X', 'P', 'A', 'Y'})
    if not piecewise:
        # self check of the reference: symbolic dependencies == inputs with non-zero coefficient
        for i in range(n):
            if not has_ode and _decode_inputs(vals0[i]) != set(deps[i]):
                raise AssertionError(('reference inconsistent', prog, i))
    low = _semantic_deps(prog, envs, sorted(inputs)) if piecewise else [set(d) for d in deps]

    # ---- full_expression ---------------------------------------------------------------------
    envxs = [_envx(e, set(names) | {'A', 'Y', 'P', 'E', 'X'}) for e in envs]
    if has_ode:
        try:
            st.full_expression(_sym('Y'))
            F.add('full_expression', CL_FE_ERR, 'no ValueError for a list containing an ODE system')
        except ValueError:
            pass
        except Exception as e:
            F.add('full_expression', CL_FE_ERR, f'full_expression(Y) raised {_exc(e)}')
        k = [i for i, s in enumerate(prog) if _is_ode(s)][0]
        try:
            pre, post, ode = st.before_odes, st.after_odes, st.ode_system
            if list(pre) + [ode] + list(post) != objs or len(pre) != k:
                F.add('before_odes', CL_SPLIT, f'before {len(pre)} + ode + after {len(post)} != {n}')
            fin_pre = ref_exec(prog[:k], ENV0)[1]
            for name in names:
                if name == ACENT:
                    continue
                got = _val(pre.full_expression(_sym(name)), envxs[0])
                if got != fin_pre[name]:
                    F.add('full_expression', CL_FE_VALUE,
                          f'before_odes.full_expression({name}) has inputs {sorted(_decode_inputs(got))}, '
                          f'execution gives {sorted(_decode_inputs(fin_pre[name]))}')
        except Exception as e:
            F.add('full_expression', CL_FE_ERR, f'before_odes/full_expression raised {_exc(e)}')
    else:
        queries = [(nm,) for nm in names] + [('A', 'Y')]
        for q in queries:
            try:
                fe = st.full_expression(_rhs_expr(q))
                for (vals, fin), envx in zip(execs, envxs):
                    got = _val(fe, envx)
                    want = sum(fin[a] for a in q)
                    if got != want:
                        F.add('full_expression', CL_FE_VALUE,
                              f'full_expression({"+".join(q)}) = {fe} evaluates to {got}, sequential execution gives '
                              f'{want} (inputs {sorted(_decode_inputs(abs(got)))} vs {sorted(_decode_inputs(abs(want)))})')
                        break
            except Exception as e:
                F.add('full_expression', CL_FE_ERR, f'full_expression({"+".join(q)}) raised {_exc(e)}')

    # ---- dependencies ------------------------------------------------------------------------
    def dep_check(what, arg, i):
        try:
            got = _names(st.dependencies(arg))
        except Exception as e:
            F.add('dependencies', CL_DEP_ERR, f'dependencies({what}) raised {_exc(e)}')
            return None
        missing = low[i] - got
        if missing:
            F.add('dependencies', CL_DEP_SUP,
                  f'dependencies({what}) = {sorted(got)} misses {sorted(missing)} (true inputs {sorted(deps[i])})')
        elif single and (got - set(deps[i])):
            F.add('dependencies', CL_DEP_EQ,
                  f'dependencies({what}) = {sorted(got)} but the inputs are exactly {sorted(deps[i])}')
        return got

    first = True
    for name in names:
        i = _last_index(prog, name)
        if i is None:
            try:
                st.dependencies(_sym(name))
            except KeyError:
                pass
            except Exception as e:
                F.add('dependencies', CL_DEP_ERR, f'dependencies({name}) (never assigned) raised {_exc(e)}')
            continue
        got = dep_check(name, _sym(name), i)
        if first and got is not None:
            first = False
            try:
                again = _names(st.dependencies(_sym(name)))
                if again != got:
                    F.add('dependencies', CL_DEP_PURE, f'dependencies({name}) gave {sorted(got)} then {sorted(again)}')
            except Exception as e:
                F.add('dependencies', CL_DEP_ERR, f'second dependencies({name}) raised {_exc(e)}')
    for i in range(n):
        if _last_index(prog, _writes(prog[i])) == i:
            continue  # same query as dependencies(symbol) above
        if prog.count(prog[i]) == 1:
            dep_check(f'statement #{i}', objs[i], i)
        else:
            # a statement is identified by value; an ambiguous one must still be answered
            try:
                st.dependencies(objs[i])
            except Exception as e:
                F.add('dependencies', CL_DEP_ERR, f'dependencies(statement #{i}) raised {_exc(e)}')
    if n and _last_index(prog, _writes(prog[n - 1])) == n - 1 and prog.count(prog[n - 1]) == 1:
        dep_check(f'statement #{n - 1}', objs[n - 1], n - 1)   # the statement form of the query, once

    # ---- find_assignment ---------------------------------------------------------------------
    for name in names:
        if name == ACENT:
            continue
        i = _last_index(prog, name)
        try:
            a = st.find_assignment(_sym(name))
            ai = st.find_assignment_index(name)
            if i is None:
                ok = a is None and ai is None
            else:
                ok = ai == i and a is not None and a == objs[i] and a.symbol.name == name
            if not ok:
                F.add('find_assignment', CL_FIND, f'find_assignment({name}) = {a!r}, index {ai}; last assignment is #{i}')
        except Exception as e:
            F.add('find_assignment', CL_FIND, f'find_assignment({name}) raised {_exc(e)}')

    if level == 'core':
        return F.items

    # ---- direct_dependencies -------------------------------------------------------------------
    for k in range(n):
        if prog.index(prog[k]) != k:
            continue  # a statement is identified by value: the first equal one
        what = f'direct_dependencies(statement #{k} ({_show([prog[k]])}))'
        try:
            dd = list(st.direct_dependencies(objs[k]))
        except Exception as e:
            F.add('direct_dependencies', CL_DD_ERR, f'{what} raised {_exc(e)}')
            continue
        rd = set(_reads(prog[k]))
        missing = [d for d in sorted({d for d in reach[k].values() if d is not None}) if objs[d] not in dd]
        if missing:
            F.add('direct_dependencies', CL_DD_SUP,
                  f'{what} = {[repr(x) for x in dd]} misses statement(s) {missing} '
                  f'({_show([prog[d] for d in missing])})')
        # the result as a subsequence of the earlier statements that define something the statement reads
        allowed = [j for j in range(k) if _writes(prog[j]) in rd]
        pos = 0
        ok = True
        for x in dd:
            while pos < len(allowed) and objs[allowed[pos]] != x:
                pos += 1
            if pos == len(allowed):
                ok = False
                break
            pos += 1
        if not ok:
            F.add('direct_dependencies', CL_DD_FRAME,
                  f'{what} = {[repr(x) for x in dd]}; the earlier statements defining something it reads are {allowed}')

    # ---- reassign ----------------------------------------------------------------------------
    for name in sorted(set(assigned) | {'A'}):
        if name == ACENT:
            continue
        for rhs in (('P',), (name, 'E')):
            try:
                res = st.reassign(_sym(name), _rhs_expr(rhs))
            except Exception as e:
                F.add('reassign', CL_REASSIGN_ERR, f'reassign({name}, {"+".join(rhs)}) raised {_exc(e)}')
                continue
            last = _last_index(prog, name)
            if last is None:
                continue  # documented behaviour covers assigned symbols only
            edited = tuple((name, rhs) if i == last else s for i, s in enumerate(prog)
                           if i == last or _writes(s) != name)
            if list(res) != [_mk(s) for s in edited]:
                F.add('reassign', CL_REASSIGN,
                      f'reassign({name}, {"+".join(rhs)}) gave {[repr(s) for s in res]}, expected {_show(edited)}')
            elif not has_ode:
                fin = ref_exec(edited, ENV0)[1]
                try:
                    for nm in assigned:
                        got = _val(res.full_expression(_sym(nm)), envxs[0])
                        if got != fin[nm]:
                            F.add('reassign', CL_REASSIGN_VAL,
                                  f'after reassign({name}, {"+".join(rhs)}) {nm} evaluates to {got}, expected {fin[nm]}')
                            break
                except Exception as e:
                    F.add('reassign', CL_REASSIGN_ERR, f'full_expression after reassign raised {_exc(e)}')

    # ---- subs --------------------------------------------------------------------------------
    def rename(stmt, old, new):
        if _is_ode(stmt):
            return stmt
        rhs = stmt[1]
        if rhs[0] == 'pw':
            rhs = ('pw',) + tuple(new if a == old else a for a in rhs[1:])
        else:
            rhs = tuple(new if a == old else a for a in rhs)
        return (new if stmt[0] == old else stmt[0], rhs)

    for old in ('X', 'A'):
        try:
            res = st.subs({_sym(old): _sym('Z')})
            want = [rename(s, old, 'Z') for s in prog]
            ok = len(res) == n
            for i in range(n):
                if not ok:
                    break
                if _is_ode(prog[i]):
                    ok = res[i] == objs[i]
                else:
                    ok = res[i].symbol == _sym(want[i][0]) and res[i].expression == _rhs_expr(want[i][1])
            if not ok:
                F.add('subs', CL_SUBS, f'subs({{{old}: Z}}) gave {[repr(s) for s in res]}')
        except Exception as e:
            F.add('subs', CL_SUBS, f'subs({{{old}: Z}}) raised {_exc(e)}')
    if not has_ode and 'X' in inputs:
        try:
            res = st.subs({_sym('X'): _sym('P') + _sym('E')})
            for e, envx in zip(envs, envxs):
                e2 = dict(e)
                e2['X'] = e['P'] + e['E']
                fin = ref_exec(prog, e2)[1]
                for nm in assigned:
                    got = _val(res.full_expression(_sym(nm)), envx)
                    if got != fin[nm]:
                        F.add('subs', CL_SUBS_VAL, f'after subs({{X: P+E}}) {nm} evaluates to {got}, expected {fin[nm]}')
                        break
        except Exception as e:
            F.add('subs', CL_SUBS_VAL, f'subs({{X: P+E}}) raised {_exc(e)}')

    # keys that are not symbols: the amount function, a compound expression.  The expected result is the
    # statementwise edit written down on the program representation (the ODE system: same compartments, the
    # amount function replaced, nothing else)
    def subs_check(clause, label, mapping, want, ode_amount):
        try:
            res = st.subs(mapping)
            ok = len(res) == n
            bad = None
            for i in range(n):
                if not ok:
                    break
                if _is_ode(prog[i]):
                    if ode_amount is None:
                        ok = res[i] == objs[i]
                    else:
                        ok = (isinstance(res[i], px['CompartmentalSystem'])
                              and list(res[i].compartment_names) == list(objs[i].compartment_names)
                              and _sym(ode_amount) in set(res[i].amounts) and _sym(ACENT) not in set(res[i].amounts)
                              and res[i].free_symbols == objs[i].free_symbols)
                else:
                    ok = res[i].symbol == _sym(want[i][0]) and res[i].expression == _rhs_expr(want[i][1])
                if not ok:
                    bad = i
            if not ok:
                F.add('subs', clause, f'subs({label}) gave {[repr(x) for x in res]}'
                      + (f', statement #{bad} should be {_show([want[bad]])}' if bad is not None else ''))
        except Exception as e:
            F.add('subs', clause, f'subs({label}) raised {_exc(e)}')

    if any(ACENT in _reads(x) for x in prog):
        want = [rename(x, ACENT, ACENTX) for x in prog]
        subs_check(CL_SUBS_FUNC, '{A_CENTRAL(t): A_CENTRALX(t)}', {_sym(ACENT): _sym(ACENTX)}, want, ACENTX)
        subs_check(CL_SUBS_FUNC, "str keys {'A_CENTRAL(t)': 'A_CENTRALX(t)'}", {'A_CENTRAL(t)': 'A_CENTRALX(t)'},
                   want, ACENTX)
        # together with a symbol key that occurs in such a statement (and not in the ODE system)
        other = sorted(set(y for x in prog if ACENT in _reads(x) for y in _reads(x)) - {ACENT}
                       - set(y for x in prog if _is_ode(x) for y in _reads(x)))
        if other:
            want = [rename(x, other[0], 'Z') for x in want]
            subs_check(CL_SUBS_FUNC, f'{{A_CENTRAL(t): A_CENTRALX(t), {other[0]}: Z}}',
                       {_sym(ACENT): _sym(ACENTX), _sym(other[0]): _sym('Z')}, want, ACENTX)
    pairs = [x[1] for x in prog if not _is_ode(x) and x[1][0] != 'pw' and len(x[1]) == 2 and x[1][0] != x[1][1]]
    if pairs:
        a, b = pairs[0]
        want = [x if _is_ode(x) or x[1][0] == 'pw' or sorted(x[1]) != sorted((a, b)) else (x[0], ('Z',)) for x in prog]
        subs_check(CL_SUBS_EXPR, f'{{{a} + {b}: Z}}', {_sym(a) + _sym(b): _sym('Z')}, want, None)

    # ---- remove_symbol_definitions -----------------------------------------------------------
    if not piecewise:
        _check_rsd(prog, objs, st, reach, vals0, F)

    # ---- remove_unused_parameters_and_rvs ------------------------------------------------------
    if has_ode and not (inputs & set(assigned)):
        _check_rup(prog, objs, st, inputs, F)

    # ---- depends_on / has_random_effect / get_parameter_rv on a model around the statements ------
    if _mq_applies(prog):
        _check_mq(prog, objs, st, deps, low, inputs, single, F)

    # ---- frame: nothing above changed the original object ---------------------------------------
    try:
        if len(st) != n or any(st[i] is not objs[i] for i in range(n)) or \
                any(objs[i] != _fresh(prog[i]) for i in range(n) if not _is_ode(prog[i])):
            F.add('dependencies', CL_IMMUT, 'the Statements object changed')
    except Exception as e:
        F.add('dependencies', CL_IMMUT, f'inspection raised {_exc(e)}')
    return F.items


def _fresh(stmt):
    return _px()['Assignment'].create(_px()['Expr'].symbol(stmt[0]), _rhs_expr(stmt[1]))


# ---- enumeration ----------------------------------------------------------------------------------
def _rhs_choices(avail, fam):
    avail = sorted(avail, key=_ORDER.index)
    out = [(a,) for a in avail]
    if fam.get('pw'):
        for a in avail:
            for b in avail:
                if a != b:
                    for c in avail:
                        out.append(('pw', a, c, b))
    else:
        out += [tuple(p) for p in itertools.combinations_with_replacement(avail, 2)]
    return out


def _extensions(prog, fam):
    """all statements that may follow prog in the family"""
    lhs_all = fam['lhs']
    defined = [s for s in lhs_all if any(_writes(x) == s for x in prog)]
    if fam.get('canon'):
        nxt = [s for s in lhs_all if s not in defined][:1]
        lhs = defined + nxt
    else:
        lhs = list(lhs_all)
    if fam.get('distinct'):
        lhs = [s for s in lhs_all if s not in defined][:1]
    avail = list(fam['leaves']) + (list(lhs_all) if fam.get('ubd') else defined)
    rhs = _rhs_choices(avail, fam)
    return [(l, r) for l in lhs for r in rhs]


def _subtree(prog, fam):
    yield prog
    if len(prog) < fam['maxlen']:
        for s in _extensions(prog, fam):
            yield from _subtree(prog + (s,), fam)


def _ode_programs(fam):
    """pre-ODE statements over lhs {CL,V,B}, the ODE, post-ODE statements over lhs {B,Y}"""
    pre_syms = fam.get('pre_syms', ('X', 'P', 'CL', 'V', 'B'))
    post_syms = fam.get('post_syms', (ACENT, 'B', 'E', 'CL'))
    pre_stmts = [(l, r) for l in fam.get('pre_lhs', ('CL', 'V', 'B')) for r in _rhs_choices(pre_syms, {})]
    post_stmts = [(l, r) for l in fam.get('post_lhs', ('B', 'Y')) for r in _rhs_choices(post_syms, {})]
    return pre_stmts, post_stmts


def _ode_variants(roles, symbols=('S',)):
    """ODE statements with the attributes `roles` (tuples of roles) set to the symbols, in order"""
    return [('ODE', tuple(zip(rs, symbols))) for rs in roles]


def _prog_size(prog):
    """order used to pick the smallest failing program: statements, then symbols read"""
    return (len(prog), sum(len(_reads(s)) for s in prog))


def _df_worker(task):
    fam, root = task
    root = _tup(root)
    cases = nontrivial = mq = 0
    fails = {}
    also = {}
    samples = []
    full = fam.get('level', 'full') == 'full'

    def run(prog):
        nonlocal cases, nontrivial, mq
        cases += 1
        if full and _mq_applies(prog):
            mq += 1
        _, reach = ref_flow(prog)
        if any(d is not None for r in reach for d in r.values()):
            nontrivial += 1
        if len(prog) >= 2 and cases % 97 == 3 and len(samples) < 2:
            samples.append(_show(prog))
        res = _check_program(prog, fam.get('level', 'full'))
        for key, detail in res.items():
            old = fails.get(key)
            cand = (_prog_size(prog), _show(prog), detail, prog)
            if old is None or cand[:2] < old[:2]:
                fails[key] = cand
            lst = also.setdefault(key, [])
            if len(lst) < ALSO_CAP:
                lst.append(prog)

    if fam.get('ode'):
        pre_stmts, post_stmts = _ode_programs(fam)
        pres = [()] + [(a,) for a in pre_stmts] + [(a, b) for a in pre_stmts for b in pre_stmts]
        posts = [()] + [(a,) for a in post_stmts]
        if fam['maxpost'] >= 2:
            posts += [(a, b) for a in post_stmts for b in post_stmts]
        for pre in pres:
            if len(pre) > fam['maxpre'] or (pre[:1] != root[:1]):
                continue
            for post in posts:
                run(pre + (tuple(fam.get('ode_stmt', ('ODE',))),) + post)
    else:
        for prog in _subtree(root, fam):
            run(prog)
    return cases, nontrivial, fails, samples, also, mq


def _families(tier):
    A4 = ('A', 'B', 'C', 'Y')
    L3 = ('X', 'P', 'E')
    sums = 'rhs a sum of <=2 symbols of '
    quick = [
        dict(name='F1', lhs=A4, leaves=L3, ubd=True, maxlen=2,
             bound='all programs of <=2 statements, lhs in {A,B,C,Y}, ' + sums + '{A,B,C,Y,X,P,E} '
                   '(a symbol read before its first assignment is an input)'),
        dict(name='F2', lhs=A4, leaves=L3, ubd=False, maxlen=3,
             bound='all programs of <=3 statements, lhs in {A,B,C,Y}, ' + sums + '{X,P,E} and the symbols '
                   'assigned so far (self reference to the earlier value included)'),
        dict(name='F3', lhs=A4, leaves=('P',), ubd=True, distinct=True, maxlen=4, level='core',
             bound='all programs A=..;B=..;C=..;Y=.. (prefixes included), ' + sums + '{A,B,C,Y,P}, only '
                   'full_expression/dependencies/find_assignment'),
        dict(name='F4', lhs=('A', 'B', 'Y'), leaves=('X', 'P'), ubd=False, pw=True, maxlen=2,
             bound='all programs of <=2 statements, lhs in {A,B,Y}, rhs a symbol or Piecewise((a, c>0),(b,True)) '
                   'over {X,P} and the symbols assigned so far, every sign pattern of the inputs'),
        dict(name='F5', ode=True, maxpre=2, maxpost=1, pre_syms=('X', 'CL', 'V', 'B'),
             bound='<=2 statements (lhs {CL,V,B}, ' + sums + '{X,CL,V,B}), a one-compartment ODE system with '
                   'output rate CL/V, <=1 statement (lhs {B,Y}, ' + sums + '{A_CENTRAL(t),B,E,CL})'),
    ]
    single = [(r,) for r in ODE_ROLES]
    g1 = dict(name='G1', ode=True, new=True, maxpre=2, maxpost=1, variants=_ode_variants(single),
              pre_lhs=('S', 'B'), pre_syms=('X', 'S', 'B'), post_lhs=('Y',), post_syms=(ACENT, 'B'),
              bound='<=2 statements (lhs {S,B}, ' + sums + '{X,S,B}), an ODE system (CENTRAL, Bolus(AMT), output rate '
                    'CL/V) in which ONE of: dose amount, lag time, bioavailability, zero-order input, output rate of '
                    'CENTRAL, the rate to and from a second compartment PERI, the amount of a second dose into PERI, '
                    'lag time, bioavailability, zero-order input of PERI is the symbol S (10 systems), <=1 statement '
                    '(lhs Y, ' + sums + '{A_CENTRAL(t),B})')
    quick.append(g1)
    if tier == 'quick':
        return quick
    double = [('lag', 'bio'), ('dose', 'input'), ('rate', 'q'), ('bio', 'plag'), ('pdose', 'pbio'), ('lag', 'pinput'),
              ('q', 'pinput'), ('input', 'plag')]
    return quick[:2] + [
        dict(g1, name='G1t', post_lhs=('B', 'Y'), post_syms=(ACENT, 'B', 'S'),
             bound='as G1 with <=1 statement after the system with lhs {B,Y}, ' + sums + '{A_CENTRAL(t),B,S}'),
        dict(g1, name='G2t', variants=_ode_variants(double, ('S', 'T')), pre_lhs=('S', 'T', 'B'),
             pre_syms=('X', 'S', 'T'), post_syms=(ACENT, 'B', 'T'),
             bound='<=2 statements (lhs {S,T,B}, ' + sums + '{X,S,T}), an ODE system with TWO attributes set to S and T '
                   '(lag+bio, dose+input, rate+q, bio+plag, pdose+pbio, lag+pinput, q+pinput, input+plag), <=1 statement '
                   '(lhs Y, ' + sums + '{A_CENTRAL(t),B,T})'),
    ] + [
        dict(name='F1t', lhs=A4, leaves=L3, ubd=True, canon=True, maxlen=3,
             bound='all programs of <=3 statements with lhs symbols introduced in the order A,B,C,Y, ' + sums +
                   '{A,B,C,Y,X,P,E} (read before assignment = input)'),
        dict(name='F2t', lhs=('A', 'B', 'Y'), leaves=('X', 'P'), ubd=False, maxlen=4,
             bound='all programs of <=4 statements, lhs in {A,B,Y}, ' + sums + '{X,P} and the symbols assigned so far'),
        dict(name='F3t', lhs=A4, leaves=('P',), ubd=True, canon=True, maxlen=4, level='core',
             bound='all programs of <=4 statements with lhs symbols introduced in the order A,B,C,Y, ' + sums +
                   '{A,B,C,Y,P}, only full_expression/dependencies/find_assignment'),
        dict(name='F4t', lhs=('A', 'B', 'Y'), leaves=('X', 'P'), ubd=False, pw=True, maxlen=3,
             bound='all programs of <=3 statements, lhs in {A,B,Y}, rhs a symbol or Piecewise((a, c>0),(b,True)) '
                   'over {X,P} and the symbols assigned so far, every sign pattern of the inputs'),
        dict(name='F5t', ode=True, maxpre=2, maxpost=1,
             bound='<=2 statements (lhs {CL,V,B}, ' + sums + '{X,P,CL,V,B}), the ODE system, <=1 statement '
                   '(lhs {B,Y}, ' + sums + '{A_CENTRAL(t),B,E,CL})'),
        dict(name='F6t', ode=True, maxpre=1, maxpost=2,
             bound='<=1 statement before the ODE system, <=2 statements after it (same alphabets as F5t)'),
    ]


def _tasks(fam):
    if fam.get('ode'):
        pre_stmts, _ = _ode_programs(fam)
        out = []
        for v in fam.get('variants', [None]):
            f = fam if v is None else dict(fam, ode_stmt=v, variants=None)
            out += [(f, ())] + [(f, (s,)) for s in pre_stmts]
        return out
    # split the enumeration tree at depth <=2: inner nodes are single-program tasks, the nodes at the
    # split depth are whole-subtree tasks
    depth = max(0, min(2, fam['maxlen'] - 1))
    level = [()]
    out = []
    for _ in range(depth):
        out += [(dict(fam, maxlen=len(r)), r) for r in level]
        level = [r + (s,) for r in level for s in _extensions(r, fam)]
    out += [(fam, r) for r in level]
    return out


def _run_pool(worker, tasks):
    if not tasks:
        return []
    _px()  # import once, inherited by the forked workers
    ctx = multiprocessing.get_context('fork')
    with ctx.Pool(min(NPROC, len(tasks))) as pool:
        return pool.map(worker, tasks, chunksize=1)


def bounded_dataflow(tier):
    fams = _families(tier)
    _pxm()
    _pxq()
    tasks = []
    for fam in reversed([f for f in fams if not f.get('new')]):   # the largest tasks first (load balance only)
        tasks += _tasks(fam)
    for fam in fams:                 # families added later come last: the enumeration order of the others is kept
        if fam.get('new'):
            tasks += _tasks(fam)
    results = _run_pool(_df_worker, tasks)
    cases = nontrivial = 0
    fails = {}
    samples = []
    per_family = {}
    also = {}
    mq_total = 0
    for (fam, _root), (c, nt, fl, sm, al, mq) in zip(tasks, results):
        mq_total += mq
        for key, progs in al.items():       # tasks and the programs of a task are in enumeration order
            also.setdefault(key, []).extend(progs[:ALSO_CAP - len(also.get(key, []))])
        cases += c
        nontrivial += nt
        per_family[fam['name']] = per_family.get(fam['name'], 0) + c
        if sm and len(samples) < 3 and fam['name'] not in [s.split(':')[0] for s in samples]:
            samples.append(f"{fam['name']}: {sm[0]}")
        for key, cand in fl.items():
            old = fails.get(key)
            if old is None or cand[:2] < old[:2]:
                fails[key] = cand
    out_fails = []
    def as_case(prog, fid, clause):
        return {'prog': _untup(prog), 'fid': fid, 'clause': clause}

    for (fid, clause), (_n, _s, detail, prog) in sorted(fails.items()):
        out_fails.append({'fid': fid, 'clause': clause, 'detail': detail,
                          'case': as_case(prog, fid, clause),
                          'replay_fn': 'bounded_dataflow_replay',
                          # every failing program of the clause (tools/BOUNDED_GUIDE.md, `also`)
                          'also': _also_list(as_case(prog, fid, clause),
                                             [as_case(q, fid, clause) for q in also.get((fid, clause), [])])})
    bound = ' | '.join(f"{f['name']} ({per_family.get(f['name'], 0)} programs): {f['bound']}" for f in fams)
    bound += (f' | model level queries ({mq_total} of the programs above: those of the families checked in full that '
              'have no ODE system and assign their symbols for the first time in the order A,B,C,Y or A,B,Y - programs that '
              'differ only by renaming the assigned symbols are taken once - and those that end with the ODE system): '
              'a model around the statements with the data column X, the random variables E (IIV) and P (IOV) and every '
              'other input as parameter; for every symbol s assigned before the ODE system depends_on(model, s, x) for '
              'every input x, has_random_effect(model, s, level) for iiv/iov/all and get_parameter_rv(model, s, type) '
              'for iiv/iov (s not defined by an expression in a single symbol) against the inputs of the reference interpreter')
    return {'cases': cases, 'nontrivial': nontrivial, 'bound': bound, 'samples': samples, 'fails': out_fails}


def bounded_dataflow_replay(rp):
    case = rp['case']
    prog = _tup(case['prog'])
    res = _check_program(prog, 'full')
    key = (case['fid'], case['clause'])
    if key in res:
        return (False, res[key])
    return (True, 'ok')


# ==================================================================================================
#                                   PART 2 :  C05  compartmental systems
# ==================================================================================================
#
# case = {'n': n, 'edges': [[i, j], ...], 'outs': [i, ...], 'dose': d, 'input': k | None}
#   compartments NAMES[:n]; flow i->j has rate K<i+1><j+1>; output flow of i has rate K<i+1>0;
#   Bolus(AMT) into compartment d which also gets lag time ALAG and bioavailability FBIO (all the other
#   compartments keep the defaults 0 / 1); optional zero-order input R0 into compartment k.
# reference model ("ref") = plain dictionaries; the ODEs are derived from it directly:
#   dA_c/dt = sum_j rate(j->c) A_j - (sum_j rate(c->j) + out(c)) A_c + input(c)

NAMES = ['CENTRAL', 'DEPOT', 'PERI', 'X4']
ALLNAMES = NAMES + ['NEWC']

CS = STM + 'CompartmentalSystem.'
CB = STM + 'CompartmentalSystemBuilder.'

CC_ERR = 'the accessors (eqs, compartmental_matrix, amounts, compartment_names, zero_order_inputs) answer without internal error'
CC_ORDER = 'amounts, compartment_names, zero_order_inputs, matrix rows and eqs list every compartment once in one common order'
CC_OFFDIAG = 'compartmental_matrix[j, i] is the rate of the flow i -> j for i != j'
CC_COLSUM = 'every column of the compartmental matrix sums to minus the output rate of that compartment (mass balance)'
CC_EQS_MA = 'eqs == compartmental_matrix * amounts + zero_order_inputs entrywise'
CC_EQS_REF = 'the rate of change of each amount is inflows minus outflows plus zero-order input'
CC_MASS = 'the sum of all equations is minus the output flows plus the inputs'
CC_TOCS_N = 'to_compartmental_system(names, eqs) has the same compartments'
CC_TOCS_EQS = 'to_compartmental_system(names, eqs) has the same differential equations'
CC_TOCS_FLOWS = 'to_compartmental_system(names, eqs) recovers every flow, output flow and zero-order input'
CC_TOCS_ERR = 'to_compartmental_system raises no internal error on the equations of a system'
CC_DICT = 'from_dict(to_dict(cs)) has the same compartments, flows, doses, inputs, lag times and bioavailabilities and equals cs'
CC_SUBS_RATE = 'subs of the rate symbols substitutes in every flow and keeps doses, inputs, lag times and bioavailabilities'
CC_SUBS_COMP = 'subs of dose/input/lag/bioavailability symbols substitutes in the compartments and keeps every flow'
CC_SUBS_EXPR = ('subs with amount functions or compound expressions as keys substitutes them in every flow: '
                'new.get_flow(a, b) == old.get_flow(a, b).subs(m) for every pair of compartments and the output')
CC_SUBS_EXPR_COMP = ('subs with amount functions or compound expressions as keys substitutes amount, doses, input, lag '
                     'time and bioavailability of every compartment and keeps the compartment names and their number')
CC_BUILD = 'the builder produces exactly the compartments, flows, doses, inputs, lag times and bioavailabilities that were added'
CC_ORDER_EQ = 'two systems built from the same parts in different insertion orders are equal'
CC_ORDER_HASH = 'two systems built from the same parts in different insertion orders have equal hashes'
CC_ORDER_EQS = 'two systems built from the same parts in different insertion orders have equal eqs, names and matrix'
CC_EQ_ERR = 'comparing two systems raises no error'
CC_NEQ = 'a system is not equal to one that differs in a compartment attribute or flow'
CC_OP = 'the operation changes exactly what it names (every other compartment, flow and rate unchanged)'
CC_OP_ERR = 'the operation raises no internal error'
CC_IMMUT = 'builder operations on a copy leave the original system unchanged'


def _cs_ref(case):
    n = case['n']
    names = NAMES[:n]
    ref = {'flows': {}, 'outs': {}, 'comps': {}}
    for i, j in case['edges']:
        ref['flows'][(names[i], names[j])] = f'K{i + 1}{j + 1}'
    for i in case['outs']:
        ref['outs'][names[i]] = f'K{i + 1}0'
    for i, nm in enumerate(names):
        ref['comps'][nm] = {'doses': (), 'input': '0', 'lag': '0', 'bio': '1'}
    d = names[case['dose']]
    ref['comps'][d].update(doses=(('Bolus', 'AMT', 1),), lag='ALAG', bio='FBIO')
    if case.get('input') is not None:
        ref['comps'][names[case['input']]]['input'] = 'R0'
    return ref


def _copy_ref(ref):
    return {'flows': dict(ref['flows']), 'outs': dict(ref['outs']),
            'comps': {k: dict(v) for k, v in ref['comps'].items()}}


def _mk_dose(d):
    px = _px()
    assert d[0] == 'Bolus'
    return px['Bolus'].create(d[1], admid=d[2])


def _cs_build(ref, order):
    """order 0: complete Compartment objects, compartments/flows in sorted order, outputs last
       order 1: bare compartments in reverse order, outputs first, flows reversed, then the attributes
                through the builder operations (set_dose, set_input, set_lag_time, set_bioavailability)"""
    px = _px()
    Compartment, output = px['Compartment'], px['output']
    cb = px['Builder']()
    names = sorted(ref['comps'])
    if order == 0:
        objs = {}
        for nm in names:
            c = ref['comps'][nm]
            objs[nm] = Compartment.create(nm, doses=tuple(_mk_dose(d) for d in c['doses']), input=c['input'],
                                          lag_time=c['lag'], bioavailability=c['bio'])
            cb.add_compartment(objs[nm])
        for (a, b), rate in sorted(ref['flows'].items()):
            cb.add_flow(objs[a], objs[b], rate)
        for a, rate in sorted(ref['outs'].items()):
            cb.add_flow(objs[a], output, rate)
    else:
        objs = {}
        for nm in reversed(names):
            objs[nm] = Compartment.create(nm)
            cb.add_compartment(objs[nm])
        for a, rate in sorted(ref['outs'].items(), reverse=True):
            cb.add_flow(objs[a], output, rate)
        for (a, b), rate in sorted(ref['flows'].items(), reverse=True):
            cb.add_flow(objs[a], objs[b], rate)
        for nm in reversed(names):
            c = ref['comps'][nm]
            if c['bio'] != '1':
                cb.set_bioavailability(cb.find_compartment(nm), c['bio'])
            if c['doses']:
                cb.set_dose(cb.find_compartment(nm), tuple(_mk_dose(d) for d in c['doses']))
            if c['input'] != '0':
                cb.set_input(cb.find_compartment(nm), c['input'])
            if c['lag'] != '0':
                cb.set_lag_time(cb.find_compartment(nm), c['lag'])
    return px['CompartmentalSystem'](cb)


def _observe(cs):
    """plain-data view of a system through find_compartment / get_flow"""
    output = _px()['output']
    comps = {}
    for nm in ALLNAMES:
        c = cs.find_compartment(nm)
        if c is not None:
            comps[nm] = c
    obs = {'flows': {}, 'outs': {}, 'comps': {}, 'len': len(cs)}
    for nm, c in comps.items():
        obs['comps'][nm] = {'doses': tuple((type(d).__name__, str(d.amount), d.admid) for d in c.doses),
                            'input': str(c.input), 'lag': str(c.lag_time), 'bio': str(c.bioavailability)}
        if str(c.amount) != f'A_{nm}(t)':
            obs['comps'][nm]['amount'] = str(c.amount)
        r = cs.get_flow(c, output)
        if r != 0:
            obs['outs'][nm] = str(r)
        for nm2, c2 in comps.items():
            if nm2 != nm:
                r = cs.get_flow(c, c2)
                if r != 0:
                    obs['flows'][(nm, nm2)] = str(r)
    return obs


def _obs_matches(obs, ref):
    return (obs['flows'] == ref['flows'] and obs['outs'] == ref['outs'] and obs['comps'] == ref['comps']
            and obs['len'] == len(ref['comps']))


def _obs_diff(obs, ref):
    out = []
    for k in ('flows', 'outs', 'comps'):
        if obs[k] != ref[k]:
            out.append(f'{k}: got {_j(obs[k])} expected {_j(ref[k])}')
    if obs['len'] != len(ref['comps']):
        out.append(f"len {obs['len']} expected {len(ref['comps'])}")
    return '; '.join(out)[:600]


def _j(d):
    return {('->'.join(k) if isinstance(k, tuple) else k): v for k, v in d.items()}


def _amt(nm):
    return _px()['Expr'].function(f'A_{nm}', 't')


def _ramt(ref, nm):
    """amount function of a compartment in the reference model (A_<name>(t) unless the model says otherwise)"""
    a = ref.get('amounts', {}).get(nm)
    return _amt(nm) if a is None else a


def _is_zero(e):
    Expr = _px()['Expr']
    e = Expr(e).expand()
    if e == 0:
        return True
    import sympy
    from sympy.core.function import AppliedUndef
    s = sympy.sympify(e._sympy_())
    # a point at which the expression has a non-zero value shows that it is not identically zero (this only
    # spares the slow simplify for expressions that do differ; everything else is decided by simplify)
    try:
        atoms = sorted(s.atoms(sympy.Symbol) | s.atoms(AppliedUndef), key=str)
        point = {a: sympy.Rational(sympy.prime(k + 2), 1) + sympy.Rational(1, 3) for k, a in enumerate(atoms)}
        v = s.xreplace(point)
        if v.is_Rational and v != 0:
            return False
    except Exception:
        pass
    return sympy.simplify(s) == 0


def _ref_rhs(ref, nm):
    Expr = _px()['Expr']
    e = Expr(ref['comps'][nm]['input'])
    for (a, b), rate in ref['flows'].items():
        if b == nm:
            e = e + Expr(rate) * _ramt(ref, a)
        if a == nm:
            e = e - Expr(rate) * _ramt(ref, nm)
    if nm in ref['outs']:
        e = e - Expr(ref['outs'][nm]) * _ramt(ref, nm)
    return e


def _check_system(cs, ref, add, what=''):
    """C05 consistency clauses of one system against the reference model"""
    Expr = _px()['Expr']
    try:
        names = list(cs.compartment_names)
        amounts = list(cs.amounts)
        u = list(cs.zero_order_inputs)
        M = cs.compartmental_matrix
        eqs = list(cs.eqs)
    except Exception as e:
        add(CS + 'eqs', CC_ERR, f'{what}accessor raised {_exc(e)}')
        return
    n = len(ref['comps'])
    t = Expr.symbol('t')
    ok = (sorted(names) == sorted(ref['comps']) and len(amounts) == n and len(u) == n and len(eqs) == n
          and M.rows == n and M.cols == n)
    if ok:
        for i, nm in enumerate(names):
            if amounts[i] != _ramt(ref, nm) or u[i] != Expr(ref['comps'][nm]['input']) or \
                    eqs[i].lhs != Expr.derivative(_ramt(ref, nm), t):
                ok = False
    if not ok:
        add(CS + '_order_compartments', CC_ORDER,
            f'{what}names {names}, amounts {[str(a) for a in amounts]}, inputs {[str(x) for x in u]}, '
            f'eq lhs {[str(e.lhs) for e in eqs]}, matrix {M.rows}x{M.cols}')
        return
    for i, src in enumerate(names):
        col = Expr.integer(0)
        for j, dst in enumerate(names):
            col = col + M[j, i]
            if i != j:
                want = Expr(ref['flows'].get((src, dst), 0))
                if M[j, i] != want:
                    add(CS + 'compartmental_matrix', CC_OFFDIAG,
                        f'{what}matrix[{j},{i}] = {M[j, i]} but rate({src}->{dst}) = {want}; names {names}')
        if not _is_zero(col + Expr(ref['outs'].get(src, 0))):
            add(CS + 'compartmental_matrix', CC_COLSUM,
                f'{what}column {i} ({src}) sums to {col.expand()}, output rate is {ref["outs"].get(src, 0)}')
    total = Expr.integer(0)
    for i, nm in enumerate(names):
        rhs = eqs[i].rhs
        ma = u[i]
        for j in range(n):
            ma = ma + M[i, j] * amounts[j]
        if not _is_zero(rhs - ma):
            add(CS + 'eqs', CC_EQS_MA, f'{what}eq {i}: {eqs[i]} but (M*A+u)[{i}] = {ma.expand()}')
        if not _is_zero(rhs - _ref_rhs(ref, nm)):
            add(CS + 'eqs', CC_EQS_REF, f'{what}{eqs[i]} but inflows - outflows + input = {_ref_rhs(ref, nm).expand()}')
        total = total + rhs
    bal = Expr.integer(0)
    for nm in names:
        bal = bal - Expr(ref['outs'].get(nm, 0)) * _ramt(ref, nm) + Expr(ref['comps'][nm]['input'])
    if not _is_zero(total - bal):
        add(CS + 'eqs', CC_MASS, f'{what}sum of right hand sides {total.expand()} != {bal.expand()}')


def _rename(s, mapping):
    return mapping.get(s, s)


def _ops(ref):
    """single builder operations with the expected edited reference model.
    yields (label, method, fn(cb) -> None, expected ref)"""
    px = _px()
    Compartment, output, Bolus = px['Compartment'], px['output'], px['Bolus']
    names = sorted(ref['comps'])
    dosecomp = [nm for nm in names if ref['comps'][nm]['doses']][0]
    d2 = ('Bolus', 'AMT2', 2)
    for nm in names:
        r = _copy_ref(ref)
        r['comps'][nm]['doses'] = (d2,)
        yield (f'set_dose({nm}, Bolus(AMT2, admid=2))', 'set_dose',
               lambda cb, nm=nm: cb.set_dose(cb.find_compartment(nm), Bolus.create('AMT2', admid=2)), r)
        r = _copy_ref(ref)
        r['comps'][nm]['doses'] = r['comps'][nm]['doses'] + (d2,)
        yield (f'add_dose({nm}, Bolus(AMT2, admid=2))', 'add_dose',
               lambda cb, nm=nm: cb.add_dose(cb.find_compartment(nm), Bolus.create('AMT2', admid=2)), r)
        r = _copy_ref(ref)
        r['comps'][nm]['lag'] = 'L2'
        yield (f'set_lag_time({nm}, L2)', 'set_lag_time',
               lambda cb, nm=nm: cb.set_lag_time(cb.find_compartment(nm), 'L2'), r)
        r = _copy_ref(ref)
        r['comps'][nm]['bio'] = 'F2'
        yield (f'set_bioavailability({nm}, F2)', 'set_bioavailability',
               lambda cb, nm=nm: cb.set_bioavailability(cb.find_compartment(nm), 'F2'), r)
        r = _copy_ref(ref)
        r['comps'][nm]['input'] = 'R2'
        yield (f'set_input({nm}, R2)', 'set_input',
               lambda cb, nm=nm: cb.set_input(cb.find_compartment(nm), 'R2'), r)
        if nm != dosecomp:
            r = _copy_ref(ref)
            r['comps'][nm]['doses'] = r['comps'][nm]['doses'] + ref['comps'][dosecomp]['doses']
            r['comps'][dosecomp]['doses'] = ()
            yield (f'move_dose({dosecomp}, {nm})', 'move_dose',
                   lambda cb, nm=nm: cb.move_dose(cb.find_compartment(dosecomp), cb.find_compartment(nm)), r)
        if len(names) > 1:
            r = _copy_ref(ref)
            del r['comps'][nm]
            r['flows'] = {k: v for k, v in r['flows'].items() if nm not in k}
            r['outs'].pop(nm, None)
            yield (f'remove_compartment({nm})', 'remove_compartment',
                   lambda cb, nm=nm: cb.remove_compartment(cb.find_compartment(nm)), r)
    r = _copy_ref(ref)
    r['comps'][dosecomp]['doses'] = ()
    yield (f'remove_dose({dosecomp})', 'remove_dose',
           lambda cb: cb.remove_dose(cb.find_compartment(dosecomp)), r)
    yield (f'remove_dose({dosecomp}, admid=1)', 'remove_dose',
           lambda cb: cb.remove_dose(cb.find_compartment(dosecomp), admid=1), r)
    yield (f'remove_dose({dosecomp}, admid=2)', 'remove_dose',
           lambda cb: cb.remove_dose(cb.find_compartment(dosecomp), admid=2), _copy_ref(ref))
    # first missing flow / first present flow / first output / a new compartment
    missing = [(a, b) for a in names for b in names if a != b and (a, b) not in ref['flows']]
    if missing:
        a, b = missing[0]
        r = _copy_ref(ref)
        r['flows'][(a, b)] = 'KNEW'
        yield (f'add_flow({a}, {b}, KNEW)', 'add_flow',
               lambda cb: cb.add_flow(cb.find_compartment(a), cb.find_compartment(b), 'KNEW'), r)
    if ref['flows']:
        a2, b2 = sorted(ref['flows'])[-1]
        r = _copy_ref(ref)
        del r['flows'][(a2, b2)]
        yield (f'remove_flow({a2}, {b2})', 'remove_flow',
               lambda cb: cb.remove_flow(cb.find_compartment(a2), cb.find_compartment(b2)), r)
    if ref['outs']:
        a3 = sorted(ref['outs'])[0]
        r = _copy_ref(ref)
        del r['outs'][a3]
        yield (f'remove_flow({a3}, output)', 'remove_flow',
               lambda cb: cb.remove_flow(cb.find_compartment(a3), output), r)
    r = _copy_ref(ref)
    r['comps']['NEWC'] = {'doses': (), 'input': '0', 'lag': '0', 'bio': '1'}
    r['flows'][('NEWC', names[0])] = 'KN1'
    yield (f'add_compartment(NEWC); add_flow(NEWC, {names[0]}, KN1)', 'add_compartment',
           lambda cb: (cb.add_compartment(Compartment.create('NEWC')),
                       cb.add_flow(cb.find_compartment('NEWC'), cb.find_compartment(names[0]), 'KN1')), r)


def _compare_orders(cs, cs1, add, what):
    """the same parts put together in two different insertion orders"""
    try:
        if not (cs == cs1 and cs1 == cs):
            add(CS + '__eq__', CC_ORDER_EQ, f'{what}cs(order 0) != cs(order 1)')
        elif hash(cs) != hash(cs1):
            add(CS + '__hash__', CC_ORDER_HASH, f'{what}equal systems, different hashes')
    except Exception as e:
        add(CS + '__eq__', CC_EQ_ERR, f'{what}cs(order 0) == cs(order 1) raised {_exc(e)}')
    try:
        if tuple(cs.eqs) != tuple(cs1.eqs) or list(cs.compartment_names) != list(cs1.compartment_names) or \
                cs.compartmental_matrix != cs1.compartmental_matrix or cs.amounts != cs1.amounts or \
                cs.zero_order_inputs != cs1.zero_order_inputs:
            add(CS + '_order_compartments', CC_ORDER_EQS,
                f'{what}names {cs.compartment_names} vs {cs1.compartment_names}; eqs {cs.eqs} vs {cs1.eqs}')
    except Exception as e:
        add(CS + 'eqs', CC_ERR, f'{what}accessor raised {_exc(e)}')


# ---- systems with nonlinear rates, substitutions keyed by amount functions and compound expressions -------
#
# case = {..., 'style': s}: the same graph, but the k-th flow (flows in sorted order, then the output flows) has
# the rate of style NL_STYLES[(k + s) % 5]:
#   sat  VMij/(KMij + A_src(t))               saturable (Michaelis-Menten) in the amount of the source
#   cmp  CLij/Vi                              compound expression of parameters
#   inh  Kij*ICij/(ICij + A_other(t))         inhibited by another amount (the destination; for an output flow the
#                                             compartment after the source)
#   mix  CLij/Vi + VMij/(KMij + A_src(t))     linear plus saturable
#   lin  Kij
NL_STYLES = ('sat', 'cmp', 'inh', 'mix', 'lin')
# case = {..., 'style': s, 'pal': 1}: the second palette - rates in which a compartment amount is a multiplicative
# factor or occurs in the numerator (second-order binding, target mediated disposition, power laws, sigmoid
# elimination); the k-th flow has the rate of style NL_STYLES_MULT[(k + s) % 6]:
#   bind   KONij*A_other(t)                           proportional to another amount (second-order binding)
#   bindv  CLij/Vi + KONij*A_other(t)/Vi              linear plus second-order, compound coefficients
#   self   Kij*A_src(t)                               proportional to the amount of the source itself
#   hill   VMij*A_src(t)/(KMij**2 + A_src(t)**2)      the source amount in numerator and denominator
#   prod   Kij*A_src(t)*A_other(t)                    product of two amounts
#   cmp    CLij/Vi                                    (linear flows next to the nonlinear ones)
# (`other` as for inh: the destination; for an output flow the compartment after the source; with one compartment
# it is the source)
NL_STYLES_MULT = ('bind', 'bindv', 'self', 'hill', 'prod', 'cmp')
NL_PALETTES = (NL_STYLES, NL_STYLES_MULT)


def _nl_styles(case):
    return NL_PALETTES[case.get('pal') or 0]


def _nl_rate(style, i, j, n):
    """rate (Expr) of the flow NAMES[i] -> NAMES[j] (j None: output) in that style"""
    Expr = _px()['Expr']
    S = Expr.symbol
    sfx = f'{i + 1}{0 if j is None else j + 1}'
    src = _amt(NAMES[i])
    other = _amt(NAMES[j if j is not None else (i + 1) % n])
    if style == 'bind':
        return S('KON' + sfx) * other
    if style == 'bindv':
        return S('CL' + sfx) / S(f'V{i + 1}') + S('KON' + sfx) * other / S(f'V{i + 1}')
    if style == 'self':
        return S('K' + sfx) * src
    if style == 'hill':
        return S('VM' + sfx) * src / (S('KM' + sfx) ** 2 + src ** 2)
    if style == 'prod':
        return S('K' + sfx) * src * other
    if style == 'sat':
        return S('VM' + sfx) / (S('KM' + sfx) + src)
    if style == 'cmp':
        return S('CL' + sfx) / S(f'V{i + 1}')
    if style == 'inh':
        return S('K' + sfx) * S('IC' + sfx) / (S('IC' + sfx) + other)
    if style == 'mix':
        return S('CL' + sfx) / S(f'V{i + 1}') + S('VM' + sfx) / (S('KM' + sfx) + src)
    return S('K' + sfx)


def _nl_ref(case):
    """reference model of a case with nonlinear rates: like _cs_ref, rates are Expr; 'parts' lists the
    non-symbol subexpressions the rates were put together from (candidate substitution keys)"""
    n = case['n']
    ref = _cs_ref(case)
    edges = [(i, j) for i, j in sorted(tuple(e) for e in case['edges'])] + [(i, None) for i in sorted(case['outs'])]
    parts = []
    Expr = _px()['Expr']
    S = Expr.symbol
    for k, (i, j) in enumerate(edges):
        styles = _nl_styles(case)
        style = styles[(k + case['style']) % len(styles)]
        rate = _nl_rate(style, i, j, n)
        sfx = f'{i + 1}{0 if j is None else j + 1}'
        if j is None:
            ref['outs'][NAMES[i]] = rate
        else:
            ref['flows'][(NAMES[i], NAMES[j])] = rate
        oth = NAMES[j if j is not None else (i + 1) % n]
        if style in ('bind', 'bindv'):
            parts.append((f'KON{sfx}*A_{oth}(t)', S('KON' + sfx) * _amt(oth)))
        if style == 'self':
            parts.append((f'K{sfx}*A_{NAMES[i]}(t)', S('K' + sfx) * _amt(NAMES[i])))
        if style == 'hill':
            parts.append((f'KM{sfx}**2 + A_{NAMES[i]}(t)**2', S('KM' + sfx) ** 2 + _amt(NAMES[i]) ** 2))
        if style == 'prod' and oth != NAMES[i]:
            parts.append((f'A_{NAMES[i]}(t)*A_{oth}(t)', _amt(NAMES[i]) * _amt(oth)))
        if style in ('cmp', 'mix', 'bindv'):
            parts.append((f'CL{sfx}/V{i + 1}', S('CL' + sfx) / S(f'V{i + 1}')))
        if style in ('sat', 'mix'):
            parts.append((f'VM{sfx}/(KM{sfx} + A_{NAMES[i]}(t))', S('VM' + sfx) / (S('KM' + sfx) + _amt(NAMES[i]))))
        if style == 'inh':
            other = NAMES[j if j is not None else (i + 1) % n]
            parts.append((f'IC{sfx} + A_{other}(t)', S('IC' + sfx) + _amt(other)))
    ref['parts'] = parts
    return ref


def _nl_maps(ref):
    """the substitutions tried on one system: (label, mapping).  Keys are amount functions, compound
    expressions and - as controls - symbols; Expr keys and str keys"""
    Expr = _px()['Expr']
    S = Expr.symbol
    names = sorted(ref['comps'])
    fn = lambda nm: Expr.function(f'A_{nm}', 't')  # noqa
    maps = []
    for nm in names:
        maps.append((f'{{A_{nm}(t): A_{nm}X(t)}}', {fn(nm): fn(nm + 'X')}))
    maps.append(('every amount function A_c(t) -> A_cX(t)', {fn(nm): fn(nm + 'X') for nm in names}))
    maps.append((f"str keys {{'A_{names[-1]}(t)': 'A_{names[-1]}X(t)'}}", {f'A_{names[-1]}(t)': f'A_{names[-1]}X(t)'}))
    for k, (text, part) in enumerate(ref['parts']):
        maps.append((f'{{{text}: Q{k}}}', {part: S(f'Q{k}')}))
    if ref['parts']:
        maps.append(('every compound part -> Qk', {part: S(f'Q{k}') for k, (_, part) in enumerate(ref['parts'])}))
        text = ref['parts'][0][0]
        maps.append((f"str keys {{'{text}': 'Q0'}}", {text: 'Q0'}))
    rates = [ref['flows'][k] for k in sorted(ref['flows'])] + [ref['outs'][k] for k in sorted(ref['outs'])]
    if rates:
        maps.append(('every whole rate -> Rk', {r: S(f'R{k}') for k, r in enumerate(rates)}))
        m = {fn(names[0]): fn(names[0] + 'X'), S('AMT'): S('DOSE'), S('ALAG'): S('LAG9'), S('FBIO'): S('F9'),
             S('R0'): S('RR') * S('WT')}
        if ref['parts']:
            m[ref['parts'][-1][1]] = S('QL')
        maps.append((f'{{A_{names[0]}(t): A_{names[0]}X(t), AMT: DOSE, ALAG: LAG9, FBIO: F9, R0: RR*WT'
                     + (f', {ref["parts"][-1][0]}: QL' if ref['parts'] else '') + '}', m))
        syms = sorted({x for r in rates for x in r.free_symbols if str(x) != 't'}, key=str)
        maps.append(('every rate symbol P -> P*WT (compound values)', {x: x * S('WT') for x in syms}))
    return maps


def _nl_subs_ref(ref, m):
    """the reference model after substitution m: Expr.subs on every rate and every compartment attribute"""
    Expr = _px()['Expr']
    want = {'flows': {k: Expr(v).subs(m) for k, v in ref['flows'].items()},
            'outs': {k: Expr(v).subs(m) for k, v in ref['outs'].items()},
            'comps': {}, 'amounts': {}}
    for nm, c in ref['comps'].items():
        want['comps'][nm] = {'doses': tuple((d[0], str(Expr(d[1]).subs(m)), d[2]) for d in c['doses']),
                             'input': str(Expr(c['input']).subs(m)), 'lag': str(Expr(c['lag']).subs(m)),
                             'bio': str(Expr(c['bio']).subs(m))}
        want['amounts'][nm] = _ramt(ref, nm).subs(m)
    return want


def _same_expr(a, b):
    return a == b or _is_zero(a - b)


def _nl_observe(cs, names):
    """(flows, outs, comps, amounts, len) of a system through find_compartment / get_flow; rates are Expr"""
    output = _px()['output']
    comps = {nm: cs.find_compartment(nm) for nm in names}
    flows, outs, cd, amounts = {}, {}, {}, {}
    for nm, c in comps.items():
        if c is None:
            continue
        cd[nm] = {'doses': tuple((type(d).__name__, str(d.amount), d.admid) for d in c.doses),
                  'input': str(c.input), 'lag': str(c.lag_time), 'bio': str(c.bioavailability)}
        amounts[nm] = c.amount
        outs[nm] = cs.get_flow(c, output)
        for nm2, c2 in comps.items():
            if nm2 != nm and c2 is not None:
                flows[(nm, nm2)] = cs.get_flow(c, c2)
    return flows, outs, cd, amounts, len(cs)


def _nl_flow_diff(obs, want, names):
    """first pair whose observed rate differs from the reference rate (0 where no flow), or None"""
    Expr = _px()['Expr']
    flows, outs = obs[0], obs[1]
    for a in names:
        for b in names:
            if a != b:
                w = Expr(want['flows'].get((a, b), 0))
                g = flows.get((a, b))
                if g is None or not _same_expr(g, w):
                    return f'get_flow({a}, {b}) = {g}, expected {w}'
        w = Expr(want['outs'].get(a, 0))
        g = outs.get(a)
        if g is None or not _same_expr(g, w):
            return f'get_flow({a}, output) = {g}, expected {w}'
    return None


def _nl_comp_diff(obs, want, names):
    cd, amounts, ln = obs[2], obs[3], obs[4]
    if sorted(cd) != sorted(want['comps']) or ln != len(want['comps']):
        return f'compartments {sorted(cd)}, len {ln}; expected {sorted(want["comps"])}'
    for nm in names:
        if cd[nm] != want['comps'][nm]:
            return f'{nm}: {cd[nm]}, expected {want["comps"][nm]}'
        if amounts[nm] != _ramt(want, nm):
            return f'{nm}: amount {amounts[nm]}, expected {_ramt(want, nm)}'
    return None


def _check_cs_nl_case(case):
    """C05 on a system with nonlinear rates: what was built, consistency of matrix / amounts / equations,
    serialisation, and every substitution of _nl_maps"""
    px = _px()
    CompartmentalSystem = px['CompartmentalSystem']
    fails = {}

    def add(fid, clause, detail):
        if (fid, clause) not in fails:
            fails[(fid, clause)] = detail

    ref = _nl_ref(case)
    names = sorted(ref['comps'])
    try:
        cs = _cs_build(ref, 0)
        cs1 = _cs_build(ref, 1)
    except Exception as e:
        add(CB + 'add_flow', CC_BUILD, f'nonlinear rates: building raised {_exc(e)}')
        return fails
    plain = {'flows': ref['flows'], 'outs': ref['outs'], 'comps': ref['comps']}
    for which, system, fid in (('order 0', cs, CB + 'add_flow'), ('order 1', cs1, CB + 'set_dose')):
        obs = _nl_observe(system, names)
        d = _nl_flow_diff(obs, plain, names) or _nl_comp_diff(obs, plain, names)
        if d:
            add(fid, CC_BUILD, f'nonlinear rates, {which}: {d}')
    _check_system(cs, plain, add, 'nonlinear rates: ')
    _compare_orders(cs, cs1, add, 'nonlinear rates: ')
    try:
        back = CompartmentalSystem.from_dict(cs.to_dict())
        obs = _nl_observe(back, names)
        d = _nl_flow_diff(obs, plain, names) or _nl_comp_diff(obs, plain, names)
        if d:
            add(CS + 'to_dict', CC_DICT, f'nonlinear rates: {d}')
        elif tuple(back.eqs) != tuple(cs.eqs):
            add(CS + 'to_dict', CC_DICT, f'nonlinear rates: eqs changed: {back.eqs} vs {cs.eqs}')
        else:
            try:
                same = back == cs
            except Exception as e:
                same = True
                add(CS + '__eq__', CC_EQ_ERR, f'nonlinear rates: from_dict(to_dict(cs)) == cs raised {_exc(e)}')
            if not same:
                add(CS + 'to_dict', CC_DICT, 'nonlinear rates: from_dict(to_dict(cs)) != cs')
    except Exception as e:
        add(CS + 'to_dict', CC_DICT, f'nonlinear rates: round trip raised {_exc(e)}')

    maps = _nl_maps(ref)
    # flows and compartments are compared after every substitution; the (expensive) consistency clauses of matrix /
    # amounts / equations after the substitutions that change several things at once, after the str-keyed ones and
    # after one single-key substitution that rotates with the style - after every one when the case says 'full'
    single = [i for i, (label, _) in enumerate(maps) if label.startswith('{') and label.count(':') == 1]
    rotating = single[case['style'] % len(single)] if single else None
    for i, (label, m) in enumerate(maps):
        consistency = case.get('full') or i == rotating or i not in single
        want = _nl_subs_ref(plain, m)
        try:
            sub = cs.subs(m)
            obs = _nl_observe(sub, names)
        except Exception as e:
            add(CS + 'subs', CC_SUBS_EXPR, f'subs({label}) raised {_exc(e)}')
            continue
        d = _nl_flow_diff(obs, want, names)
        if d:
            add(CS + 'subs', CC_SUBS_EXPR, f'subs({label}): {d}')
        d = _nl_comp_diff(obs, want, names)
        if d:
            add(CS + 'subs', CC_SUBS_EXPR_COMP, f'subs({label}): {d}')
        if consistency:
            _check_system(sub, want, add, f'after subs({label}): ')
    obs = _nl_observe(cs, names)
    d = _nl_flow_diff(obs, plain, names) or _nl_comp_diff(obs, plain, names)
    if d:
        add(CS + 'subs', CC_IMMUT, f'nonlinear rates: subs changed the original system: {d}')
    return fails


def _check_cs_case(case, with_tocs=True):
    """all C05 clauses on one case; returns {(fid, clause): detail}"""
    if case.get('style') is not None:
        return _check_cs_nl_case(case)
    px = _px()
    Expr = px['Expr']
    CompartmentalSystem = px['CompartmentalSystem']
    fails = {}

    def add(fid, clause, detail):
        if (fid, clause) not in fails:
            fails[(fid, clause)] = detail

    ref = _cs_ref(case)
    try:
        cs = _cs_build(ref, 0)
        cs1 = _cs_build(ref, 1)
    except Exception as e:
        add(CB + 'add_flow', CC_BUILD, f'building raised {_exc(e)}')
        return fails
    obs = _observe(cs)
    obs1 = _observe(cs1)
    if not _obs_matches(obs, ref):
        add(CB + 'add_flow', CC_BUILD, 'order 0: ' + _obs_diff(obs, ref))
    if not _obs_matches(obs1, ref):
        add(CB + 'set_dose', CC_BUILD, 'order 1 (attributes set through the builder): ' + _obs_diff(obs1, ref))
    _check_system(cs, ref, add)
    _check_system(cs1, ref, add, 'reverse insertion order: ')

    # ---- two insertion orders ----------------------------------------------------------------
    _compare_orders(cs, cs1, add, '')

    # ---- serialisation -------------------------------------------------------------------------
    try:
        back = CompartmentalSystem.from_dict(cs.to_dict())
        ob = _observe(back)
        if not _obs_matches(ob, ref):
            add(CS + 'to_dict', CC_DICT, _obs_diff(ob, ref))
        elif tuple(back.eqs) != tuple(cs.eqs):
            add(CS + 'to_dict', CC_DICT, f'eqs changed: {back.eqs} vs {cs.eqs}')
        else:
            try:
                same = back == cs
            except Exception as e:
                same = True
                add(CS + '__eq__', CC_EQ_ERR, f'from_dict(to_dict(cs)) == cs raised {_exc(e)}')
            if not same:
                add(CS + 'to_dict', CC_DICT, 'from_dict(to_dict(cs)) != cs')
    except Exception as e:
        add(CS + 'to_dict', CC_DICT, f'round trip raised {_exc(e)}')

    # ---- substitution --------------------------------------------------------------------------
    rates = sorted(set(ref['flows'].values()) | set(ref['outs'].values()))
    try:
        mp = {r: r + 'S' for r in rates}
        sub = cs.subs({Expr.symbol(k): Expr.symbol(v) for k, v in mp.items()})
        want = _copy_ref(ref)
        want['flows'] = {k: mp[v] for k, v in ref['flows'].items()}
        want['outs'] = {k: mp[v] for k, v in ref['outs'].items()}
        ob = _observe(sub)
        if not _obs_matches(ob, want):
            add(CS + 'subs', CC_SUBS_RATE, _obs_diff(ob, want))
        if not _obs_matches(_observe(cs), ref):
            add(CS + 'subs', CC_IMMUT, 'subs changed the original system')
        _check_system(sub, want, add, 'after subs of the rates: ')
        mp = {'AMT': 'DOSE', 'ALAG': 'LAG9', 'FBIO': 'F9', 'R0': 'RR'}
        sub = cs.subs({k: v for k, v in mp.items()})    # str keys as in the docstring
        want = _copy_ref(ref)
        for c in want['comps'].values():
            c['doses'] = tuple((d[0], _rename(d[1], mp), d[2]) for d in c['doses'])
            for k in ('input', 'lag', 'bio'):
                c[k] = _rename(c[k], mp)
        ob = _observe(sub)
        if not _obs_matches(ob, want):
            add(CS + 'subs', CC_SUBS_COMP, _obs_diff(ob, want))
    except Exception as e:
        add(CS + 'subs', CC_SUBS_RATE, f'subs raised {_exc(e)}')

    # ---- equations -> system ---------------------------------------------------------------------
    if with_tocs:
        try:
            fmap = {_amt(nm): nm for nm in ref['comps']}
            back = px['to_cs'](fmap, [e._sympy_() for e in cs.eqs])
            ob = _observe(back)
            if sorted(ob['comps']) != sorted(ref['comps']) or len(back) != len(ref['comps']):
                add(STM + 'to_compartmental_system', CC_TOCS_N, f'compartments {sorted(ob["comps"])}, len {len(back)}')
            else:
                beqs = {str(e.lhs): e.rhs for e in back.eqs}
                for e in cs.eqs:
                    if str(e.lhs) not in beqs or not _is_zero(beqs[str(e.lhs)] - e.rhs):
                        add(STM + 'to_compartmental_system', CC_TOCS_EQS,
                            f'{e} became {beqs.get(str(e.lhs))}; all: {back.eqs}')
                        break
                inputs = {k: v['input'] for k, v in ob['comps'].items()}
                want_inputs = {k: v['input'] for k, v in ref['comps'].items()}
                if ob['flows'] != ref['flows'] or ob['outs'] != ref['outs'] or inputs != want_inputs:
                    add(STM + 'to_compartmental_system', CC_TOCS_FLOWS,
                        f'flows {_j(ob["flows"])} outs {ob["outs"]} inputs {inputs}; expected {_j(ref["flows"])} '
                        f'{ref["outs"]} {want_inputs}')
        except Exception as e:
            add(STM + 'to_compartmental_system', CC_TOCS_ERR, f'raised {_exc(e)}')

    # ---- single builder operations -----------------------------------------------------------------
    dosecomp0 = NAMES[case['dose']]
    has_input = case.get('input') is not None
    first_two_inputs = None
    if has_input:
        other = [nm for nm in sorted(ref['comps']) if nm != NAMES[case['input']]]
        first_two_inputs = f'set_input({other[0]}, R2)' if other else None
    for label, method, fn, want in _ops(ref):
        try:
            cb = px['Builder'](cs)
            fn(cb)
            cs2 = CompartmentalSystem(cb)
            ob = _observe(cs2)
        except Exception as e:
            add(CB + method, CC_OP_ERR, f'{label} raised {_exc(e)}')
            continue
        if not _obs_matches(ob, want):
            add(CB + method, CC_OP, f'{label}: ' + _obs_diff(ob, want))
            continue
        if method in ('add_dose', 'add_compartment') or label == f'remove_dose({dosecomp0})' or \
                (method == 'set_input' and has_input and want['comps'] != ref['comps']
                 and sum(c['input'] != '0' for c in want['comps'].values()) == 2
                 and label == first_two_inputs):
            # systems outside the enumerated family: two dosing compartments, no dose, two inputs, n+1
            _check_system(cs2, want, add, f'after {label}: ')
        if method == 'add_dose' and label.startswith(f"add_dose({NAMES[(case['dose'] + 1) % case['n']]},"):
            try:
                # the same two-dose system put together from scratch in the reverse insertion order
                _compare_orders(cs2, _cs_build(want, 1), add, f'{label} vs. the same system built in reverse order: ')
            except Exception as e:
                add(CB + method, CC_OP_ERR, f'{label} on the reverse-order system raised {_exc(e)}')
        if want != ref:
            try:
                if cs2 == cs or cs == cs2:
                    add(CS + '__eq__', CC_NEQ, f'system after {label} == original')
            except Exception as e:
                add(CS + '__eq__', CC_EQ_ERR, f'comparing with the system after {label} raised {_exc(e)}')
    if not _obs_matches(_observe(cs), ref):
        add(CB + '__init__', CC_IMMUT, 'the original system changed: ' + _obs_diff(_observe(cs), ref))
    return fails


def _cs_cases(n, inputs_all=True):
    pairs = [(i, j) for i in range(n) for j in range(n) if i != j]
    for mask in range(1 << len(pairs)):
        edges = [list(p) for b, p in enumerate(pairs) if mask >> b & 1]
        for omask in range(1 << n):
            outs = [i for i in range(n) if omask >> i & 1]
            for dose in range(n):
                ins = [None] + (list(range(n)) if inputs_all else [(dose + 1) % n])
                for k in ins:
                    yield {'n': n, 'edges': edges, 'outs': outs, 'dose': dose, 'input': k}


def _cs_size(case):
    return (case['n'], len(case['edges']) + len(case['outs']) + (case['input'] is not None),
            case.get('style') is not None, repr(sorted(case.items())))


def _with_tocs(case):
    n = case['n']
    return n <= 2 or case['dose'] == (len(case['edges']) + len(case['outs'])) % n


def _cs_worker(chunk):
    fails = {}
    also = {}
    nontrivial = 0
    for idx, case, with_tocs in chunk:
        if case['edges'] or case['outs']:
            nontrivial += 1
        res = _check_cs_case(case, with_tocs)
        for key, detail in res.items():
            old = fails.get(key)
            if old is None or _cs_size(case) < _cs_size(old[1]):
                fails[key] = (detail, case)
            lst = also.setdefault(key, [])
            if len(lst) < ALSO_CAP:
                lst.append((idx, case))
    return len(chunk), nontrivial, fails, also


def _nl_cases(tier):
    """cases with nonlinear rates (key 'style'): n<=2 every case in every style; n=3 every graph x outputs with a
    rotating dose compartment, input and style (thorough: every style, input on none / the next compartment)"""
    for n in (1, 2):
        for c in _cs_cases(n):
            for s in range(len(NL_STYLES)):
                yield dict(c, style=s, **({} if tier == 'quick' else {'full': True}))
    for c in _cs_cases(3, inputs_all=False):
        k = len(c['edges']) + len(c['outs'])
        if c['dose'] != k % 3:
            continue
        m = sum(1 << (3 * i + j) for i, j in c['edges']) + sum(1 << (9 + i) for i in c['outs'])
        if tier == 'quick':
            if (c['input'] is None) == (m % 2 == 0):
                yield dict(c, style=m % len(NL_STYLES))
        else:
            for s in range(len(NL_STYLES)):
                yield dict(c, style=s, full=True)


def _nl_mult_cases(tier):
    """cases of the second palette (amounts as multiplicative factors, key 'pal': 1): n<=2 every case with every
    rotation of the styles; n=3 every graph x outputs with a rotating dose compartment, the input choice the first
    palette does not take for that graph, and a rotating style (thorough: both input choices with the rotating style
    and, without input, every rotation)"""
    ns = len(NL_STYLES_MULT)
    for n in (1, 2):
        for c in _cs_cases(n):
            for s in range(ns):
                yield dict(c, style=s, pal=1, **({} if tier == 'quick' else {'full': True}))
    for c in _cs_cases(3, inputs_all=False):
        k = len(c['edges']) + len(c['outs'])
        if c['dose'] != k % 3:
            continue
        m = sum(1 << (3 * i + j) for i, j in c['edges']) + sum(1 << (9 + i) for i in c['outs'])
        if tier == 'quick':
            if (c['input'] is None) == (m % 2 == 1):
                yield dict(c, style=m % ns, pal=1)
        else:
            for s in range(ns):
                if s == m % ns or c['input'] is None:
                    yield dict(c, style=s, pal=1)


def bounded_compartmental(tier):
    cases = []
    for n in (1, 2):
        cases += [(c, True) for c in _cs_cases(n)]
    cases += [(c, _with_tocs(c)) for c in _cs_cases(3, inputs_all=False)]
    nl = [(c, False) for c in _nl_cases(tier)]
    bound = ('all directed graphs on <=3 compartments (CENTRAL, DEPOT, PERI) with distinct symbolic rates x every '
             'subset of output flows x Bolus dose (with lag time and bioavailability) on each compartment x zero-order '
             'input on none or one compartment (n<=2: any; n=3: the one after the dose compartment), each built in 2 '
             'insertion orders, plus every single builder operation; to_compartmental_system for every case with '
             'n<=2 and once per (graph, outputs, input) with a rotating dose compartment for n=3'
             ' | nonlinear rates (saturable in the source amount, CL/V, inhibited by another amount, linear + '
             'saturable, linear; every flow in every style for n<=2, one style per (graph, outputs) with rotating dose '
             'and input for n=3): built in 2 insertion orders, matrix/amounts/eqs consistency, to_dict round trip, and '
             'subs with every single amount function A_c(t) -> A_cX(t), all of them at once, every compound part of a '
             'rate (CL/V, VM/(KM + A(t)), IC + A(t)) alone and all at once, every whole rate, str keys, a mixture with '
             'the dose/lag/bioavailability/input symbols, and symbols replaced by products: flows equal '
             'old.get_flow(a, b).subs(m), compartments substituted, matrix/amounts/eqs consistent afterwards (after '
             'the multi-key and str-keyed substitutions and one rotating single-key substitution)')
    if tier != 'quick':
        cases += [(c, True) for c in _cs_cases(3) if not (c['input'] in (None, (c['dose'] + 1) % 3) and _with_tocs(c))]
        cases += [(c, False) for c in _cs_cases(4, inputs_all=False) if len(c['edges']) <= 4 and len(c['outs']) <= 1]
        bound += (' | thorough: n=3 with the input on any compartment and to_compartmental_system everywhere; '
                  '4 compartments (+X4) with <=4 flows, <=1 output flow, the input on none or on the compartment '
                  'after the dose compartment, without to_compartmental_system; nonlinear rates: n=3 in every '
                  'style, input on none or on the compartment after the dose compartment, '
                  'matrix/amounts/eqs consistency after every substitution')
    cases += nl
    # appended after everything else: the enumeration order (and the `also` lists) of the cases above is kept
    cases += [(c, False) for c in _nl_mult_cases(tier)]
    bound += (' | nonlinear rates with a compartment amount as a multiplicative factor (second palette: KON*A_other(t), '
              'CL/V + KON*A_other(t)/V, K*A_src(t), VM*A_src(t)/(KM**2 + A_src(t)**2), K*A_src(t)*A_other(t), CL/V; '
              'every flow in every style for n<=2; n=3: one style per (graph, outputs) with rotating dose and the input '
              'choice not taken above' + ('' if tier == 'quick' else ', thorough: both input choices, and every style '
              'without input') + '): the same clauses, substitutions with the compound parts KON*A_other(t), K*A_src(t), '
              'KM**2 + A_src(t)**2, A_src(t)*A_other(t), CL/V as keys')
    indexed = [(i, c, w) for i, (c, w) in enumerate(cases)]
    chunks = [indexed[i::NPROC * 8] for i in range(NPROC * 8)]
    chunks = [c for c in chunks if c]
    results = _run_pool(_cs_worker, chunks)
    total = nontrivial = 0
    fails = {}
    also = {}
    for c, nt, fl, al in results:
        total += c
        nontrivial += nt
        for key, (detail, case) in fl.items():
            old = fails.get(key)
            if old is None or _cs_size(case) < _cs_size(old[1]):
                fails[key] = (detail, case)
        for key, lst in al.items():
            also.setdefault(key, []).extend(lst)
    out_fails = []
    for (fid, clause), (detail, case) in sorted(fails.items()):
        out_fails.append({'fid': fid, 'clause': clause, 'detail': f'{detail}   [case: {case}]',
                          'case': dict(case, fid=fid, clause=clause),
                          'replay_fn': 'bounded_compartmental_replay',
                          # every failing case of the clause in enumeration order (tools/BOUNDED_GUIDE.md, `also`)
                          'also': _also_list(dict(case, fid=fid, clause=clause),
                                             [dict(c, fid=fid, clause=clause) for _, c in
                                              sorted(also.get((fid, clause), []), key=lambda p: p[0])])})
    samples = [repr(cases[i][0]) for i in (5, len(cases) // 2, len(cases) - 1)]
    return {'cases': total, 'nontrivial': nontrivial, 'bound': bound, 'samples': samples, 'fails': out_fails}


def bounded_compartmental_replay(rp):
    case = dict(rp['case'])
    fid, clause = case.pop('fid'), case.pop('clause')
    case['edges'] = [list(e) for e in case['edges']]
    res = _check_cs_case(case, True)
    if (fid, clause) in res:
        return (False, res[(fid, clause)])
    return (True, 'ok')
