"""Bounded contract checks for C11 (random-effect algebra keeps names, variances and a valid covariance).

Pure Python, runs under /venv/bin/python (cwd=/verif, PYTHONPATH=/verif).  No z3, no randomness.
Every check evaluates a contract taken from the property statement / documentation on the REAL
pharmpy function over an exhaustively enumerated finite domain and compares with an independent
reference written in this file.

    bounded_rv_algebra(tier)   RandomVariables join/unjoin/__getitem__/subs/+/selections,
                               JointNormalDistribution.__getitem__, covariance_matrix
    bounded_rv_numeric(tier)   nearest_positive_semidefinite, is_positive_semidefinite, cov2corr/corr2cov,
                               parameters_sdcorr, validate/nearest_valid_parameters, Model initial
                               estimates (create, replace of parameters, replace of only the random
                               variables / other components), ucp scale, modeling/math.py matrix conversions

Reference model of a collection of distributions (independent of pharmpy):
    ref = {'blocks': [(name, ...), ...]      ordered partition of the names into distributions
           'level':  {name: level}
           'mean':   {name: entry}
           'cov':    {(a, b): entry}          for all a, b of one block (both orders, a == b: variance)}
entries are canonical strings (symbol name, or repr of a float rounded to 10 digits).
"""
import itertools
import json
import math
import multiprocessing
import warnings

warnings.filterwarnings('ignore')

NPROC = 16

_RV = 'src/pharmpy/model/random_variables.py:RandomVariables.'
FID_UNJOIN = _RV + 'unjoin'
FID_JOIN = _RV + 'join'
FID_GETITEM = _RV + '__getitem__'
FID_SUBS = _RV + 'subs'
FID_ADD = _RV + '__add__'
FID_RADD = _RV + '__radd__'
FID_COVM = _RV + '_calc_covariance_matrix'
FID_SEL = {w: _RV + w for w in ('etas', 'epsilons', 'iiv', 'iov')}
FID_JGET = 'src/pharmpy/model/distributions/symbolic.py:JointNormalDistribution.__getitem__'

LEVELS = ('IIV', 'IOV', 'RUV')
VARIANTS = ('distinct', 'shared', 'numeric')
ZERO = '0.0'


# ------------------------------------------------------------------------------------------------
# generic helpers
# ------------------------------------------------------------------------------------------------

class _Collector:
    """keeps, per (fid, clause), the smallest failing input (smallest = lowest enumeration order)"""

    def __init__(self):
        self.cases = 0
        self.nontrivial = 0
        self.fails = {}
        self.samples = []
        # key -> {order: case} for EVERY failing case of the key (the `also` list of tools/BOUNDED_GUIDE.md);
        # only the ALSO_CAP lowest orders are kept
        self.also = {}

    ALSO_CAP = 300

    def _also_add(self, key, items):
        d = self.also.setdefault(key, {})
        for order, case in items:
            d.setdefault(order, case)
        if len(d) > 4 * self.ALSO_CAP:
            for order in sorted(d)[self.ALSO_CAP:]:
                del d[order]

    def _also_list(self, key):
        d = self.also.get(key, {})
        return [(order, d[order]) for order in sorted(d)[:self.ALSO_CAP]]

    def fail(self, order, fid, clause, detail, case, replay_fn):
        key = (fid, clause)
        self._also_add(key, [(order, {'clause': clause, 'fid': fid, 'input': case})])
        cur = self.fails.get(key)
        if cur is None or order < cur[0]:
            self.fails[key] = (order, {
                'fid': fid, 'clause': clause, 'detail': str(detail)[:700],
                'case': {'clause': clause, 'fid': fid, 'input': case},
                'replay_fn': replay_fn})

    def merge(self, other):
        self.cases += other['cases']
        self.nontrivial += other['nontrivial']
        for key, (order, f) in other['fails'].items():
            cur = self.fails.get(key)
            if cur is None or order < cur[0]:
                self.fails[key] = (order, f)
        for key, items in other.get('also', {}).items():
            self._also_add(key, items)
        for s in other['samples']:
            if len(self.samples) < 3 and s not in self.samples:
                self.samples.append(s)

    def export(self):
        return {'cases': self.cases, 'nontrivial': self.nontrivial, 'fails': self.fails,
                'samples': self.samples, 'also': {key: self._also_list(key) for key in self.also}}

    def result(self, bound):
        fails = [dict(f, also=[case for _, case in self._also_list(key)] or [f['case']])
                 for key, (o, f) in sorted(self.fails.items(), key=lambda kv: (kv[1][0], kv[0]))]
        return {'cases': self.cases, 'nontrivial': self.nontrivial, 'bound': bound,
                'samples': self.samples[:3], 'fails': fails}


def _pool_map(fn, tasks):
    if len(tasks) <= 1:
        return [fn(t) for t in tasks]
    ctx = multiprocessing.get_context('fork')
    with ctx.Pool(min(NPROC, len(tasks))) as pool:
        return pool.map(fn, tasks, chunksize=1)


_CCACHE = {}


def _c(x):
    """canonical string of an entry (pharmpy Expr, number or str)"""
    if isinstance(x, str):
        s = x
    else:
        try:
            return _CCACHE[x]
        except (KeyError, TypeError):
            pass
        s = str(x)
    try:
        f = float(s)
        r = repr(round(f, 10) + 0.0)
    except (TypeError, ValueError):
        r = s
    if not isinstance(x, str):
        try:
            if len(_CCACHE) < 100000:
                _CCACHE[x] = r
        except TypeError:
            pass
    return r


def _isnum(s):
    try:
        float(s)
        return True
    except ValueError:
        return False


def _subsets(names, minsize=1):
    names = list(names)
    for r in range(minsize, len(names) + 1):
        for comb in itertools.combinations(names, r):
            yield list(comb)


# ================================================================================================
# (1) random variable algebra
# ================================================================================================

def _compositions(n, maxpart=3):
    if n == 0:
        yield ()
        return
    for first in range(1, min(maxpart, n) + 1):
        for rest in _compositions(n - first, maxpart):
            yield (first,) + rest


def _collections(nmin, nmax, all_levels=True):
    for n in range(nmin, nmax + 1):
        for comp in _compositions(n):
            levs = itertools.product(LEVELS, repeat=len(comp)) if all_levels else [('IIV',) * len(comp)]
            for levels in levs:
                for variant in VARIANTS:
                    yield {'variant': variant, 'blocks': [[s, lv] for s, lv in zip(comp, levels)]}


def _entry(variant, level, size, gi, gj, a, b):
    """the covariance entry put at local position (a, b) of a block (global variable numbers gi, gj)"""
    lo, hi = (gi, gj) if gi <= gj else (gj, gi)
    la, lb = (a, b) if a <= b else (b, a)
    if variant == 'distinct':
        return 'OM_%d_%d' % (lo + 1, hi + 1)
    if variant == 'shared':
        if size == 1:
            return 'OMS_%s' % level
        return 'OMB%d_%s_%d_%d' % (size, level, la + 1, lb + 1)
    # numeric
    if lo == hi:
        return float(lo + 1)
    if size == 3 and (la, lb) == (0, 2):
        return 0.0
    return round(0.1 * (lo + 1) + 0.01 * (hi + 1), 10)


def _mean_entry(variant, gi):
    return round(0.5 * (gi + 1), 10) if variant == 'numeric' else 0


def _build(desc):
    """build the real RandomVariables and, independently, the reference for a collection description"""
    from pharmpy.basic import Expr
    from pharmpy.model import JointNormalDistribution, NormalDistribution, RandomVariables

    def ex(v):
        return Expr.symbol(v) if isinstance(v, str) else v

    variant = desc['variant']
    dists = []
    ref = {'blocks': [], 'level': {}, 'mean': {}, 'cov': {}}
    g = 0
    for size, level in desc['blocks']:
        names = ['X%d' % (g + k + 1) for k in range(size)]
        means = [_mean_entry(variant, g + k) for k in range(size)]
        mat = [[_entry(variant, level, size, g + a, g + b, a, b) for b in range(size)] for a in range(size)]
        if size == 1:
            dists.append(NormalDistribution.create(names[0], level, means[0], ex(mat[0][0])))
        else:
            dists.append(JointNormalDistribution.create(names, level, means, [[ex(v) for v in row] for row in mat]))
        ref['blocks'].append(tuple(names))
        for a, na in enumerate(names):
            ref['level'][na] = level
            ref['mean'][na] = _c(means[a])
            for b, nb in enumerate(names):
                ref['cov'][(na, nb)] = _c(mat[a][b])
        g += size
    return RandomVariables.create(dists), ref


class _Bad(Exception):
    pass


def _extract(rvs):
    """read a RandomVariables back into the reference representation (plus the distribution kinds)"""
    from pharmpy.model import JointNormalDistribution, NormalDistribution

    ref = {'blocks': [], 'level': {}, 'mean': {}, 'cov': {}, 'kinds': []}
    for d in [rvs[i] for i in range(len(rvs))]:
        names = tuple(d.names)
        ref['blocks'].append(names)
        if isinstance(d, NormalDistribution):
            ref['kinds'].append('N')
            if len(names) != 1:
                raise _Bad('NormalDistribution with names %r' % (names,))
            ref['mean'][names[0]] = _c(d.mean)
            ref['cov'][(names[0], names[0])] = _c(d.variance)
            ref['level'][names[0]] = d.level
        elif isinstance(d, JointNormalDistribution):
            ref['kinds'].append('J')
            v, m = d.variance, d.mean
            if v.rows != len(names) or v.cols != len(names) or m.rows != len(names):
                raise _Bad('JointNormalDistribution %r has a %dx%d variance and %d means'
                           % (names, v.rows, v.cols, m.rows))
            for a, na in enumerate(names):
                ref['level'][na] = d.level
                ref['mean'][na] = _c(m[a, 0])
                for b, nb in enumerate(names):
                    ref['cov'][(na, nb)] = _c(v[a, b])
        else:
            raise _Bad('distribution of type %s' % type(d).__name__)
    return ref


def _plain(ref):
    return {k: ref[k] for k in ('blocks', 'level', 'mean', 'cov')}


def _names_of(ref):
    return [n for b in ref['blocks'] for n in b]


def _assemble(ref):
    """the block-diagonal composition of the distributions of ref, in order (independent reference)"""
    names = _names_of(ref)
    blk = {}
    for i, b in enumerate(ref['blocks']):
        for n in b:
            blk[n] = i
    return [[ref['cov'][(a, b)] if blk[a] == blk[b] else ZERO for b in names] for a in names]


def _matrix(m):
    return [[_c(m[i, j]) for j in range(m.cols)] for i in range(m.rows)]


def _symbols_of(ref):
    s = set()
    for v in list(ref['cov'].values()) + list(ref['mean'].values()):
        if not _isnum(v):
            s.add(v)
    return s


def _block_of(ref):
    d = {}
    for i, b in enumerate(ref['blocks']):
        for n in b:
            d[n] = i
    return d


def _check_structure(fails, fid, opname, R, refin, exp_blocks, ordered, expcov, expmean=None, explevel=None,
                     names_clause=None):
    """clauses common to every operation that returns a RandomVariables.

    exp_blocks: expected distributions (tuples of names); ordered: compare as list, else as set
    expcov(a, b): expected entry for two variables of one result distribution
    returns the extracted reference of R (or None)"""
    from pharmpy.basic import Expr
    from pharmpy.model import RandomVariables

    def add(clause, detail):
        fails.append((fid, clause, detail))

    if not isinstance(R, RandomVariables):
        add(opname + ': result is a RandomVariables', 'got %s' % type(R).__name__)
        return None
    try:
        got = _extract(R)
    except _Bad as e:
        add(opname + ': result consists of NormalDistribution singletons and JointNormalDistribution blocks '
            'with consistent dimensions', str(e))
        return None
    names = _names_of(got)
    exp_names = [n for b in exp_blocks for n in b]
    if len(set(names)) != len(names) or set(names) != set(exp_names):
        add(names_clause or (opname + ': the set of names is preserved, no name duplicated or lost'),
            'names %r, expected the set %r' % (names, sorted(exp_names)))
        return None
    for b, k in zip(got['blocks'], got['kinds']):
        if (len(b) == 1) != (k == 'N'):
            add(opname + ': result consists of NormalDistribution singletons and JointNormalDistribution blocks '
                'with consistent dimensions', 'distribution %r has kind %s' % (b, k))
    same = (got['blocks'] == list(exp_blocks)) if ordered else (
        set(got['blocks']) == set(exp_blocks) and len(got['blocks']) == len(exp_blocks))
    if not same:
        add(opname + ': the partition into distributions is the expected one (order inside each block kept)',
            'distributions %r, expected %r' % (got['blocks'], list(exp_blocks)))
    # levels, means
    for n in names:
        el = explevel(n) if explevel else refin['level'][n]
        if got['level'][n] != el:
            add(opname + ': variability level of every variable is preserved',
                '%s has level %s, expected %s' % (n, got['level'][n], el))
            break
    for n in names:
        em = expmean(n) if expmean else refin['mean'][n]
        if got['mean'][n] != em:
            add(opname + ': mean of every variable is preserved', '%s has mean %s, expected %s' % (n, got['mean'][n], em))
            break
    # variances and covariances of variables in one result block
    bad = None
    for b in got['blocks']:
        for x in b:
            for y in b:
                try:
                    e = expcov(x, y)
                except KeyError:
                    e = '<undefined: %s and %s were not in one input distribution>' % (x, y)
                if got['cov'][(x, y)] != e and bad is None:
                    bad = 'cov(%s,%s) = %s, expected %s' % (x, y, got['cov'][(x, y)], e)
    if bad:
        add(opname + ': every variance and every covariance between variables that stay in one block is preserved',
            bad)
    # covariance_matrix is the block-diagonal composition in order
    try:
        cm = _matrix(R.covariance_matrix)
    except Exception as e:   # noqa
        fails.append((FID_COVM, 'covariance_matrix: no internal error', '%s: %s' % (type(e).__name__, e)))
        cm = None
    if cm is not None and cm != _assemble(got):
        fails.append((FID_COVM, 'covariance_matrix is the block-diagonal composition of the distributions in order',
                      'after %s: covariance_matrix %r, composition of %r is %r' % (opname, cm, got['blocks'], _assemble(got))))
    # names / nrvs / len / get_covariance / parameters
    if list(R.names) != names or R.nrvs != len(names) or len(R) != len(got['blocks']):
        fails.append((_RV + 'names', 'names, nrvs and len agree with the distributions',
                      'names %r nrvs %r len %r for %r' % (R.names, R.nrvs, len(R), got['blocks'])))
    blk = _block_of(got)
    for x in names:
        for y in names:
            e = got['cov'][(x, y)] if blk[x] == blk[y] else ZERO
            try:
                g = _c(R.get_covariance(x, y))
            except Exception as ex:  # noqa
                g = '%s: %s' % (type(ex).__name__, ex)
            if g != e:
                fails.append((_RV + 'get_covariance', 'get_covariance agrees with the block-diagonal composition',
                              'after %s: get_covariance(%s,%s) = %s, expected %s' % (opname, x, y, g, e)))
                break
        else:
            continue
        break
    syms = _symbols_of(got)
    try:
        pn = tuple(R.parameter_names)
        fs = set(str(s) for s in R.free_symbols)
    except Exception as ex:  # noqa
        fails.append((_RV + 'parameter_names', 'parameter_names / free_symbols: no internal error',
                      '%s: %s' % (type(ex).__name__, ex)))
    else:
        if pn != tuple(sorted(syms)):
            fails.append((_RV + 'parameter_names', 'parameter_names are exactly the symbols of the means and covariances',
                          'after %s: %r, expected %r' % (opname, pn, tuple(sorted(syms)))))
        if fs != syms | set(names):
            fails.append((_RV + 'free_symbols', 'free_symbols are the parameter symbols plus the variable names',
                          'after %s: %r, expected %r' % (opname, sorted(fs), sorted(syms | set(names)))))
    diag = [got['cov'][(n, n)] for n in names]
    if all(not _isnum(v) for v in diag):
        expvp = []
        for v in diag:
            if v not in expvp:
                expvp.append(v)
        try:
            vp = list(R.variance_parameters)
        except Exception as ex:  # noqa
            vp = '%s: %s' % (type(ex).__name__, ex)
        if vp != expvp:
            fails.append((_RV + 'variance_parameters', 'variance_parameters are the distinct diagonal symbols in order',
                          'after %s: %r, expected %r' % (opname, vp, expvp)))
    for n in names:
        if n not in R or Expr.symbol(n) not in R:
            fails.append((_RV + '__contains__', 'every name of the collection is contained in it', n))
            break
    return got


def _keep_cov(refin):
    return lambda a, b: refin['cov'][(a, b)]


# ---- the operations ---------------------------------------------------------------------------

def _as_form(S, form):
    from pharmpy.basic import Expr
    if form == 'list':
        return list(S)
    if form == 'rev':
        return list(reversed(S))
    if form == 'tuple':
        return tuple(S)
    if form == 'set':
        return set(S)
    if form == 'symlist':
        return [Expr.symbol(n) for n in S]
    if form == 'str':
        assert len(S) == 1
        return S[0]
    if form == 'sym':
        assert len(S) == 1
        return Expr.symbol(S[0])
    raise AssertionError(form)


def _op_unjoin(rvs, ref, op, fails):
    S = op['S']
    R = rvs.unjoin(_as_form(S, op['form']))
    exp_blocks = []
    for b in ref['blocks']:
        kept = tuple(n for n in b if n not in S)
        for n in b:
            if n in S:
                exp_blocks.append((n,))
        if kept:
            exp_blocks.append(kept)
    got = _check_structure(fails, FID_UNJOIN, 'unjoin', R, ref, exp_blocks, False, _keep_cov(ref))
    if got is None:
        return R
    names_in = _names_of(ref)
    names = _names_of(got)
    # order clauses
    if [n for n in names if n in S] != [n for n in names_in if n in S] or \
            [n for n in names if n not in S] != [n for n in names_in if n not in S]:
        fails.append((FID_UNJOIN, 'unjoin: unjoined variables keep their relative order and so do the others',
                      'unjoin(%r) of %r gives names %r' % (S, ref['blocks'], names)))
    blk = _block_of(ref)
    if [blk[n] for n in names] != sorted(blk[n] for n in names):
        fails.append((FID_UNJOIN, 'unjoin: variables of different input distributions keep the order of those distributions',
                      'unjoin(%r) of %r gives names %r' % (S, ref['blocks'], names)))
    for b in ref['blocks']:
        kept_pos = [i for i, n in enumerate(b) if n not in S]
        needed = any(n in S and kept_pos and kept_pos[0] < i < kept_pos[-1] for i, n in enumerate(b))
        if not needed and [n for n in names if n in b] != list(b):
            fails.append((FID_UNJOIN, 'unjoin: the order of names changes only where needed to keep the remaining joint block contiguous',
                          'unjoin(%r) of %r gives names %r although %r needs no reordering' % (S, ref['blocks'], names, b)))
            break
    return R


JOIN_TEMPLATE = 'C_{}_{}'


def _op_join(rvs, ref, op, fails):
    from pharmpy.basic import Expr
    S = op['S']
    names_in = _names_of(ref)
    Sord = [n for n in names_in if n in S]
    mode = op['mode']
    pnames = ['P' + n for n in Sord]
    arg = _as_form(Sord, op.get('form', 'list'))
    if mode == 'fill0':
        R, c2p = rvs.join(arg)
    elif mode == 'fillF':
        R, c2p = rvs.join(arg, fill=Expr.symbol('F'))
    elif mode == 'fillnum':
        R, c2p = rvs.join(arg, fill=0.25)
    elif mode == 'template':
        R, c2p = rvs.join(arg, name_template=JOIN_TEMPLATE, param_names=list(pnames))
    else:
        raise AssertionError(mode)
    joined = tuple(Sord)
    exp_blocks = [joined]
    for b in ref['blocks']:
        kept = tuple(n for n in b if n not in S)
        if kept:
            exp_blocks.append(kept)
    blk = _block_of(ref)
    exp_c2p = {}

    def fillvalue(a, b):
        if mode == 'fill0':
            return ZERO
        if mode == 'fillF':
            return 'F'
        if mode == 'fillnum':
            return _c(0.25)
        i, j = sorted((Sord.index(a), Sord.index(b)))
        return JOIN_TEMPLATE.format(pnames[i], pnames[j])

    def expcov(a, b):
        if a == b or not (a in S and b in S):
            return ref['cov'][(a, b)]
        if blk[a] == blk[b] and ref['cov'][(a, b)] != ZERO:
            return ref['cov'][(a, b)]
        return fillvalue(a, b)

    if mode == 'template':
        for i, a in enumerate(Sord):
            for b in Sord[i + 1:]:
                if not (blk[a] == blk[b] and ref['cov'][(a, b)] != ZERO):
                    exp_c2p[fillvalue(a, b)] = tuple(sorted((ref['cov'][(a, a)], ref['cov'][(b, b)])))
    got = _check_structure(fails, FID_JOIN, 'join', R, ref, exp_blocks, False, expcov)
    try:
        got_c2p = {str(k): tuple(sorted(_c(x) for x in v)) for k, v in dict(c2p).items()}
    except Exception as e:  # noqa
        got_c2p = '%s: %s' % (type(e).__name__, e)
    if got_c2p != exp_c2p:
        fails.append((FID_JOIN, 'join: the returned dictionary maps exactly the new covariance symbols to the variance parameters of their two variables',
                      'join(%r, %s) of %r returns %r, expected %r' % (Sord, mode, ref['blocks'], got_c2p, exp_c2p)))
    if got is None:
        return R
    names = _names_of(got)
    if [n for n in names if n not in S] != [n for n in names_in if n not in S]:
        fails.append((FID_JOIN, 'join: variables outside the joined block keep their relative order',
                      'join(%r) of %r gives names %r' % (Sord, ref['blocks'], names)))
    if joined in got['blocks']:
        f = Sord[0]
        P = names_in[:names_in.index(f)]
        B = ref['blocks'][blk[f]]
        before = [n for n in B[:B.index(f)] if n not in S]
        after = [n for n in B[B.index(f) + 1:] if n not in S]
        allowed = [P]
        if before and after:
            allowed = [[n for n in P if n not in before], P + after]
        pre = names[:names.index(f)]
        if pre not in allowed:
            fails.append((FID_JOIN, 'join: the joined block sits at the position of the first joined variable',
                          'join(%r) of %r gives names %r: %r precede the joined block, expected %s'
                          % (Sord, ref['blocks'], names, pre, ' or '.join(repr(a) for a in allowed))))
    return R


def _op_getitem(rvs, ref, op, fails):
    from pharmpy.basic import Expr
    from pharmpy.model import RandomVariables
    kind = op['op']
    if kind in ('getitem_int', 'getitem_str'):
        if kind == 'getitem_int':
            d = rvs[op['i']]
            expb = ref['blocks'][op['i']]
            what = 'rvs[%d]' % op['i']
        else:
            d = rvs[op['name'] if op['form'] == 'str' else Expr.symbol(op['name'])]
            expb = ref['blocks'][_block_of(ref)[op['name']]]
            what = 'rvs[%r]' % op['name']
        try:
            got = _extract(RandomVariables.create([d]))
        except Exception as e:  # noqa
            fails.append((FID_GETITEM, 'getitem: an int or a name selects the distribution at that place / containing that name',
                          '%s of %r: %s' % (what, ref['blocks'], e)))
            return None
        ok = got['blocks'] == [expb] and all(got['cov'][(a, b)] == ref['cov'][(a, b)] for a in expb for b in expb) \
            and all(got['mean'][a] == ref['mean'][a] and got['level'][a] == ref['level'][a] for a in expb)
        if not ok:
            fails.append((FID_GETITEM, 'getitem: an int or a name selects the distribution at that place / containing that name',
                          '%s of %r gives %r' % (what, ref['blocks'], got)))
        return None
    if kind == 'getitem_slice':
        start, stop, step = op['slice']
        R = rvs[slice(start, stop, step)]
        exp_blocks = ref['blocks'][slice(start, stop, step)]
        _check_structure(fails, FID_GETITEM, 'getitem(slice)', R, ref, exp_blocks, True, _keep_cov(ref),
                         names_clause='getitem: the result has exactly the requested names')
        return R
    # list of names
    S = op['S']
    R = rvs[_as_form([n for n in _names_of(ref) if n in S], op['form'])]
    exp_blocks = []
    for b in ref['blocks']:
        kept = tuple(n for n in b if n in S)
        if kept:
            exp_blocks.append(kept)
    got = _check_structure(fails, FID_GETITEM, 'getitem(names)', R, ref, exp_blocks, True, _keep_cov(ref),
                           names_clause='getitem: the result has exactly the requested names')
    if got is not None and _names_of(got) != [n for n in _names_of(ref) if n in S]:
        fails.append((FID_GETITEM, 'getitem: selected variables keep their relative order',
                      'rvs[%r] of %r gives names %r' % (S, ref['blocks'], _names_of(got))))
    return R


def _op_subs(rvs, ref, op, fails):
    from pharmpy.basic import Expr
    kind = op['kind']
    mp = op['map']            # list of [old, new] with new a str (symbol) or a number
    if kind.startswith('rv') and kind.endswith('str'):
        d = {o: n for o, n in mp}
    else:
        d = {Expr.symbol(o): (Expr.symbol(n) if isinstance(n, str) else n) for o, n in mp}
    R = rvs.subs(d)
    m = {o: (n if isinstance(n, str) else _c(n)) for o, n in mp}

    def s(v):
        return m.get(v, v)

    exp_blocks = [tuple(s(n) for n in b) for b in ref['blocks']]
    inv = {s(n): n for n in _names_of(ref)}
    _check_structure(fails, FID_SUBS, 'subs', R, ref, exp_blocks, True,
                     lambda a, b: s(ref['cov'][(inv[a], inv[b])]),
                     expmean=lambda n: s(ref['mean'][inv[n]]), explevel=lambda n: ref['level'][inv[n]],
                     names_clause='subs: the names are preserved (renamed exactly as requested)')
    return R


def _op_add(rvs, ref, op, fails):
    from pharmpy.model import RandomVariables
    dists = [rvs[i] for i in range(len(rvs))]
    p = op['split']
    form = op['form']
    A = RandomVariables.create(dists[:p])
    B = RandomVariables.create(dists[p:])
    fid = FID_ADD
    if form == 'rvs':
        R = A + B
    elif form == 'dist':
        R = A + dists[p]
    elif form == 'list':
        R = A + list(dists[p:])
    elif form == 'rdist':
        R = dists[0] + B
        fid = FID_RADD
    elif form == 'rlist':
        R = list(dists[:p]) + B
        fid = FID_RADD
    elif form == 'dup':
        try:
            R = rvs + B
        except ValueError:
            return None
        fails.append((FID_ADD, 'add: a name that occurs twice is rejected with ValueError',
                      '%r + %r gives names %r' % (ref['blocks'], ref['blocks'][p:], getattr(R, 'names', R))))
        return None
    else:
        raise AssertionError(form)
    _check_structure(fails, fid, 'add', R, ref, list(ref['blocks']), True, _keep_cov(ref))
    return R


def _op_select(rvs, ref, op, fails):
    which = op['which']
    R = getattr(rvs, which)
    want = {'etas': ('IIV', 'IOV'), 'epsilons': ('RUV',), 'iiv': ('IIV',), 'iov': ('IOV',)}[which]
    exp_blocks = [b for b in ref['blocks'] if ref['level'][b[0]] in want]
    _check_structure(fails, FID_SEL[which], which, R, ref, exp_blocks, True, _keep_cov(ref),
                     names_clause=which + ': exactly the variables of the requested levels are selected')
    return R


def _op_jget(rvs, ref, op, fails):
    """JointNormalDistribution.__getitem__ on distribution number op['block']"""
    from pharmpy.model import JointNormalDistribution, NormalDistribution, RandomVariables
    b = ref['blocks'][op['block']]
    d = rvs[op['block']]
    assert isinstance(d, JointNormalDistribution)
    idx = op['index']
    kind = op['kind']
    if kind == 'int':
        arg, exp = idx, ([b[idx]] if -len(b) <= idx < len(b) else IndexError)
    elif kind == 'str':
        arg, exp = idx, ([idx] if idx in b else KeyError)
    elif kind == 'slice':
        arg = slice(*idx)
        exp = list(b[arg])
    else:
        arg = _as_form([n for n in b if n in idx], kind)
        exp = [n for n in b if n in idx]
    what = '%r[%r]' % (b, arg)
    try:
        r = d[arg]
    except Exception as e:  # noqa
        if isinstance(exp, type) and isinstance(e, exp):
            return None
        fails.append((FID_JGET, 'JointNormalDistribution getitem: no internal error for int, name, slice and name collection indices',
                      '%s raises %s: %s' % (what, type(e).__name__, e)))
        return None
    if isinstance(exp, type):
        fails.append((FID_JGET, 'JointNormalDistribution getitem: an index out of range or an unknown name is rejected',
                      '%s gives %r' % (what, getattr(r, 'names', r))))
        return None
    try:
        got = _extract(RandomVariables.create([r]))
    except Exception as e:  # noqa
        fails.append((FID_JGET, 'JointNormalDistribution getitem: result is a consistent distribution', '%s: %s' % (what, e)))
        return None
    if got['blocks'] != [tuple(exp)]:
        fails.append((FID_JGET, 'JointNormalDistribution getitem: the result has exactly the requested names in block order',
                      '%s gives names %r, expected %r' % (what, got['blocks'], exp)))
        return None
    if (len(exp) == 1) != isinstance(r, NormalDistribution):
        fails.append((FID_JGET, 'JointNormalDistribution getitem: one name gives a NormalDistribution, several a JointNormalDistribution',
                      '%s gives a %s' % (what, type(r).__name__)))
    for x in exp:
        for y in exp:
            if got['cov'][(x, y)] != ref['cov'][(x, y)]:
                fails.append((FID_JGET, 'JointNormalDistribution getitem: variances and covariances of the selected variables are preserved',
                              '%s: cov(%s,%s) = %s, expected %s' % (what, x, y, got['cov'][(x, y)], ref['cov'][(x, y)])))
                return None
        if got['mean'][x] != ref['mean'][x] or got['level'][x] != ref['level'][x]:
            fails.append((FID_JGET, 'JointNormalDistribution getitem: mean and level of the selected variables are preserved',
                          '%s: %s has mean %s level %s' % (what, x, got['mean'][x], got['level'][x])))
            return None
    return None


_OPS = {'unjoin': (_op_unjoin, FID_UNJOIN), 'join': (_op_join, FID_JOIN),
        'getitem_int': (_op_getitem, FID_GETITEM), 'getitem_str': (_op_getitem, FID_GETITEM),
        'getitem_slice': (_op_getitem, FID_GETITEM), 'getitem_list': (_op_getitem, FID_GETITEM),
        'subs': (_op_subs, FID_SUBS), 'add': (_op_add, FID_ADD), 'select': (_op_select, None),
        'jget': (_op_jget, FID_JGET)}


def _run_op(rvs, ref, op):
    """run one operation on the real object and evaluate its contract; returns (fails, result)"""
    fn, fid = _OPS[op['op']]
    if fid is None:
        fid = FID_SEL[op['which']]
    if op['op'] == 'add' and op.get('form') in ('rdist', 'rlist'):
        fid = FID_RADD
    fails = []
    R = None
    try:
        R = fn(rvs, ref, op, fails)
    except Exception as e:  # noqa
        import traceback
        tb = traceback.extract_tb(e.__traceback__)[-1]
        fails.append((fid, op['op'].split('_')[0] + ': no internal error',
                      '%s: %s (%s:%s) for %s on %r' % (type(e).__name__, e, tb.filename.split('/')[-1], tb.lineno,
                                                        json.dumps(op), ref['blocks'])))
    # the input must not have been modified
    try:
        now = _plain(_extract(rvs))
    except Exception as e:  # noqa
        now = str(e)
    if now != _plain(ref):
        fails.append((fid, op['op'].split('_')[0] + ': the input RandomVariables is not modified',
                      'after %s the input reads %r' % (json.dumps(op), now)))
    return fails, R


def _ops_for(ref, what='all'):
    """enumerate the operation descriptors for a collection; what: 'all' | 'first' | 'second'"""
    names = _names_of(ref)
    k = len(ref['blocks'])
    # unjoin
    for S in _subsets(names):
        yield {'op': 'unjoin', 'S': S, 'form': 'list'}
        if what == 'all':
            yield {'op': 'unjoin', 'S': S, 'form': 'symlist'}
            if len(S) == 1:
                yield {'op': 'unjoin', 'S': S, 'form': 'str'}
                yield {'op': 'unjoin', 'S': S, 'form': 'sym'}
    # join (precondition: at least two variables, all of one level)
    for S in _subsets(names, 2):
        if len(set(ref['level'][n] for n in S)) != 1:
            continue
        modes = ('fill0', 'template') if what != 'all' else ('fill0', 'fillF', 'fillnum', 'template')
        for mode in modes:
            yield {'op': 'join', 'S': S, 'mode': mode}
        if what == 'all':
            yield {'op': 'join', 'S': S, 'mode': 'fill0', 'form': 'rev'}
            yield {'op': 'join', 'S': S, 'mode': 'template', 'form': 'tuple'}
    # getitem by list of names
    for S in _subsets(names):
        for form in (('list',) if what != 'all' else ('list', 'rev', 'set', 'tuple', 'symlist')):
            yield {'op': 'getitem_list', 'S': S, 'form': form}
    if what == 'first':
        return
    if what == 'second':
        syms = sorted(_symbols_of(ref))
        if syms:
            yield {'op': 'subs', 'kind': 'param_all', 'map': [[s, 'N_' + s] for s in syms]}
        for p in range(0, k + 1):
            yield {'op': 'add', 'split': p, 'form': 'rvs'}
        for which in ('etas', 'epsilons', 'iiv', 'iov'):
            yield {'op': 'select', 'which': which}
        return
    for i in range(-k, k):
        yield {'op': 'getitem_int', 'i': i}
    for n in names:
        yield {'op': 'getitem_str', 'name': n, 'form': 'str'}
        yield {'op': 'getitem_str', 'name': n, 'form': 'sym'}
    ends = [None] + list(range(0, k + 1))
    for start in ends:
        for stop in ends:
            yield {'op': 'getitem_slice', 'slice': [start, stop, None]}
    if k:
        for sl in ([None, None, 2], [1, None, 2], [None, None, -1], [-1, None, None], [None, -1, None], [-2, -1, None]):
            yield {'op': 'getitem_slice', 'slice': sl}
    # subs
    syms = sorted(_symbols_of(ref))
    for s in syms:
        yield {'op': 'subs', 'kind': 'param_one', 'map': [[s, 'NEW']]}
    if syms:
        yield {'op': 'subs', 'kind': 'param_all', 'map': [[s, 'N_' + s] for s in syms]}
        yield {'op': 'subs', 'kind': 'param_num', 'map': [[syms[0], 2]]}
        yield {'op': 'subs', 'kind': 'param_num', 'map': [[syms[-1], 0.5]]}
    for n in names:
        yield {'op': 'subs', 'kind': 'rv_str', 'map': [[n, 'Z']]}
        yield {'op': 'subs', 'kind': 'rv_sym', 'map': [[n, 'Z']]}
    if names:
        yield {'op': 'subs', 'kind': 'rv_sym', 'map': [[n, 'Z' + n] for n in names]}
    # + (every split of the collection into a left and a right collection)
    for p in range(0, k + 1):
        yield {'op': 'add', 'split': p, 'form': 'rvs'}
        yield {'op': 'add', 'split': p, 'form': 'list'}
        yield {'op': 'add', 'split': p, 'form': 'rlist'}
        if p == k - 1:
            yield {'op': 'add', 'split': p, 'form': 'dist'}
        if p == 1:
            yield {'op': 'add', 'split': p, 'form': 'rdist'}
        if p < k:
            yield {'op': 'add', 'split': p, 'form': 'dup'}
    for which in ('etas', 'epsilons', 'iiv', 'iov'):
        yield {'op': 'select', 'which': which}
    # JointNormalDistribution.__getitem__
    if what == 'all':
        for bi, b in enumerate(ref['blocks']):
            if len(b) < 2:
                continue
            s = len(b)
            for i in range(-s - 1, s + 1):
                yield {'op': 'jget', 'block': bi, 'kind': 'int', 'index': i}
            for n in list(b) + ['NOPE']:
                yield {'op': 'jget', 'block': bi, 'kind': 'str', 'index': n}
            for a in range(0, s):
                for e in range(a + 1, s + 1):
                    yield {'op': 'jget', 'block': bi, 'kind': 'slice', 'index': [a, e, None]}
            yield {'op': 'jget', 'block': bi, 'kind': 'slice', 'index': [0, s, 2]}
            yield {'op': 'jget', 'block': bi, 'kind': 'slice', 'index': [None, s - 1, None]}
            yield {'op': 'jget', 'block': bi, 'kind': 'slice', 'index': [1, None, None]}
            for S in _subsets(b):
                for form in ('list', 'rev', 'set', 'tuple'):
                    yield {'op': 'jget', 'block': bi, 'kind': form, 'index': S}


def _alg_cases(desc, part):
    """yield (pre, op, rvs, ref) for one unit: part None = every single operation on the collection,
    part (j, J) = the two-operation sequences whose first operation has index j modulo J"""
    rvs, ref = _build(desc)
    if part is None:
        for op in _ops_for(ref, 'all'):
            yield [], op, rvs, ref
        return
    j, J = part
    for i1, op1 in enumerate(_ops_for(ref, 'first')):
        if i1 % J != j:
            continue
        try:
            _, R1 = _run_op(rvs, ref, op1)
            ref1 = _plain(_extract(R1))
        except Exception:  # noqa  (reported by the single-operation case of op1)
            continue
        for op2 in _ops_for(ref1, 'second'):
            yield [op1], op2, R1, ref1


def _alg_unit(arg):
    ui, desc, part = arg
    col = _Collector()
    for ci, (pre, op, rvs, ref) in enumerate(_alg_cases(desc, part)):
        col.cases += 1
        fails, R = _run_op(rvs, ref, op)
        if not (op['op'] == 'add' and op['form'] == 'dup'):
            col.nontrivial += 1
        if len(col.samples) < 3 and ci in (5, 40):
            col.samples.append('%s %r: %s' % (desc['variant'], ref['blocks'], json.dumps(op)))
        for fid, clause, detail in fails:
            col.fail((len(pre), len(_names_of(ref)), ui, ci), fid, clause, detail,
                     {'coll': desc, 'pre': pre, 'op': op}, 'bounded_rv_algebra_replay')
    return col.export()


def _alg_worker(task):
    col = _Collector()
    for unit in task:
        col.merge(_alg_unit(unit))
    return col.export()


def _alg_bounds(tier):
    return (5, 4, 5) if tier == 'thorough' else (4, 3, 4)


def _alg_units(tier):
    """list of (index, collection description, part)"""
    n1, n2full, n2iiv = _alg_bounds(tier)
    units = []
    for desc in _collections(0, n1):
        n = sum(s for s, _ in desc['blocks'])
        units.append((len(units), desc, None))
        d2 = n <= n2full or (n <= n2iiv and all(lv == 'IIV' for _, lv in desc['blocks']))
        if d2:
            J = 1 if n <= 2 else (4 if n == 3 else 16)
            for j in range(J):
                units.append((len(units), desc, (j, J)))
    return units


def bounded_rv_algebra(tier):
    import pharmpy.model  # noqa: F401  (import before forking)
    units = _alg_units(tier)
    n1, n2full, n2iiv = _alg_bounds(tier)
    # many small interleaved tasks so that the expensive units are spread over the workers
    nt = NPROC * 8
    tasks = [units[c::nt] for c in range(nt) if units[c::nt]]
    col = _Collector()
    for part in _pool_map(_alg_worker, tasks):
        col.merge(part)
    bound = ('all collections of <= %d variables split in every way into NormalDistribution singletons and '
             'JointNormalDistribution blocks of size 2-3, every level assignment IIV/IOV/RUV per distribution, 3 entry variants '
             '(distinct symbols, parameters shared by equal-sized distributions of one level, numeric with a zero covariance); '
             'every operation: unjoin(every non-empty name subset), join(every same-level subset of >= 2 names; fill 0 / symbol / 0.25 / '
             'name_template), getitem(int, name, symbol, slice, every name subset as list/reversed/set/tuple/symbols), subs(each parameter, '
             'all parameters, parameter->number, variable renames), + (every split into two collections, list/dist/radd forms, duplicate), '
             'etas/epsilons/iiv/iov, JointNormalDistribution getitem(int/name/slice/name subsets); two-operation sequences '
             '(unjoin|join|getitem by names, then unjoin|join|getitem by names|subs|+|selections) for all collections of <= %d variables and the all-IIV '
             'collections of <= %d variables' % (n1, n2full, n2iiv))
    return col.result(bound)


def bounded_rv_algebra_replay(rp):
    case = rp['case']
    inp = case['input']
    rvs, ref = _build(inp['coll'])
    for op1 in inp.get('pre', []):
        _, rvs = _run_op(rvs, ref, op1)
        ref = _plain(_extract(rvs))
    fails, _ = _run_op(rvs, ref, inp['op'])
    for fid, clause, detail in fails:
        if clause == case['clause'] and fid == case['fid']:
            return (False, detail)
    return (True, 'ok')


# ================================================================================================
# (2) numeric part: positive semidefiniteness, sd/corr conversions, initial estimates, ucp scale
# ================================================================================================

_IM = 'src/pharmpy/internals/math.py:'
FID_NPSD = _IM + 'nearest_positive_semidefinite'
FID_IPSD = _IM + 'is_positive_semidefinite'
FID_C2C = _IM + 'cov2corr'
FID_CORR2COV = _IM + 'corr2cov'
FID_SDCORR = _RV + 'parameters_sdcorr'
FID_VALID = _RV + 'validate_parameters'
FID_NEAREST = _RV + 'nearest_valid_parameters'
FID_CANON = 'src/pharmpy/model/model.py:Model._canonicalize_parameter_estimates'
FID_UCP = 'src/pharmpy/modeling/estimation.py:calculate_parameters_from_ucp'
FID_UCPS = 'src/pharmpy/modeling/estimation.py:calculate_ucp_scale'
_MM = 'src/pharmpy/modeling/math.py:'

GRID = [-2, -1, -0.5, 0, 0.5, 1, 2]
PSD_TOL = 1e-10


def _frac_det(F, idx):
    """exact determinant of the principal submatrix idx of the Fraction matrix F (Laplace expansion)"""
    if len(idx) == 1:
        return F[idx[0]][idx[0]]

    def det(rows, cols):
        if len(rows) == 1:
            return F[rows[0]][cols[0]]
        tot = 0
        for k, c in enumerate(cols):
            sub = det(rows[1:], cols[:k] + cols[k + 1:])
            tot += (-1) ** k * F[rows[0]][c] * sub
        return tot
    return det(tuple(idx), tuple(idx))


def _exact_class(A):
    """exact classification of a symmetric matrix with dyadic entries: 'pd', 'singular' (PSD, not PD), 'indef'
    (reference: a symmetric matrix is PSD iff every principal minor is >= 0, PD iff every leading one is > 0)"""
    from fractions import Fraction
    n = len(A)
    F = [[Fraction(float(x)) for x in row] for row in A]
    if all(_frac_det(F, tuple(range(r))) > 0 for r in range(1, n + 1)):
        return 'pd'
    for r in range(1, n + 1):
        for idx in itertools.combinations(range(n), r):
            if _frac_det(F, idx) < 0:
                return 'indef'
    return 'singular'


def _sym_from(vals, n):
    """symmetric n x n matrix from the lower triangle listed row-wise"""
    A = [[0.0] * n for _ in range(n)]
    it = iter(vals)
    for i in range(n):
        for j in range(i + 1):
            v = float(next(it))
            A[i][j] = v
            A[j][i] = v
    return A


def _projection(A):
    """nearest PSD matrix in the Frobenius norm of a symmetric matrix: V max(L, 0) V^T (Higham 1988)"""
    import numpy as np
    w, V = np.linalg.eigh(A)
    return (V * np.maximum(w, 0)) @ V.T


def _mineig(A):
    import numpy as np
    A = np.asarray(A, dtype=float)
    return float(np.linalg.eigvalsh((A + A.T) / 2).min())


# ---- (a) nearest_positive_semidefinite / is_positive_semidefinite on grid matrices ----------------

def _chk_psd(inp):
    import numpy as np
    from pharmpy.internals.math import is_positive_semidefinite, nearest_positive_semidefinite
    fails = []
    A_list = _sym_from(inp['tril'], inp['n'])
    cls = _exact_class(A_list)
    A = np.array(A_list, dtype=float)
    A0 = A.copy()
    try:
        got = bool(is_positive_semidefinite(A))
    except Exception as e:  # noqa
        fails.append((FID_IPSD, 'is_positive_semidefinite: no internal error', '%s: %s for %r' % (type(e).__name__, e, A_list)))
        got = None
    if got is not None:
        if cls == 'pd' and not got:
            fails.append((FID_IPSD, 'is_positive_semidefinite accepts every positive definite matrix', repr(A_list)))
        if cls == 'indef' and got:
            fails.append((FID_IPSD, 'is_positive_semidefinite rejects every matrix with a negative principal minor', repr(A_list)))
        # NOTE a singular PSD matrix lies on the boundary of the cone: in floating point either answer is
        # within rounding of the exact one, so no clause demands acceptance (it was a false alarm)
    try:
        R = nearest_positive_semidefinite(A)
    except Exception as e:  # noqa
        fails.append((FID_NPSD, 'nearest_positive_semidefinite: no internal error', '%s: %s for %r' % (type(e).__name__, e, A_list)))
        return fails
    if not np.array_equal(A, A0):
        fails.append((FID_NPSD, 'nearest_positive_semidefinite does not modify its argument', repr(A_list)))
    R = np.asarray(R, dtype=float)
    if R.shape != A0.shape or not np.all(np.isfinite(R)) or not np.allclose(R, R.T, rtol=0, atol=1e-12):
        fails.append((FID_NPSD, 'nearest_positive_semidefinite returns a finite symmetric matrix of the same shape',
                      '%r -> %r' % (A_list, R.tolist())))
        return fails
    mn = _mineig(R)
    if mn < -PSD_TOL:
        fails.append((FID_NPSD, 'nearest_positive_semidefinite returns a positive semidefinite matrix (eigenvalues >= -1e-10)',
                      '%r -> %r with smallest eigenvalue %.3g' % (A_list, R.tolist(), mn)))
    if cls == 'pd' and not np.array_equal(R, A0):
        fails.append((FID_NPSD, 'nearest_positive_semidefinite returns a positive definite matrix unchanged',
                      '%r -> %r' % (A_list, R.tolist())))
    if cls == 'singular' and float(np.abs(R - A0).max()) > 1e-12 * max(1.0, float(np.abs(A0).max())):
        fails.append((FID_NPSD, 'nearest_positive_semidefinite returns a singular positive semidefinite matrix unchanged (within 1e-12 relative)',
                      '%r (all principal minors >= 0) -> %r, max abs change %.3g' % (A_list, R.tolist(), float(np.abs(R - A0).max()))))
    P = _projection(A0)
    if float(np.abs(R - P).max()) > 1e-8:
        fails.append((FID_NPSD, 'nearest_positive_semidefinite returns the nearest PSD matrix in the Frobenius norm (within 1e-8)',
                      '%r -> %r, projection on the PSD cone is %r' % (A_list, R.tolist(), P.tolist())))
    return fails


def _psd_inputs(tier):
    out = []
    for vals in itertools.product(GRID, repeat=3):
        out.append({'n': 2, 'tril': list(vals)})
    g3 = GRID if tier == 'thorough' else [-1, -0.5, 0, 0.5, 1, 2]
    for vals in itertools.product(g3, repeat=6):
        out.append({'n': 3, 'tril': list(vals)})
    if tier == 'thorough':
        for vals in itertools.product([-1, 0, 1], repeat=10):
            out.append({'n': 4, 'tril': list(vals)})
    return out


# ---- (b) cov2corr / corr2cov ------------------------------------------------------------------------

def _chk_corr(inp):
    import numpy as np
    from pharmpy.internals.math import corr2cov, cov2corr
    fails = []
    n = inp['n']
    if inp['dir'] == 'cov':
        A_list = _sym_from(inp['tril'], n)
        A = np.array(A_list, dtype=float)
        A0 = A.copy()
        try:
            C = np.asarray(cov2corr(A), dtype=float)
        except Exception as e:  # noqa
            return [(FID_C2C, 'cov2corr: no internal error', '%s: %s for %r' % (type(e).__name__, e, A_list))]
        if not np.array_equal(A, A0):
            fails.append((FID_C2C, 'cov2corr does not modify its argument', repr(A_list)))
        exp = [[A_list[i][j] / (math.sqrt(A_list[i][i]) * math.sqrt(A_list[j][j])) for j in range(n)] for i in range(n)]
        if C.shape != (n, n) or float(np.abs(C - np.array(exp)).max()) > 1e-12:
            fails.append((FID_C2C, 'cov2corr gives cov[i,j] / (sd[i] sd[j]) with unit diagonal',
                          '%r -> %r, expected %r' % (A_list, C.tolist(), exp)))
            return fails
        sd = np.sqrt(np.diag(A0))
        sd0 = sd.copy()
        C0 = C.copy()
        try:
            B = np.asarray(corr2cov(C, sd), dtype=float)
        except Exception as e:  # noqa
            return fails + [(FID_CORR2COV, 'corr2cov: no internal error', '%s: %s for %r' % (type(e).__name__, e, C.tolist()))]
        if not np.array_equal(C, C0) or not np.array_equal(sd, sd0):
            fails.append((FID_CORR2COV, 'corr2cov does not modify its arguments', repr(A_list)))
        if B.shape != (n, n) or float(np.abs(B - A0).max()) > 1e-12:
            fails.append((FID_CORR2COV, 'corr2cov(cov2corr(A), sqrt(diag(A))) == A for positive diagonals',
                          '%r -> %r -> %r' % (A_list, C.tolist(), B.tolist())))
    else:
        C_list = _sym_from(inp['tril'], n)
        sd = [float(x) for x in inp['sd']]
        C = np.array(C_list, dtype=float)
        try:
            B = np.asarray(corr2cov(C, np.array(sd)), dtype=float)
        except Exception as e:  # noqa
            return [(FID_CORR2COV, 'corr2cov: no internal error', '%s: %s for %r' % (type(e).__name__, e, C_list))]
        exp = [[C_list[i][j] * sd[i] * sd[j] for j in range(n)] for i in range(n)]
        if B.shape != (n, n) or float(np.abs(B - np.array(exp)).max()) > 1e-12:
            fails.append((FID_CORR2COV, 'corr2cov gives corr[i,j] sd[i] sd[j]', '%r, %r -> %r, expected %r' % (C_list, sd, B.tolist(), exp)))
            return fails
        try:
            C2 = np.asarray(cov2corr(B), dtype=float)
        except Exception as e:  # noqa
            return fails + [(FID_C2C, 'cov2corr: no internal error', '%s: %s for %r' % (type(e).__name__, e, B.tolist()))]
        if float(np.abs(C2 - C).max()) > 1e-12:
            fails.append((FID_C2C, 'cov2corr(corr2cov(C, sd)) == C for unit-diagonal C and positive sd',
                          '%r, %r -> %r -> %r' % (C_list, sd, B.tolist(), C2.tolist())))
    return fails


def _tril_with_diag(n, diag, off):
    """lower triangle (row-wise) with the given diagonal and off-diagonal values"""
    vals = []
    it = iter(off)
    for i in range(n):
        for j in range(i + 1):
            vals.append(diag[i] if i == j else next(it))
    return vals


def _corr_inputs(tier):
    out = []
    pos = [0.5, 1, 2]
    for n in (2, 3):
        noff = n * (n - 1) // 2
        offgrid = GRID if (n == 2 or tier == 'thorough') else [-1, -0.5, 0, 0.5, 2]
        for diag in itertools.product(pos, repeat=n):
            for off in itertools.product(offgrid, repeat=noff):
                out.append({'dir': 'cov', 'n': n, 'tril': _tril_with_diag(n, diag, off)})
        cgrid = [-1, -0.5, 0, 0.5, 1]
        for sd in itertools.product(pos, repeat=n):
            for off in itertools.product(cgrid, repeat=noff):
                out.append({'dir': 'corr', 'n': n, 'sd': list(sd), 'tril': _tril_with_diag(n, [1] * n, off)})
    return out


# ---- collections with parameter values (c, d, e) ------------------------------------------------------

def _param_roles(ref):
    """parameter symbol -> 'var' | 'cov' (by its position in the distributions)"""
    roles = {}
    for (a, b), v in ref['cov'].items():
        if _isnum(v):
            continue
        role = 'var' if a == b else 'cov'
        if roles.get(v, role) != role:
            raise AssertionError('parameter used both as variance and covariance')
        roles[v] = role
    return roles


def _value_colls(nmax, extra22=True):
    seen = []
    for desc in _collections(1, nmax, all_levels=False):
        if desc['variant'] == 'numeric':
            continue
        seen.append(desc)
    if extra22 and nmax < 4:
        for variant in ('distinct', 'shared'):
            seen.append({'variant': variant, 'blocks': [[2, 'IIV'], [2, 'IIV']]})
    # the IOV pattern: a joint IIV block followed by two occasions sharing one matrix / one variance
    for variant in ('shared',):
        seen.append({'variant': variant, 'blocks': [[2, 'IIV'], [1, 'IOV'], [1, 'IOV']]})
    return seen


def _assignments(ref, vargrid, covgrid):
    roles = _param_roles(ref)
    names = sorted(roles)
    grids = [vargrid if roles[p] == 'var' else covgrid for p in names]
    for vals in itertools.product(*grids):
        yield dict(zip(names, [float(v) for v in vals]))


def _block_matrices(ref, values):
    """per joint distribution: (names, numeric matrix as nested list) under the parameter values"""
    out = []
    for b in ref['blocks']:
        if len(b) < 2:
            continue
        out.append((b, [[values[ref['cov'][(x, y)]] if not _isnum(ref['cov'][(x, y)]) else float(ref['cov'][(x, y)])
                         for y in b] for x in b]))
    return out


def _chk_sdcorr(inp):
    import numpy as np
    from pharmpy.internals.math import corr2cov
    rvs, ref = _ref_only(inp['coll'])
    values = dict(inp['values'])
    values['THETA_X'] = 7.0
    v0 = dict(values)
    what = 'parameters_sdcorr(%r) on %r' % (inp['values'], [[ref['cov'][(x, y)] for y in b] for b in ref['blocks'] for x in b])
    try:
        got = rvs.parameters_sdcorr(values)
    except Exception as e:  # noqa
        return [(FID_SDCORR, 'parameters_sdcorr: no internal error', '%s: %s for %s' % (type(e).__name__, e, what))]
    fails = []
    if values != v0:
        fails.append((FID_SDCORR, 'parameters_sdcorr does not modify its argument', what))
    # independent computation: sd = sqrt(var), corr = cov / (sd_i sd_j), per position
    exp = {'THETA_X': 7.0}
    conflict = False
    for b in ref['blocks']:
        for x in b:
            for y in b:
                p = ref['cov'][(x, y)]
                if x == y:
                    e = math.sqrt(v0[p])
                else:
                    e = v0[p] / (math.sqrt(v0[ref['cov'][(x, x)]]) * math.sqrt(v0[ref['cov'][(y, y)]]))
                if p in exp and abs(exp[p] - e) > 1e-12:
                    conflict = True
                exp[p] = e
    assert not conflict
    try:
        gotf = {k: float(v) for k, v in dict(got).items()}
    except Exception as e:  # noqa
        return fails + [(FID_SDCORR, 'parameters_sdcorr returns a dict of numbers with the keys of its argument', '%s: %r' % (what, got))]
    if set(gotf) != set(exp):
        fails.append((FID_SDCORR, 'parameters_sdcorr returns a dict of numbers with the keys of its argument', '%s: %r' % (what, got)))
        return fails
    bad = [k for k in sorted(exp) if abs(gotf[k] - exp[k]) > 1e-12]
    if bad:
        fails.append((FID_SDCORR, 'parameters_sdcorr gives sd = sqrt(var) and corr = cov / (sd_i sd_j), other values untouched',
                      '%s: %s = %r, expected %r' % (what, bad[0], gotf[bad[0]], exp[bad[0]])))
        return fails
    # converting back gives the original values
    back = {'THETA_X': gotf['THETA_X']}
    for b in ref['blocks']:
        sd = np.array([gotf[ref['cov'][(x, x)]] for x in b])
        C = np.array([[1.0 if x == y else gotf[ref['cov'][(x, y)]] for y in b] for x in b])
        S = corr2cov(C, sd) if len(b) > 1 else np.array([[sd[0] ** 2]])
        for i, x in enumerate(b):
            for j, y in enumerate(b):
                back[ref['cov'][(x, y)]] = float(S[i, j])
    bad = [k for k in sorted(v0) if abs(back[k] - v0[k]) > 1e-12]
    if bad:
        fails.append((FID_SDCORR, 'converting the sd/corr values back (squaring, corr2cov) gives the original values',
                      '%s: %s comes back as %r' % (what, bad[0], back[bad[0]])))
    return fails


def _sdcorr_inputs(tier):
    out = []
    for desc in _value_colls(4 if tier == 'thorough' else 3):
        _, ref = _ref_only(desc)
        n = sum(s for s, _ in desc['blocks'])
        covgrid = [-0.1, 0, 0.2] if (n <= 3 or tier == 'thorough') else [-0.1, 0.2]
        for values in _assignments(ref, [0.25, 1, 4], covgrid):
            out.append({'coll': desc, 'values': values})
    return out


_REFCACHE = {}


def _ref_only(desc):
    key = json.dumps(desc)
    if key not in _REFCACHE:
        _REFCACHE[key] = _build(desc)
    return _REFCACHE[key]


def _validity(ref, values):
    """exact classification of the parameter values: 'pd' (all blocks PD), 'singular' (all PSD, some singular), 'indef'"""
    cl = [_exact_class(M) for _, M in _block_matrices(ref, values)]
    if 'indef' in cl:
        return 'indef', cl
    if 'singular' in cl:
        return 'singular', cl
    return 'pd', cl


def _chk_nearest_result(fails, fid, prefix, ref, v0, new, what):
    """clauses on repaired values: every block PSD, nearest, untouched outside invalid blocks"""
    import numpy as np
    if set(new) != set(v0):
        fails.append((fid, prefix + ': the parameter names are unchanged', '%s -> %r' % (what, new)))
        return
    touched = set()
    for b, M in _block_matrices(ref, v0):
        Mn = [[float(new[ref['cov'][(x, y)]]) for y in b] for x in b]
        cls = _exact_class(M)
        if cls == 'indef':
            for x in b:
                for y in b:
                    touched.add(ref['cov'][(x, y)])
            mn = _mineig(Mn)
            if mn < -PSD_TOL:
                fails.append((fid, prefix + ': every invalid covariance block becomes positive semidefinite',
                              '%s: block %r becomes %r with smallest eigenvalue %.3g' % (what, b, Mn, mn)))
            elif float(np.abs(np.array(Mn) - _projection(np.array(M, dtype=float))).max()) > 1e-8:
                fails.append((fid, prefix + ': an invalid covariance block is replaced by the nearest PSD matrix (within 1e-8)',
                              '%s: block %r becomes %r, projection %r' % (what, b, Mn, _projection(np.array(M, dtype=float)).tolist())))
    classes = {}
    for b, M in _block_matrices(ref, v0):
        c = _exact_class(M)
        for x in b:
            for y in b:
                classes.setdefault(ref['cov'][(x, y)], set()).add(c)
    for k in sorted(v0):
        if k in touched:
            continue
        if not (isinstance(new[k], (int, float)) and float(new[k]) == v0[k]):
            if 'singular' in classes.get(k, ()):
                if abs(float(new[k]) - v0[k]) <= 1e-12 * max(1.0, max(abs(x) for x in v0.values())):
                    continue
                clause = prefix + ': values of a singular positive semidefinite block are never altered (within 1e-12 relative)'
            else:
                clause = prefix + ': values outside invalid blocks are never altered (positive definite blocks, other parameters)'
            fails.append((fid, clause, '%s: %s becomes %r (change %.3g)' % (what, k, new[k], float(new[k]) - v0[k])))
            break


def _chk_valid(inp):
    rvs, ref = _ref_only(inp['coll'])
    values = dict(inp['values'])
    values['THETA_X'] = 7.0
    v0 = dict(values)
    what = 'values %r for %r' % (inp['values'], [[[ref['cov'][(x, y)] for y in b] for x in b] for b in ref['blocks']])
    cls, _ = _validity(ref, v0)
    fails = []
    try:
        ok = bool(rvs.validate_parameters(values))
    except Exception as e:  # noqa
        return [(FID_VALID, 'validate_parameters: no internal error', '%s: %s for %s' % (type(e).__name__, e, what))]
    if cls == 'pd' and not ok:
        fails.append((FID_VALID, 'validate_parameters accepts values with positive definite blocks', what))
    if cls == 'indef' and ok:
        fails.append((FID_VALID, 'validate_parameters rejects values with an indefinite block', what))
    try:
        new = dict(rvs.nearest_valid_parameters(values))
    except Exception as e:  # noqa
        return fails + [(FID_NEAREST, 'nearest_valid_parameters: no internal error', '%s: %s for %s' % (type(e).__name__, e, what))]
    if values != v0:
        fails.append((FID_NEAREST, 'nearest_valid_parameters does not modify its argument', what))
    _chk_nearest_result(fails, FID_NEAREST, 'nearest_valid_parameters', ref, v0, new, what)
    if cls == 'indef':
        try:
            ok2 = bool(rvs.validate_parameters(new))
        except Exception as e:  # noqa
            ok2 = '%s: %s' % (type(e).__name__, e)
        if ok2 is not True:
            fails.append((FID_NEAREST, 'nearest_valid_parameters: the repaired values pass validate_parameters',
                          '%s -> %r: %r' % (what, new, ok2)))
    return fails


def _valid_inputs(tier):
    out = []
    if tier == 'thorough':
        vargrid, covgrid, nmax = [0, 0.5, 1, 2], GRID, 4
    else:
        vargrid, covgrid, nmax = [0.5, 1, 2], [-1, -0.5, 0, 0.5, 1, 2], 3
    for desc in _value_colls(nmax):
        if all(s == 1 for s, _ in desc['blocks']):
            continue
        _, ref = _ref_only(desc)
        n = sum(s for s, _ in desc['blocks'])
        cg = covgrid
        if len(_param_roles(ref)) > 7:
            cg = [-1, 0, 0.5, 2]
        if tier != 'thorough' and n == 4 and desc['variant'] == 'distinct' and len(desc['blocks']) == 2:
            cg = [-1, -0.5, 0.5, 2]
        for values in _assignments(ref, vargrid, cg):
            out.append({'coll': desc, 'values': values})
    return out


def _mk_model(ref, rvs, values):
    from pharmpy.model import Model, Parameter, Parameters
    roles = _param_roles(ref)
    pars = [Parameter.create('THETA_X', 7.0, lower=0)]
    for p in sorted(roles):
        pars.append(Parameter.create(p, values[p], lower=0 if roles[p] == 'var' else None))
    return Model.create(name='m', parameters=Parameters.create(pars), random_variables=rvs), Parameters.create(pars)


def _chk_model(inp):
    rvs, ref = _ref_only(inp['coll'])
    v0 = dict(inp['values'])
    v0['THETA_X'] = 7.0
    what = 'initial estimates %r for %r' % (inp['values'], [[[ref['cov'][(x, y)] for y in b] for x in b] for b in ref['blocks']])
    fails = []
    roles = _param_roles(ref)
    valid_start = {p: (1.0 if roles[p] == 'var' else 0.0) for p in roles}
    for way in ('create', 'replace'):
        prefix = 'Model.%s' % way
        try:
            if way == 'create':
                model, _ = _mk_model(ref, rvs, v0)
            else:
                base, pars = _mk_model(ref, rvs, valid_start)
                model = base.replace(parameters=pars.set_initial_estimates(v0))
            new = {k: float(v) for k, v in model.parameters.inits.items()}
        except Exception as e:  # noqa
            fails.append((FID_CANON, prefix + ': no internal error', '%s: %s for %s' % (type(e).__name__, e, what)))
            continue
        _chk_nearest_result(fails, FID_CANON, prefix, ref, v0, new, what)
    return fails


def _model_inputs(tier):
    out = []
    if tier == 'thorough':
        vargrid, covgrid, nmax = [0, 0.5, 1, 2], [-2, -1, -0.5, 0, 0.5, 1, 2], 3
    else:
        vargrid, covgrid, nmax = [0.5, 2], [-1, 0, 0.5, 1, 2], 3
    for desc in _value_colls(nmax):
        if all(s == 1 for s, _ in desc['blocks']):
            continue
        _, ref = _ref_only(desc)
        for values in _assignments(ref, vargrid, covgrid):
            out.append({'coll': desc, 'values': values})
    return out


# ---- (e2) models in which only SOME components are replaced ----------------------------------------------
#
# input = {'from': collection, 'to': collection, 'values': {parameter: value}}: both collections are over the same
# variables; the parameters of the model are those of both collections.  The model is created with the structure
# 'from', for which the values are valid (every block positive definite: the precondition), then ONLY the random
# variables are replaced by the structure 'to' (alone, together with the statements, together with the very same /
# an equal Parameters object).  Every model returned must have valid initial estimates: blocks of 'to' that the
# carried-over values make indefinite are replaced by the nearest positive semidefinite matrix, everything else
# keeps its value.  Replacing only components that have nothing to do with the estimates keeps every value.

PART_WAYS = (
    ('Model.replace(random_variables=)', lambda m, rvs, P, S: m.replace(random_variables=rvs)),
    ('Model.replace(random_variables=, statements=)', lambda m, rvs, P, S: m.replace(random_variables=rvs, statements=S())),
    ('Model.replace(statements=, random_variables=) in two steps',
     lambda m, rvs, P, S: m.replace(statements=S()).replace(random_variables=rvs)),
    ('Model.replace(parameters=<the parameters of the model>, random_variables=)',
     lambda m, rvs, P, S: m.replace(parameters=m.parameters, random_variables=rvs)),
    ('Model.replace(parameters=<equal parameters>, random_variables=)',
     lambda m, rvs, P, S: m.replace(parameters=P.create(list(m.parameters)), random_variables=rvs)),
)
PART_FRAME = 'Model.replace of name, description or statements only: every initial estimate keeps its value'


def _union_roles(ref1, ref2):
    roles = dict(_param_roles(ref1))
    for k, r in _param_roles(ref2).items():
        if roles.get(k, r) != r:
            raise AssertionError('parameter used both as variance and covariance')
        roles[k] = r
    return roles


def _chk_modelpart(inp):
    from pharmpy.model import Model, Parameter, Parameters, Statements
    rvs1, ref1 = _ref_only(inp['from'])
    rvs2, ref2 = _ref_only(inp['to'])
    v0 = dict(inp['values'])
    v0['THETA_X'] = 7.0
    if not _all_blocks_pd(ref1, v0):
        return []      # precondition: the values are valid for the structure the model is created with
    roles = _union_roles(ref1, ref2)
    show = lambda ref: [[[ref['cov'][(x, y)] for y in b] for x in b] for b in ref['blocks']]   # noqa
    what = 'initial estimates %r, model created with %r, random variables replaced by %r' % (inp['values'], show(ref1), show(ref2))
    fails = []
    try:
        pars = [Parameter.create('THETA_X', 7.0, lower=0)]
        for p in sorted(roles):
            pars.append(Parameter.create(p, v0[p], lower=0 if roles[p] == 'var' else None))
        base = Model.create(name='m', parameters=Parameters.create(pars), random_variables=rvs1)
        v1 = {k: float(v) for k, v in base.parameters.inits.items()}
    except Exception as e:  # noqa
        return [(FID_CANON, 'Model.create: no internal error', '%s: %s for %s' % (type(e).__name__, e, what))]
    _chk_nearest_result(fails, FID_CANON, 'Model.create', ref1, v0, v1, what)
    if v1 != v0:
        return fails
    for prefix, fn in PART_WAYS:
        try:
            model = fn(base, rvs2, Parameters, Statements)
            new = {k: float(v) for k, v in model.parameters.inits.items()}
            names = list(model.random_variables.names)
        except Exception as e:  # noqa
            fails.append((FID_CANON, prefix + ': no internal error', '%s: %s for %s' % (type(e).__name__, e, what)))
            continue
        if names != _names_of(ref2):
            fails.append((FID_CANON, prefix + ': the model has the new random variables', '%s: %r' % (what, names)))
        _chk_nearest_result(fails, FID_CANON, prefix, ref2, v1, new, what)
    for label, fn in (('name', lambda m: m.replace(name='other')), ('description', lambda m: m.replace(description='text')),
                      ('statements', lambda m: m.replace(statements=Statements()))):
        try:
            new = {k: float(v) for k, v in fn(base).parameters.inits.items()}
        except Exception as e:  # noqa
            fails.append((FID_CANON, 'Model.replace(%s=): no internal error' % label, '%s: %s for %s' % (type(e).__name__, e, what)))
            continue
        if new != v1:
            fails.append((FID_CANON, PART_FRAME, '%s: replace(%s=) gives %r' % (what, label, new)))
    if {k: float(v) for k, v in base.parameters.inits.items()} != v1:
        fails.append((FID_CANON, 'Model.replace does not modify the model it is called on', what))
    return fails


_PD_MEMO = {}


def _all_blocks_pd(ref, values):
    """every joint block is positive definite under the values (exact; memoised per block matrix)"""
    for _, M in _block_matrices(ref, values):
        key = tuple(tuple(row) for row in M)
        if key not in _PD_MEMO:
            _PD_MEMO[key] = _exact_class(M) == 'pd'
        if not _PD_MEMO[key]:
            return False
    return True


def _partitions(n, variant):
    return [{'variant': variant, 'blocks': [[s, 'IIV'] for s in comp]} for comp in _compositions(n)]


def _modelpart_inputs(tier):
    out = []
    vargrid = [0.5, 2]
    for variant in ('distinct', 'shared'):
        for n in (2, 3):
            if tier == 'thorough':
                covgrid = GRID if n == 2 else [-1, -0.5, 0, 0.5, 1, 2]
            else:
                covgrid = [-1, 0, 0.5, 2]
            parts = _partitions(n, variant)
            for d1 in parts:
                for d2 in parts:
                    if d1 == d2:
                        continue
                    _, ref1 = _ref_only(d1)
                    _, ref2 = _ref_only(d2)
                    roles = _union_roles(ref1, ref2)
                    names = sorted(roles)
                    for vals in itertools.product(*[vargrid if roles[p] == 'var' else covgrid for p in names]):
                        values = dict(zip(names, [float(v) for v in vals]))
                        if _all_blocks_pd(ref1, values):
                            out.append({'from': d1, 'to': d2, 'values': values})
    return out


# ---- (f) ucp scale -------------------------------------------------------------------------------------

_UCP = {}


def _ucp_env():
    if _UCP:
        return _UCP
    from pharmpy.modeling import create_joint_distribution, load_example_model
    pheno = load_example_model('pheno')
    moxo = load_example_model('moxo')
    _UCP['pheno'] = pheno
    _UCP['moxo'] = moxo
    _UCP['pheno_joint'] = create_joint_distribution(pheno, ['ETA_CL', 'ETA_VC'], individual_estimates=None)
    _UCP['moxo_joint'] = create_joint_distribution(moxo, ['ETA_1', 'ETA_2', 'ETA_3'], individual_estimates=None)
    return _UCP


def _ucp_model(inp):
    """build the model variant described by inp: base model, then a list of modifications"""
    env = _ucp_env()
    model = env[inp['base']]
    for mod in inp['mods']:
        kind = mod[0]
        pars = model.parameters
        if kind == 'fix':
            model = model.replace(parameters=pars.set_fix({mod[1]: True}))
        elif kind == 'init':
            model = model.replace(parameters=pars.set_initial_estimates({mod[1]: mod[2]}))
        elif kind == 'corr':
            # covariance parameter mod[1] between variances mod[2], mod[3] set to correlation mod[4]
            inits = pars.inits
            model = model.replace(parameters=pars.set_initial_estimates(
                {mod[1]: mod[4] * math.sqrt(inits[mod[2]] * inits[mod[3]])}))
        elif kind == 'scale':
            model = model.replace(parameters=pars.set_initial_estimates({mod[1]: pars.inits[mod[1]] * mod[2]}))
        elif kind == 'bounds':
            from pharmpy.model import Parameters
            new = [q.replace(lower=mod[2], upper=mod[3]) if q.name == mod[1] else q for q in pars]
            model = model.replace(parameters=Parameters.create(new))
        else:
            raise AssertionError(kind)
    return model


UCP_COVS = {'pheno_joint': [('IIV_CL_IIV_VC', 'IIV_CL', 'IIV_VC')],
            'moxo': [('OMEGA_2_1', 'OMEGA_1_1', 'IIV_CL_V')]}


def _chk_ucp(inp):
    from pharmpy.modeling import calculate_parameters_from_ucp, calculate_ucp_scale
    model = _ucp_model(inp)
    pars = model.parameters
    inits = {k: float(v) for k, v in pars.inits.items()}
    fixed = set(k for k, f in pars.fix.items() if f)
    rvs = model.random_variables
    what = '%s with %r (inits %r, fixed %r)' % (inp['base'], inp['mods'], inits, sorted(fixed))
    # classify the case by its own reference walk over the distributions
    negcov = False
    zerovar = False
    partial = False
    for d in [rvs[i] for i in range(len(rvs))]:
        ref = _extract(type(rvs).create([d]))
        for (a, b), v in ref['cov'].items():
            val = inits[v] if not _isnum(v) else float(v)
            if a != b and val < 0:
                negcov = True
            if a == b and val == 0:
                zerovar = True
        syms = _symbols_of(ref)
        if len(ref['blocks'][0]) > 1 and 0 < len(syms & fixed) < len(syms):
            partial = True
    if zerovar:
        suffix = ' (a variance fixed to zero)'
    elif partial:
        suffix = ' (a joint block with only some of its parameters fixed)'
    elif negcov:
        suffix = ' (a negative covariance)'
    else:
        suffix = ' (positive variances, non-negative covariances, joint blocks fixed as a whole or not at all)'
    try:
        scale = calculate_ucp_scale(model)
    except Exception as e:  # noqa
        return [(FID_UCPS, 'calculate_ucp_scale: no internal error' + suffix, '%s: %s for %s' % (type(e).__name__, e, what))]
    ucps = {k: 0.1 for k in inits if k not in fixed}
    try:
        res = calculate_parameters_from_ucp(model, scale, ucps)
        got = {k: float(res[k]) for k in res.index}
    except Exception as e:  # noqa
        return [(FID_UCP, 'calculate_parameters_from_ucp: no internal error' + suffix, '%s: %s for %s' % (type(e).__name__, e, what))]
    fails = []
    missing = [k for k in inits if k not in fixed and k not in got]
    if missing:
        fails.append((FID_UCP, 'calculate_parameters_from_ucp returns every non-fixed parameter', '%s: %r missing' % (what, missing)))
    bad = [k for k in got if k in inits and abs(got[k] - inits[k]) > 1e-8 * max(1.0, abs(inits[k])) + 1e-12]
    bad_rel = [k for k in got if k in inits and k not in bad and abs(got[k] - inits[k]) > 1e-8 * abs(inits[k])]
    if bad or bad_rel:
        k = (bad or bad_rel)[0]
        fails.append((FID_UCP, 'from_ucp(scale(M), all ucp 0.1) gives back the initial estimates' + suffix,
                      '%s: %s comes back as %r, initial estimate %r' % (what, k, got[k], inits[k])))
    extra = [k for k in got if k not in inits]
    if extra:
        fails.append((FID_UCP, 'calculate_parameters_from_ucp returns only parameters of the model', '%s: %r' % (what, extra)))
    if {k: float(v) for k, v in model.parameters.inits.items()} != inits:
        fails.append((FID_UCP, 'calculate_parameters_from_ucp does not modify the model', what))
    return fails


def _ucp_inputs(tier):
    env = _ucp_env()
    out = []
    corrs = [-0.9, -0.5, -0.1, 0.1, 0.5, 0.9] if tier == 'thorough' else [-0.5, 0.1, 0.5]
    scales = [0.5, 2, 10] if tier == 'thorough' else [0.5, 2]
    for base in ('pheno', 'moxo', 'pheno_joint', 'moxo_joint'):
        model = env[base]
        names = list(model.parameters.names)
        rvsyms = set(str(s) for s in model.random_variables.free_symbols)
        thetas = [n for n in names if n not in rvsyms]
        out.append({'base': base, 'mods': []})
        for n in names:
            out.append({'base': base, 'mods': [['fix', n]]})
        for a, b in itertools.combinations(names, 2):
            if tier == 'thorough' or (a in thetas) != (b in thetas):
                out.append({'base': base, 'mods': [['fix', a], ['fix', b]]})
        out.append({'base': base, 'mods': [['fix', n] for n in thetas]})
        for n in names:
            for f in scales:
                if n in thetas or n in model.random_variables.variance_parameters:
                    out.append({'base': base, 'mods': [['scale', n, f]]})
        for n in thetas:
            init = model.parameters.inits[n]
            out.append({'base': base, 'mods': [['bounds', n, None, None]]})
            out.append({'base': base, 'mods': [['bounds', n, init / 2, init * 4]]})
            out.append({'base': base, 'mods': [['bounds', n, None, None], ['init', n, -init]]})
        for cov, v1, v2 in UCP_COVS.get(base, []):
            out.append({'base': base, 'mods': [['fix', cov], ['fix', v1], ['fix', v2]]})
            out.append({'base': base, 'mods': [['fix', cov], ['fix', v1], ['fix', v2], ['fix', thetas[0]]]})
            for r in corrs:
                out.append({'base': base, 'mods': [['corr', cov, v1, v2, r]]})
                out.append({'base': base, 'mods': [['corr', cov, v1, v2, r], ['fix', thetas[0]]]})
        # a variance fixed to zero (the usual way to switch a random effect off)
        for n in model.random_variables.variance_parameters:
            cpars = [c for c, v1, v2 in UCP_COVS.get(base, []) if n in (v1, v2)]
            mods = [['init', c, 0.0] for c in cpars] + [['fix', c] for c in cpars] + [['init', n, 0.0], ['fix', n]]
            if base != 'moxo_joint':
                out.append({'base': base, 'mods': mods})
    return out


# ---- (g) pharmpy.modeling matrix conversions --------------------------------------------------------------

MM_FUNCS = ('calculate_se_from_cov', 'calculate_se_from_prec', 'calculate_corr_from_cov', 'calculate_cov_from_prec',
            'calculate_cov_from_corrse', 'calculate_prec_from_cov', 'calculate_prec_from_corrse', 'calculate_corr_from_prec')


def _chk_mm(inp):
    import numpy as np
    import pandas as pd
    import pharmpy.modeling as pm
    n = inp['n']
    A_list = _sym_from(inp['tril'], n)
    labels = ['P%d' % (i + 1) for i in range(n)]
    cov = pd.DataFrame(np.array(A_list, dtype=float), index=labels, columns=labels)
    cov0 = cov.copy()
    fails = []
    tol = 1e-9

    def call(name, *args):
        try:
            return getattr(pm, name)(*args)
        except Exception as e:  # noqa
            fails.append((_MM + name, name + ': no internal error', '%s: %s for cov %r' % (type(e).__name__, e, A_list)))
            return None

    def close(x, y):
        x = np.asarray(x, dtype=float)
        y = np.asarray(y, dtype=float)
        return x.shape == y.shape and bool(np.all(np.abs(x - y) <= tol * (1 + np.abs(y))))

    def labelled(obj):
        if isinstance(obj, pd.Series):
            return list(obj.index) == labels
        return isinstance(obj, pd.DataFrame) and list(obj.index) == labels and list(obj.columns) == labels

    sd_ref = np.array([math.sqrt(A_list[i][i]) for i in range(n)])
    corr_ref = np.array([[A_list[i][j] / (sd_ref[i] * sd_ref[j]) for j in range(n)] for i in range(n)])
    se = call('calculate_se_from_cov', cov)
    if se is not None and not (labelled(se) and close(se.values, sd_ref)):
        fails.append((_MM + 'calculate_se_from_cov', 'calculate_se_from_cov gives the square roots of the diagonal, labels kept',
                      'cov %r -> %r' % (A_list, se.to_dict())))
    corr = call('calculate_corr_from_cov', cov)
    if corr is not None and not (labelled(corr) and close(corr.values, corr_ref)):
        fails.append((_MM + 'calculate_corr_from_cov', 'calculate_corr_from_cov gives cov[i,j] / (se_i se_j), labels kept',
                      'cov %r -> %r' % (A_list, np.asarray(corr).tolist())))
    prec = call('calculate_prec_from_cov', cov)
    if prec is not None and not (labelled(prec) and close(prec.values @ cov0.values, np.eye(n)) and close(cov0.values @ prec.values, np.eye(n))):
        fails.append((_MM + 'calculate_prec_from_cov', 'calculate_prec_from_cov gives the matrix inverse, labels kept',
                      'cov %r -> %r' % (A_list, np.asarray(prec).tolist())))
        prec = None
    se_s = pd.Series(sd_ref, index=labels)
    corr_d = pd.DataFrame(corr_ref, index=labels, columns=labels)
    back = call('calculate_cov_from_corrse', corr_d, se_s)
    if back is not None and not (labelled(back) and close(back.values, cov0.values)):
        fails.append((_MM + 'calculate_cov_from_corrse', 'calculate_cov_from_corrse inverts calculate_corr_from_cov / calculate_se_from_cov',
                      'cov %r -> corr, se -> %r' % (A_list, np.asarray(back).tolist())))
    if prec is not None:
        prec0 = prec.copy()
        back = call('calculate_cov_from_prec', prec)
        if back is not None and not (labelled(back) and close(back.values, cov0.values)):
            fails.append((_MM + 'calculate_cov_from_prec', 'calculate_cov_from_prec inverts calculate_prec_from_cov',
                          'cov %r -> prec -> %r' % (A_list, np.asarray(back).tolist())))
        se2 = call('calculate_se_from_prec', prec)
        if se2 is not None and not (labelled(se2) and close(se2.values, sd_ref)):
            fails.append((_MM + 'calculate_se_from_prec', 'calculate_se_from_prec agrees with calculate_se_from_cov of the inverse',
                          'cov %r -> prec -> %r' % (A_list, se2.to_dict())))
        corr2 = call('calculate_corr_from_prec', prec)
        if corr2 is not None and not (labelled(corr2) and close(corr2.values, corr_ref)):
            fails.append((_MM + 'calculate_corr_from_prec', 'calculate_corr_from_prec agrees with calculate_corr_from_cov of the inverse',
                          'cov %r -> prec -> %r' % (A_list, np.asarray(corr2).tolist())))
        prec2 = call('calculate_prec_from_corrse', corr_d, se_s)
        if prec2 is not None and not (labelled(prec2) and close(prec2.values @ cov0.values, np.eye(n))):
            fails.append((_MM + 'calculate_prec_from_corrse', 'calculate_prec_from_corrse gives the inverse of calculate_cov_from_corrse',
                          'cov %r -> %r' % (A_list, np.asarray(prec2).tolist())))
        if not prec.equals(prec0):
            fails.append((_MM + 'calculate_cov_from_prec', 'the matrix conversions do not modify their arguments', 'prec of %r' % (A_list,)))
    if not cov.equals(cov0) or not close(se_s.values, sd_ref) or not close(corr_d.values, corr_ref):
        fails.append((_MM + 'calculate_corr_from_cov', 'the matrix conversions do not modify their arguments', 'cov %r' % (A_list,)))
    return fails


def _mm_inputs(tier):
    out = []
    for vals in itertools.product(GRID, repeat=3):
        if _exact_class(_sym_from(vals, 2)) == 'pd':
            out.append({'n': 2, 'tril': list(vals)})
    g3 = GRID if tier == 'thorough' else [-1, -0.5, 0, 0.5, 1, 2]
    for vals in itertools.product(g3, repeat=6):
        if vals[0] > 0 and vals[2] > 0 and vals[5] > 0 and _exact_class(_sym_from(vals, 3)) == 'pd':
            out.append({'n': 3, 'tril': list(vals)})
    return out


# ---- driver -------------------------------------------------------------------------------------------------

NUM_KINDS = {
    'psd': (_chk_psd, _psd_inputs),
    'corr': (_chk_corr, _corr_inputs),
    'sdcorr': (_chk_sdcorr, _sdcorr_inputs),
    'valid': (_chk_valid, _valid_inputs),
    'model': (_chk_model, _model_inputs),
    'ucp': (_chk_ucp, _ucp_inputs),
    'mm': (_chk_mm, _mm_inputs),
    'modelpart': (_chk_modelpart, _modelpart_inputs),
}
NUM_ORDER = ['psd', 'corr', 'sdcorr', 'valid', 'model', 'ucp', 'mm', 'modelpart']   # new kinds are appended


def _num_worker(task):
    kind, items = task
    fn = NUM_KINDS[kind][0]
    col = _Collector()
    for i, inp in items:
        col.cases += 1
        try:
            fails = fn(inp)
        except Exception as e:  # noqa  (an error of the check itself must be visible, not swallowed)
            fails = [('b_rvs.py:' + fn.__name__, 'the check itself runs without error', '%s: %s' % (type(e).__name__, e))]
        col.nontrivial += 1
        if i in (3, 77) and len(col.samples) < 3:
            col.samples.append('%s: %s' % (kind, json.dumps(inp)))
        for fid, clause, detail in fails:
            col.fail((NUM_ORDER.index(kind), i), fid, clause, detail, {'kind': kind, 'inp': inp}, 'bounded_rv_numeric_replay')
    return col.export()


def bounded_rv_numeric(tier):
    import pharmpy.model  # noqa: F401
    import pharmpy.modeling  # noqa: F401
    _ucp_env()   # load the example models before forking
    tasks = []
    counts = {}
    for kind in NUM_ORDER:
        inputs = list(enumerate(NUM_KINDS[kind][1](tier)))
        counts[kind] = len(inputs)
        nch = max(1, min(NPROC * 4, len(inputs) // 50))
        for c in range(nch):
            part = inputs[c::nch]
            if part:
                tasks.append((kind, part))
    # longest kinds first
    tasks.sort(key=lambda t: -len(t[1]) * {'model': 6, 'ucp': 10, 'mm': 4, 'valid': 2, 'sdcorr': 2, 'modelpart': 12}.get(t[0], 1))
    col = _Collector()
    for part in _pool_map(_num_worker, tasks):
        col.merge(part)
    thorough = tier == 'thorough'
    bound = ('nearest_positive_semidefinite / is_positive_semidefinite: all symmetric 2x2 matrices on the grid {-2,-1,-0.5,0,0.5,1,2} and all '
             'symmetric 3x3 matrices on %s%s (%d matrices, exact rational classification as reference); cov2corr/corr2cov: all 2x2 and 3x3 '
             'matrices with diagonal in {0.5,1,2} and grid off-diagonals, all unit-diagonal matrices with off-diagonals in {-1,-0.5,0,0.5,1} x sd in '
             '{0.5,1,2}^n (%d); parameters_sdcorr: all all-IIV collections of <= %d variables (distinct / shared parameters, plus two equal 2-blocks and '
             'the IOV pattern) x variances in {0.25,1,4} x covariances in {-0.1,0,0.2} (%d); validate/nearest_valid_parameters: the same collections x '
             'variances in %s x covariances on the grid (%d); Model.create / Model.replace(parameters=): collections of <= 3 variables x value grid (%d); '
             'ucp: pheno, moxo and their joint-distribution variants x every single and (theta, random) pair of fixed parameters, initial estimates '
             'scaled, theta bounds changed, correlations %s, each variance fixed to zero (%d models); modeling/math.py: the 8 calculate_* conversions '
             'on every positive definite 2x2 / 3x3 grid matrix (%d); models with only some components replaced: every ordered pair of '
             'different splits of 2 or 3 IIV variables into singletons and joint blocks (distinct / shared parameters) x variances in '
             '{0.5,2} x covariances in %s, restricted to values that are valid for the first split: Model.create with the first split, '
             'then replace(random_variables=second split) alone / with statements / after statements / with the same or an equal '
             'Parameters object, and replace(name= / description= / statements=) (%d)'
             % ('the same grid' if thorough else 'the grid {-1,-0.5,0,0.5,1,2}', ' and all symmetric 4x4 matrices on {-1,0,1}' if thorough else '',
                counts['psd'], counts['corr'], 4 if thorough else 3, counts['sdcorr'], '{0,0.5,1,2}' if thorough else '{0.5,1,2}', counts['valid'],
                counts['model'], '-0.9..0.9' if thorough else '-0.5/0.1/0.5', counts['ucp'], counts['mm'],
                'the grid {-2,-1,-0.5,0,0.5,1,2} (2 variables) / {-1,-0.5,0,0.5,1,2} (3 variables)' if thorough else '{-1,0,0.5,2}',
                counts['modelpart']))
    return col.result(bound)


def bounded_rv_numeric_replay(rp):
    case = rp['case']
    kind = case['input']['kind']
    fails = NUM_KINDS[kind][0](case['input']['inp'])
    for fid, clause, detail in fails:
        if clause == case['clause'] and fid == case['fid']:
            return (False, detail)
    return (True, 'ok')
