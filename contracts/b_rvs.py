"""Bounded contract checks for C11 (random-effect algebra keeps names, variances and a valid covariance).

Pure Python, runs under /venv/bin/python (cwd=/verif, PYTHONPATH=/verif).  No z3, no randomness.
Every check evaluates a contract taken from the property statement / documentation on the REAL
pharmpy function over an exhaustively enumerated finite domain and compares with an independent
reference written in this file.

    bounded_rv_algebra(tier)   RandomVariables join/unjoin/__getitem__/subs/+/selections,
                               JointNormalDistribution.__getitem__, covariance_matrix
    bounded_rv_numeric(tier)   nearest_positive_semidefinite, is_positive_semidefinite, cov2corr/corr2cov,
                               parameters_sdcorr, validate/nearest_valid_parameters, Model initial
                               estimates, ucp scale, modeling/math.py matrix conversions

Reference model of a collection of distributions (independent of pharmpy):
    ref = {'blocks': [(name, ...), ...]      ordered partition of the names into distributions
           'level':  {name: level}
           'mean':   {name: entry}
           'cov':    {(a, b): entry}          for all a, b of one block (both orders, a == b: variance)}
entries are canonical strings (symbol name, or repr of a float rounded to 10 digits).
"""
import itertools
import json
import math
import multiprocessing
import warnings

warnings.filterwarnings('ignore')

NPROC = 16

_RV = 'src/pharmpy/model/random_variables.py:RandomVariables.'
FID_UNJOIN = _RV + 'unjoin'
FID_JOIN = _RV + 'join'
FID_GETITEM = _RV + '__getitem__'
FID_SUBS = _RV + 'subs'
FID_ADD = _RV + '__add__'
FID_RADD = _RV + '__radd__'
FID_COVM = _RV + '_calc_covariance_matrix'
FID_SEL = {w: _RV + w for w in ('etas', 'epsilons', 'iiv', 'iov')}
FID_JGET = 'src/pharmpy/model/distributions/symbolic.py:JointNormalDistribution.__getitem__'

LEVELS = ('IIV', 'IOV', 'RUV')
VARIANTS = ('distinct', 'shared', 'numeric')
ZERO = '0.0'


# ------------------------------------------------------------------------------------------------
# generic helpers
# ------------------------------------------------------------------------------------------------

class _Collector:
    """keeps, per (fid, clause), the smallest failing input (smallest = lowest enumeration order)"""

    def __init__(self):
        self.cases = 0
        self.nontrivial = 0
        self.fails = {}
        self.samples = []

    def fail(self, order, fid, clause, detail, case, replay_fn):
        key = (fid, clause)
        cur = self.fails.get(key)
        if cur is None or order < cur[0]:
            self.fails[key] = (order, {
                'fid': fid, 'clause': clause, 'detail': str(detail)[:700],
                'case': {'clause': clause, 'fid': fid, 'input': case},
                'replay_fn': replay_fn})

    def merge(self, other):
        self.cases += other['cases']
        self.nontrivial += other['nontrivial']
        for key, (order, f) in other['fails'].items():
            cur = self.fails.get(key)
            if cur is None or order < cur[0]:
                self.fails[key] = (order, f)
        for s in other['samples']:
            if len(self.samples) < 3 and s not in self.samples:
                self.samples.append(s)

    def export(self):
        return {'cases': self.cases, 'nontrivial': self.nontrivial, 'fails': self.fails,
                'samples': self.samples}

    def result(self, bound):
        fails = [f for _, (o, f) in sorted(self.fails.items(), key=lambda kv: (kv[1][0], kv[0]))]
        return {'cases': self.cases, 'nontrivial': self.nontrivial, 'bound': bound,
                'samples': self.samples[:3], 'fails': fails}


def _pool_map(fn, tasks):
    if len(tasks) <= 1:
        return [fn(t) for t in tasks]
    ctx = multiprocessing.get_context('fork')
    with ctx.Pool(min(NPROC, len(tasks))) as pool:
        return pool.map(fn, tasks, chunksize=1)


_CCACHE = {}


def _c(x):
    """canonical string of an entry (pharmpy Expr, number or str)"""
    if isinstance(x, str):
        s = x
    else:
        try:
            return _CCACHE[x]
        except (KeyError, TypeError):
            pass
        s = str(x)
    try:
        f = float(s)
        r = repr(round(f, 10) + 0.0)
    except (TypeError, ValueError):
        r = s
    if not isinstance(x, str):
        try:
            if len(_CCACHE) < 100000:
                _CCACHE[x] = r
        except TypeError:
            pass
    return r


def _isnum(s):
    try:
        float(s)
        return True
    except ValueError:
        return False


def _subsets(names, minsize=1):
    names = list(names)
    for r in range(minsize, len(names) + 1):
        for comb in itertools.combinations(names, r):
            yield list(comb)


# ================================================================================================
# (1) random variable algebra
# ================================================================================================

def _compositions(n, maxpart=3):
    if n == 0:
        yield ()
        return
    for first in range(1, min(maxpart, n) + 1):
        for rest in _compositions(n - first, maxpart):
            yield (first,) + rest


def _collections(nmin, nmax, all_levels=True):
    for n in range(nmin, nmax + 1):
        for comp in _compositions(n):
            levs = itertools.product(LEVELS, repeat=len(comp)) if all_levels else [('IIV',) * len(comp)]
            for levels in levs:
                for variant in VARIANTS:
                    yield {'variant': variant, 'blocks': [[s, lv] for s, lv in zip(comp, levels)]}


def _entry(variant, level, size, gi, gj, a, b):
    """the covariance entry put at local position (a, b) of a block (global variable numbers gi, gj)"""
    lo, hi = (gi, gj) if gi <= gj else (gj, gi)
    la, lb = (a, b) if a <= b else (b, a)
    if variant == 'distinct':
        return 'OM_%d_%d' % (lo + 1, hi + 1)
    if variant == 'shared':
        if size == 1:
            return 'OMS_%s' % level
        return 'OMB%d_%s_%d_%d' % (size, level, la + 1, lb + 1)
    # numeric
    if lo == hi:
        return float(lo + 1)
    if size == 3 and (la, lb) == (0, 2):
        return 0.0
    return round(0.1 * (lo + 1) + 0.01 * (hi + 1), 10)


def _mean_entry(variant, gi):
    return round(0.5 * (gi + 1), 10) if variant == 'numeric' else 0


def _build(desc):
    """build the real RandomVariables and, independently, the reference for a collection description"""
    from pharmpy.basic import Expr
    from pharmpy.model import JointNormalDistribution, NormalDistribution, RandomVariables

    def ex(v):
        return Expr.symbol(v) if isinstance(v, str) else v

    variant = desc['variant']
    dists = []
    ref = {'blocks': [], 'level': {}, 'mean': {}, 'cov': {}}
    g = 0
    for size, level in desc['blocks']:
        names = ['X%d' % (g + k + 1) for k in range(size)]
        means = [_mean_entry(variant, g + k) for k in range(size)]
        mat = [[_entry(variant, level, size, g + a, g + b, a, b) for b in range(size)] for a in range(size)]
        if size == 1:
            dists.append(NormalDistribution.create(names[0], level, means[0], ex(mat[0][0])))
        else:
            dists.append(JointNormalDistribution.create(names, level, means, [[ex(v) for v in row] for row in mat]))
        ref['blocks'].append(tuple(names))
        for a, na in enumerate(names):
            ref['level'][na] = level
            ref['mean'][na] = _c(means[a])
            for b, nb in enumerate(names):
                ref['cov'][(na, nb)] = _c(mat[a][b])
        g += size
    return RandomVariables.create(dists), ref


class _Bad(Exception):
    pass


def _extract(rvs):
    """read a RandomVariables back into the reference representation (plus the distribution kinds)"""
    from pharmpy.model import JointNormalDistribution, NormalDistribution

    ref = {'blocks': [], 'level': {}, 'mean': {}, 'cov': {}, 'kinds': []}
    for d in [rvs[i] for i in range(len(rvs))]:
        names = tuple(d.names)
        ref['blocks'].append(names)
        if isinstance(d, NormalDistribution):
            ref['kinds'].append('N')
            if len(names) != 1:
                raise _Bad('NormalDistribution with names %r' % (names,))
            ref['mean'][names[0]] = _c(d.mean)
            ref['cov'][(names[0], names[0])] = _c(d.variance)
            ref['level'][names[0]] = d.level
        elif isinstance(d, JointNormalDistribution):
            ref['kinds'].append('J')
            v, m = d.variance, d.mean
            if v.rows != len(names) or v.cols != len(names) or m.rows != len(names):
                raise _Bad('JointNormalDistribution %r has a %dx%d variance and %d means'
                           % (names, v.rows, v.cols, m.rows))
            for a, na in enumerate(names):
                ref['level'][na] = d.level
                ref['mean'][na] = _c(m[a, 0])
                for b, nb in enumerate(names):
                    ref['cov'][(na, nb)] = _c(v[a, b])
        else:
            raise _Bad('distribution of type %s' % type(d).__name__)
    return ref


def _plain(ref):
    return {k: ref[k] for k in ('blocks', 'level', 'mean', 'cov')}


def _names_of(ref):
    return [n for b in ref['blocks'] for n in b]


def _assemble(ref):
    """the block-diagonal composition of the distributions of ref, in order (independent reference)"""
    names = _names_of(ref)
    blk = {}
    for i, b in enumerate(ref['blocks']):
        for n in b:
            blk[n] = i
    return [[ref['cov'][(a, b)] if blk[a] == blk[b] else ZERO for b in names] for a in names]


def _matrix(m):
    return [[_c(m[i, j]) for j in range(m.cols)] for i in range(m.rows)]


def _symbols_of(ref):
    s = set()
    for v in list(ref['cov'].values()) + list(ref['mean'].values()):
        if not _isnum(v):
            s.add(v)
    return s


def _block_of(ref):
    d = {}
    for i, b in enumerate(ref['blocks']):
        for n in b:
            d[n] = i
    return d


def _check_structure(fails, fid, opname, R, refin, exp_blocks, ordered, expcov, expmean=None, explevel=None,
                     names_clause=None):
    """clauses common to every operation that returns a RandomVariables.

    exp_blocks: expected distributions (tuples of names); ordered: compare as list, else as set
    expcov(a, b): expected entry for two variables of one result distribution
    returns the extracted reference of R (or None)"""
    from pharmpy.basic import Expr
    from pharmpy.model import RandomVariables

    def add(clause, detail):
        fails.append((fid, clause, detail))

    if not isinstance(R, RandomVariables):
        add(opname + ': result is a RandomVariables', 'got %s' % type(R).__name__)
        return None
    try:
        got = _extract(R)
    except _Bad as e:
        add(opname + ': result consists of NormalDistribution singletons and JointNormalDistribution blocks '
            'with consistent dimensions', str(e))
        return None
    names = _names_of(got)
    exp_names = [n for b in exp_blocks for n in b]
    if len(set(names)) != len(names) or set(names) != set(exp_names):
        add(names_clause or (opname + ': the set of names is preserved, no name duplicated or lost'),
            'names %r, expected the set %r' % (names, sorted(exp_names)))
        return None
    for b, k in zip(got['blocks'], got['kinds']):
        if (len(b) == 1) != (k == 'N'):
            add(opname + ': result consists of NormalDistribution singletons and JointNormalDistribution blocks '
                'with consistent dimensions', 'distribution %r has kind %s' % (b, k))
    same = (got['blocks'] == list(exp_blocks)) if ordered else (
        set(got['blocks']) == set(exp_blocks) and len(got['blocks']) == len(exp_blocks))
    if not same:
        add(opname + ': the partition into distributions is the expected one (order inside each block kept)',
            'distributions %r, expected %r' % (got['blocks'], list(exp_blocks)))
    # levels, means
    for n in names:
        el = explevel(n) if explevel else refin['level'][n]
        if got['level'][n] != el:
            add(opname + ': variability level of every variable is preserved',
                '%s has level %s, expected %s' % (n, got['level'][n], el))
            break
    for n in names:
        em = expmean(n) if expmean else refin['mean'][n]
        if got['mean'][n] != em:
            add(opname + ': mean of every variable is preserved', '%s has mean %s, expected %s' % (n, got['mean'][n], em))
            break
    # variances and covariances of variables in one result block
    bad = None
    for b in got['blocks']:
        for x in b:
            for y in b:
                try:
                    e = expcov(x, y)
                except KeyError:
                    e = '<undefined: %s and %s were not in one input distribution>' % (x, y)
                if got['cov'][(x, y)] != e and bad is None:
                    bad = 'cov(%s,%s) = %s, expected %s' % (x, y, got['cov'][(x, y)], e)
    if bad:
        add(opname + ': every variance and every covariance between variables that stay in one block is preserved',
            bad)
    # covariance_matrix is the block-diagonal composition in order
    try:
        cm = _matrix(R.covariance_matrix)
    except Exception as e:   # noqa
        fails.append((FID_COVM, 'covariance_matrix: no internal error', '%s: %s' % (type(e).__name__, e)))
        cm = None
    if cm is not None and cm != _assemble(got):
        fails.append((FID_COVM, 'covariance_matrix is the block-diagonal composition of the distributions in order',
                      'after %s: covariance_matrix %r, composition of %r is %r' % (opname, cm, got['blocks'], _assemble(got))))
    # names / nrvs / len / get_covariance / parameters
    if list(R.names) != names or R.nrvs != len(names) or len(R) != len(got['blocks']):
        fails.append((_RV + 'names', 'names, nrvs and len agree with the distributions',
                      'names %r nrvs %r len %r for %r' % (R.names, R.nrvs, len(R), got['blocks'])))
    blk = _block_of(got)
    for x in names:
        for y in names:
            e = got['cov'][(x, y)] if blk[x] == blk[y] else ZERO
            try:
                g = _c(R.get_covariance(x, y))
            except Exception as ex:  # noqa
                g = '%s: %s' % (type(ex).__name__, ex)
            if g != e:
                fails.append((_RV + 'get_covariance', 'get_covariance agrees with the block-diagonal composition',
                              'after %s: get_covariance(%s,%s) = %s, expected %s' % (opname, x, y, g, e)))
                break
        else:
            continue
        break
    syms = _symbols_of(got)
    try:
        pn = tuple(R.parameter_names)
        fs = set(str(s) for s in R.free_symbols)
    except Exception as ex:  # noqa
        fails.append((_RV + 'parameter_names', 'parameter_names / free_symbols: no internal error',
                      '%s: %s' % (type(ex).__name__, ex)))
    else:
        if pn != tuple(sorted(syms)):
            fails.append((_RV + 'parameter_names', 'parameter_names are exactly the symbols of the means and covariances',
                          'after %s: %r, expected %r' % (opname, pn, tuple(sorted(syms)))))
        if fs != syms | set(names):
            fails.append((_RV + 'free_symbols', 'free_symbols are the parameter symbols plus the variable names',
                          'after %s: %r, expected %r' % (opname, sorted(fs), sorted(syms | set(names)))))
    diag = [got['cov'][(n, n)] for n in names]
    if all(not _isnum(v) for v in diag):
        expvp = []
        for v in diag:
            if v not in expvp:
                expvp.append(v)
        try:
            vp = list(R.variance_parameters)
        except Exception as ex:  # noqa
            vp = '%s: %s' % (type(ex).__name__, ex)
        if vp != expvp:
            fails.append((_RV + 'variance_parameters', 'variance_parameters are the distinct diagonal symbols in order',
                          'after %s: %r, expected %r' % (opname, vp, expvp)))
    for n in names:
        if n not in R or Expr.symbol(n) not in R:
            fails.append((_RV + '__contains__', 'every name of the collection is contained in it', n))
            break
    return got


def _keep_cov(refin):
    return lambda a, b: refin['cov'][(a, b)]


# ---- the operations ---------------------------------------------------------------------------

def _as_form(S, form):
    from pharmpy.basic import Expr
    if form == 'list':
        return list(S)
    if form == 'rev':
        return list(reversed(S))
    if form == 'tuple':
        return tuple(S)
    if form == 'set':
        return set(S)
    if form == 'symlist':
        return [Expr.symbol(n) for n in S]
    if form == 'str':
        assert len(S) == 1
        return S[0]
    if form == 'sym':
        assert len(S) == 1
        return Expr.symbol(S[0])
    raise AssertionError(form)


def _op_unjoin(rvs, ref, op, fails):
    S = op['S']
    R = rvs.unjoin(_as_form(S, op['form']))
    exp_blocks = []
    for b in ref['blocks']:
        kept = tuple(n for n in b if n not in S)
        for n in b:
            if n in S:
                exp_blocks.append((n,))
        if kept:
            exp_blocks.append(kept)
    got = _check_structure(fails, FID_UNJOIN, 'unjoin', R, ref, exp_blocks, False, _keep_cov(ref))
    if got is None:
        return R
    names_in = _names_of(ref)
    names = _names_of(got)
    # order clauses
    if [n for n in names if n in S] != [n for n in names_in if n in S] or \
            [n for n in names if n not in S] != [n for n in names_in if n not in S]:
        fails.append((FID_UNJOIN, 'unjoin: unjoined variables keep their relative order and so do the others',
                      'unjoin(%r) of %r gives names %r' % (S, ref['blocks'], names)))
    blk = _block_of(ref)
    if [blk[n] for n in names] != sorted(blk[n] for n in names):
        fails.append((FID_UNJOIN, 'unjoin: variables of different input distributions keep the order of those distributions',
                      'unjoin(%r) of %r gives names %r' % (S, ref['blocks'], names)))
    for b in ref['blocks']:
        kept_pos = [i for i, n in enumerate(b) if n not in S]
        needed = any(n in S and kept_pos and kept_pos[0] < i < kept_pos[-1] for i, n in enumerate(b))
        if not needed and [n for n in names if n in b] != list(b):
            fails.append((FID_UNJOIN, 'unjoin: the order of names changes only where needed to keep the remaining joint block contiguous',
                          'unjoin(%r) of %r gives names %r although %r needs no reordering' % (S, ref['blocks'], names, b)))
            break
    return R


JOIN_TEMPLATE = 'C_{}_{}'


def _op_join(rvs, ref, op, fails):
    from pharmpy.basic import Expr
    S = op['S']
    names_in = _names_of(ref)
    Sord = [n for n in names_in if n in S]
    mode = op['mode']
    pnames = ['P' + n for n in Sord]
    arg = _as_form(Sord, op.get('form', 'list'))
    if mode == 'fill0':
        R, c2p = rvs.join(arg)
    elif mode == 'fillF':
        R, c2p = rvs.join(arg, fill=Expr.symbol('F'))
    elif mode == 'fillnum':
        R, c2p = rvs.join(arg, fill=0.25)
    elif mode == 'template':
        R, c2p = rvs.join(arg, name_template=JOIN_TEMPLATE, param_names=list(pnames))
    else:
        raise AssertionError(mode)
    joined = tuple(Sord)
    exp_blocks = [joined]
    for b in ref['blocks']:
        kept = tuple(n for n in b if n not in S)
        if kept:
            exp_blocks.append(kept)
    blk = _block_of(ref)
    exp_c2p = {}

    def fillvalue(a, b):
        if mode == 'fill0':
            return ZERO
        if mode == 'fillF':
            return 'F'
        if mode == 'fillnum':
            return _c(0.25)
        i, j = sorted((Sord.index(a), Sord.index(b)))
        return JOIN_TEMPLATE.format(pnames[i], pnames[j])

    def expcov(a, b):
        if a == b or not (a in S and b in S):
            return ref['cov'][(a, b)]
        if blk[a] == blk[b] and ref['cov'][(a, b)] != ZERO:
            return ref['cov'][(a, b)]
        return fillvalue(a, b)

    if mode == 'template':
        for i, a in enumerate(Sord):
            for b in Sord[i + 1:]:
                if not (blk[a] == blk[b] and ref['cov'][(a, b)] != ZERO):
                    exp_c2p[fillvalue(a, b)] = tuple(sorted((ref['cov'][(a, a)], ref['cov'][(b, b)])))
    got = _check_structure(fails, FID_JOIN, 'join', R, ref, exp_blocks, False, expcov)
    try:
        got_c2p = {str(k): tuple(sorted(_c(x) for x in v)) for k, v in dict(c2p).items()}
    except Exception as e:  # noqa
        got_c2p = '%s: %s' % (type(e).__name__, e)
    if got_c2p != exp_c2p:
        fails.append((FID_JOIN, 'join: the returned dictionary maps exactly the new covariance symbols to the variance parameters of their two variables',
                      'join(%r, %s) of %r returns %r, expected %r' % (Sord, mode, ref['blocks'], got_c2p, exp_c2p)))
    if got is None:
        return R
    names = _names_of(got)
    if [n for n in names if n not in S] != [n for n in names_in if n not in S]:
        fails.append((FID_JOIN, 'join: variables outside the joined block keep their relative order',
                      'join(%r) of %r gives names %r' % (Sord, ref['blocks'], names)))
    if joined in got['blocks']:
        f = Sord[0]
        P = names_in[:names_in.index(f)]
        B = ref['blocks'][blk[f]]
        before = [n for n in B[:B.index(f)] if n not in S]
        after = [n for n in B[B.index(f) + 1:] if n not in S]
        allowed = [P]
        if before and after:
            allowed = [[n for n in P if n not in before], P + after]
        pre = names[:names.index(f)]
        if pre not in allowed:
            fails.append((FID_JOIN, 'join: the joined block sits at the position of the first joined variable',
                          'join(%r) of %r gives names %r: %r precede the joined block, expected %s'
                          % (Sord, ref['blocks'], names, pre, ' or '.join(repr(a) for a in allowed))))
    return R


def _op_getitem(rvs, ref, op, fails):
    from pharmpy.basic import Expr
    from pharmpy.model import RandomVariables
    kind = op['op']
    k = len(ref['blocks'])
    if kind in ('getitem_int', 'getitem_str'):
        if kind == 'getitem_int':
            d = rvs[op['i']]
            expb = ref['blocks'][op['i']]
            what = 'rvs[%d]' % op['i']
        else:
            d = rvs[op['name'] if op['form'] == 'str' else Expr.symbol(op['name'])]
            expb = ref['blocks'][_block_of(ref)[op['name']]]
            what = 'rvs[%r]' % op['name']
        try:
            got = _extract(RandomVariables.create([d]))
        except Exception as e:  # noqa
            fails.append((FID_GETITEM, 'getitem: an int or a name selects the distribution at that place / containing that name',
                          '%s of %r: %s' % (what, ref['blocks'], e)))
            return None
        ok = got['blocks'] == [expb] and all(got['cov'][(a, b)] == ref['cov'][(a, b)] for a in expb for b in expb) \
            and all(got['mean'][a] == ref['mean'][a] and got['level'][a] == ref['level'][a] for a in expb)
        if not ok:
            fails.append((FID_GETITEM, 'getitem: an int or a name selects the distribution at that place / containing that name',
                          '%s of %r gives %r' % (what, ref['blocks'], got)))
        return None
    if kind == 'getitem_slice':
        start, stop, step = op['slice']
        R = rvs[slice(start, stop, step)]
        exp_blocks = ref['blocks'][slice(start, stop, step)]
        _check_structure(fails, FID_GETITEM, 'getitem(slice)', R, ref, exp_blocks, True, _keep_cov(ref),
                         names_clause='getitem: the result has exactly the requested names')
        return R
    # list of names
    S = op['S']
    R = rvs[_as_form([n for n in _names_of(ref) if n in S], op['form'])]
    exp_blocks = []
    for b in ref['blocks']:
        kept = tuple(n for n in b if n in S)
        if kept:
            exp_blocks.append(kept)
    got = _check_structure(fails, FID_GETITEM, 'getitem(names)', R, ref, exp_blocks, True, _keep_cov(ref),
                           names_clause='getitem: the result has exactly the requested names')
    if got is not None and _names_of(got) != [n for n in _names_of(ref) if n in S]:
        fails.append((FID_GETITEM, 'getitem: selected variables keep their relative order',
                      'rvs[%r] of %r gives names %r' % (S, ref['blocks'], _names_of(got))))
    del k
    return R


def _op_subs(rvs, ref, op, fails):
    from pharmpy.basic import Expr
    kind = op['kind']
    mp = op['map']            # list of [old, new] with new a str (symbol) or a number
    if kind.startswith('rv') and kind.endswith('str'):
        d = {o: n for o, n in mp}
    else:
        d = {Expr.symbol(o): (Expr.symbol(n) if isinstance(n, str) else n) for o, n in mp}
    R = rvs.subs(d)
    m = {o: (n if isinstance(n, str) else _c(n)) for o, n in mp}

    def s(v):
        return m.get(v, v)

    exp_blocks = [tuple(s(n) for n in b) for b in ref['blocks']]
    inv = {s(n): n for n in _names_of(ref)}
    _check_structure(fails, FID_SUBS, 'subs', R, ref, exp_blocks, True,
                     lambda a, b: s(ref['cov'][(inv[a], inv[b])]),
                     expmean=lambda n: s(ref['mean'][inv[n]]), explevel=lambda n: ref['level'][inv[n]],
                     names_clause='subs: the names are preserved (renamed exactly as requested)')
    return R


def _op_add(rvs, ref, op, fails):
    from pharmpy.model import RandomVariables
    dists = [rvs[i] for i in range(len(rvs))]
    p = op['split']
    form = op['form']
    A = RandomVariables.create(dists[:p])
    B = RandomVariables.create(dists[p:])
    fid = FID_ADD
    if form == 'rvs':
        R = A + B
    elif form == 'dist':
        R = A + dists[p]
    elif form == 'list':
        R = A + list(dists[p:])
    elif form == 'rdist':
        R = dists[0] + B
        fid = FID_RADD
    elif form == 'rlist':
        R = list(dists[:p]) + B
        fid = FID_RADD
    elif form == 'dup':
        try:
            R = rvs + B
        except ValueError:
            return None
        fails.append((FID_ADD, 'add: a name that occurs twice is rejected with ValueError',
                      '%r + %r gives names %r' % (ref['blocks'], ref['blocks'][p:], getattr(R, 'names', R))))
        return None
    else:
        raise AssertionError(form)
    _check_structure(fails, fid, 'add', R, ref, list(ref['blocks']), True, _keep_cov(ref))
    return R


def _op_select(rvs, ref, op, fails):
    which = op['which']
    R = getattr(rvs, which)
    want = {'etas': ('IIV', 'IOV'), 'epsilons': ('RUV',), 'iiv': ('IIV',), 'iov': ('IOV',)}[which]
    exp_blocks = [b for b in ref['blocks'] if ref['level'][b[0]] in want]
    _check_structure(fails, FID_SEL[which], which, R, ref, exp_blocks, True, _keep_cov(ref),
                     names_clause=which + ': exactly the variables of the requested levels are selected')
    return R


def _op_jget(rvs, ref, op, fails):
    """JointNormalDistribution.__getitem__ on distribution number op['block']"""
    from pharmpy.model import JointNormalDistribution, NormalDistribution, RandomVariables
    b = ref['blocks'][op['block']]
    d = rvs[op['block']]
    assert isinstance(d, JointNormalDistribution)
    idx = op['index']
    kind = op['kind']
    if kind == 'int':
        arg, exp = idx, ([b[idx]] if -len(b) <= idx < len(b) else IndexError)
    elif kind == 'str':
        arg, exp = idx, ([idx] if idx in b else KeyError)
    elif kind == 'slice':
        arg = slice(*idx)
        exp = list(b[arg])
    else:
        arg = _as_form([n for n in b if n in idx], kind)
        exp = [n for n in b if n in idx]
    what = '%r[%r]' % (b, arg)
    try:
        r = d[arg]
    except Exception as e:  # noqa
        if isinstance(exp, type) and isinstance(e, exp):
            return None
        fails.append((FID_JGET, 'JointNormalDistribution getitem: no internal error for int, name, slice and name collection indices',
                      '%s raises %s: %s' % (what, type(e).__name__, e)))
        return None
    if isinstance(exp, type):
        fails.append((FID_JGET, 'JointNormalDistribution getitem: an index out of range or an unknown name is rejected',
                      '%s gives %r' % (what, getattr(r, 'names', r))))
        return None
    try:
        got = _extract(RandomVariables.create([r]))
    except Exception as e:  # noqa
        fails.append((FID_JGET, 'JointNormalDistribution getitem: result is a consistent distribution', '%s: %s' % (what, e)))
        return None
    if got['blocks'] != [tuple(exp)]:
        fails.append((FID_JGET, 'JointNormalDistribution getitem: the result has exactly the requested names in block order',
                      '%s gives names %r, expected %r' % (what, got['blocks'], exp)))
        return None
    if (len(exp) == 1) != isinstance(r, NormalDistribution):
        fails.append((FID_JGET, 'JointNormalDistribution getitem: one name gives a NormalDistribution, several a JointNormalDistribution',
                      '%s gives a %s' % (what, type(r).__name__)))
    for x in exp:
        for y in exp:
            if got['cov'][(x, y)] != ref['cov'][(x, y)]:
                fails.append((FID_JGET, 'JointNormalDistribution getitem: variances and covariances of the selected variables are preserved',
                              '%s: cov(%s,%s) = %s, expected %s' % (what, x, y, got['cov'][(x, y)], ref['cov'][(x, y)])))
                return None
        if got['mean'][x] != ref['mean'][x] or got['level'][x] != ref['level'][x]:
            fails.append((FID_JGET, 'JointNormalDistribution getitem: mean and level of the selected variables are preserved',
                          '%s: %s has mean %s level %s' % (what, x, got['mean'][x], got['level'][x])))
            return None
    return None


_OPS = {'unjoin': (_op_unjoin, FID_UNJOIN), 'join': (_op_join, FID_JOIN),
        'getitem_int': (_op_getitem, FID_GETITEM), 'getitem_str': (_op_getitem, FID_GETITEM),
        'getitem_slice': (_op_getitem, FID_GETITEM), 'getitem_list': (_op_getitem, FID_GETITEM),
        'subs': (_op_subs, FID_SUBS), 'add': (_op_add, FID_ADD), 'select': (_op_select, None),
        'jget': (_op_jget, FID_JGET)}


def _run_op(rvs, ref, op):
    """run one operation on the real object and evaluate its contract; returns (fails, result)"""
    fn, fid = _OPS[op['op']]
    if fid is None:
        fid = FID_SEL[op['which']]
    if op['op'] == 'add' and op.get('form') in ('rdist', 'rlist'):
        fid = FID_RADD
    fails = []
    R = None
    try:
        R = fn(rvs, ref, op, fails)
    except Exception as e:  # noqa
        import traceback
        tb = traceback.extract_tb(e.__traceback__)[-1]
        fails.append((fid, op['op'].split('_')[0] + ': no internal error',
                      '%s: %s (%s:%s) for %s on %r' % (type(e).__name__, e, tb.filename.split('/')[-1], tb.lineno,
                                                        json.dumps(op), ref['blocks'])))
    # the input must not have been modified
    try:
        now = _plain(_extract(rvs))
    except Exception as e:  # noqa
        now = str(e)
    if now != _plain(ref):
        fails.append((fid, op['op'].split('_')[0] + ': the input RandomVariables is not modified',
                      'after %s the input reads %r' % (json.dumps(op), now)))
    return fails, R


def _ops_for(ref, what='all'):
    """enumerate the operation descriptors for a collection; what: 'all' | 'first' | 'second'"""
    names = _names_of(ref)
    k = len(ref['blocks'])
    numeric = all(_isnum(v) for v in ref['cov'].values())
    # unjoin
    for S in _subsets(names):
        yield {'op': 'unjoin', 'S': S, 'form': 'list'}
        if what == 'all':
            yield {'op': 'unjoin', 'S': S, 'form': 'symlist'}
            if len(S) == 1:
                yield {'op': 'unjoin', 'S': S, 'form': 'str'}
                yield {'op': 'unjoin', 'S': S, 'form': 'sym'}
    # join (precondition: at least two variables, all of one level)
    for S in _subsets(names, 2):
        if len(set(ref['level'][n] for n in S)) != 1:
            continue
        modes = ('fill0', 'template') if what != 'all' else ('fill0', 'fillF', 'fillnum', 'template')
        for mode in modes:
            yield {'op': 'join', 'S': S, 'mode': mode}
        if what == 'all':
            yield {'op': 'join', 'S': S, 'mode': 'fill0', 'form': 'rev'}
            yield {'op': 'join', 'S': S, 'mode': 'template', 'form': 'tuple'}
    # getitem by list of names
    for S in _subsets(names):
        for form in (('list',) if what != 'all' else ('list', 'rev', 'set', 'tuple', 'symlist')):
            yield {'op': 'getitem_list', 'S': S, 'form': form}
    if what == 'first':
        return
    if what == 'second':
        syms = sorted(_symbols_of(ref))
        if syms:
            yield {'op': 'subs', 'kind': 'param_all', 'map': [[s, 'N_' + s] for s in syms]}
        for p in range(0, k + 1):
            yield {'op': 'add', 'split': p, 'form': 'rvs'}
        for which in ('etas', 'epsilons', 'iiv', 'iov'):
            yield {'op': 'select', 'which': which}
        return
    for i in range(-k, k):
        yield {'op': 'getitem_int', 'i': i}
    for n in names:
        yield {'op': 'getitem_str', 'name': n, 'form': 'str'}
        yield {'op': 'getitem_str', 'name': n, 'form': 'sym'}
    ends = [None] + list(range(0, k + 1))
    for start in ends:
        for stop in ends:
            yield {'op': 'getitem_slice', 'slice': [start, stop, None]}
    if k:
        for sl in ([None, None, 2], [1, None, 2], [None, None, -1], [-1, None, None], [None, -1, None], [-2, -1, None]):
            yield {'op': 'getitem_slice', 'slice': sl}
    # subs
    syms = sorted(_symbols_of(ref))
    for s in syms:
        yield {'op': 'subs', 'kind': 'param_one', 'map': [[s, 'NEW']]}
    if syms:
        yield {'op': 'subs', 'kind': 'param_all', 'map': [[s, 'N_' + s] for s in syms]}
        yield {'op': 'subs', 'kind': 'param_num', 'map': [[syms[0], 2]]}
        yield {'op': 'subs', 'kind': 'param_num', 'map': [[syms[-1], 0.5]]}
    for n in names:
        yield {'op': 'subs', 'kind': 'rv_str', 'map': [[n, 'Z']]}
        yield {'op': 'subs', 'kind': 'rv_sym', 'map': [[n, 'Z']]}
    if names:
        yield {'op': 'subs', 'kind': 'rv_sym', 'map': [[n, 'Z' + n] for n in names]}
    # + (every split of the collection into a left and a right collection)
    for p in range(0, k + 1):
        yield {'op': 'add', 'split': p, 'form': 'rvs'}
        yield {'op': 'add', 'split': p, 'form': 'list'}
        yield {'op': 'add', 'split': p, 'form': 'rlist'}
        if p == k - 1:
            yield {'op': 'add', 'split': p, 'form': 'dist'}
        if p == 1:
            yield {'op': 'add', 'split': p, 'form': 'rdist'}
        if p < k:
            yield {'op': 'add', 'split': p, 'form': 'dup'}
    for which in ('etas', 'epsilons', 'iiv', 'iov'):
        yield {'op': 'select', 'which': which}
    # JointNormalDistribution.__getitem__
    if what == 'all':
        for bi, b in enumerate(ref['blocks']):
            if len(b) < 2:
                continue
            s = len(b)
            for i in range(-s - 1, s + 1):
                yield {'op': 'jget', 'block': bi, 'kind': 'int', 'index': i}
            for n in list(b) + ['NOPE']:
                yield {'op': 'jget', 'block': bi, 'kind': 'str', 'index': n}
            for a in range(0, s):
                for e in range(a + 1, s + 1):
                    yield {'op': 'jget', 'block': bi, 'kind': 'slice', 'index': [a, e, None]}
            yield {'op': 'jget', 'block': bi, 'kind': 'slice', 'index': [0, s, 2]}
            yield {'op': 'jget', 'block': bi, 'kind': 'slice', 'index': [None, s - 1, None]}
            yield {'op': 'jget', 'block': bi, 'kind': 'slice', 'index': [1, None, None]}
            for S in _subsets(b):
                for form in ('list', 'rev', 'set', 'tuple'):
                    yield {'op': 'jget', 'block': bi, 'kind': form, 'index': S}
    del numeric


def _alg_cases(desc, part):
    """yield (pre, op, rvs, ref) for one unit: part None = every single operation on the collection,
    part (j, J) = the two-operation sequences whose first operation has index j modulo J"""
    rvs, ref = _build(desc)
    if part is None:
        for op in _ops_for(ref, 'all'):
            yield [], op, rvs, ref
        return
    j, J = part
    for i1, op1 in enumerate(_ops_for(ref, 'first')):
        if i1 % J != j:
            continue
        try:
            _, R1 = _run_op(rvs, ref, op1)
            ref1 = _plain(_extract(R1))
        except Exception:  # noqa  (reported by the single-operation case of op1)
            continue
        for op2 in _ops_for(ref1, 'second'):
            yield [op1], op2, R1, ref1


def _alg_unit(arg):
    ui, desc, part = arg
    col = _Collector()
    for ci, (pre, op, rvs, ref) in enumerate(_alg_cases(desc, part)):
        col.cases += 1
        fails, R = _run_op(rvs, ref, op)
        if not (op['op'] == 'add' and op['form'] == 'dup'):
            col.nontrivial += 1
        if len(col.samples) < 3 and ci in (5, 40):
            col.samples.append('%s %r: %s' % (desc['variant'], ref['blocks'], json.dumps(op)))
        for fid, clause, detail in fails:
            col.fail((len(pre), len(_names_of(ref)), ui, ci), fid, clause, detail,
                     {'coll': desc, 'pre': pre, 'op': op}, 'bounded_rv_algebra_replay')
    return col.export()


def _alg_worker(task):
    col = _Collector()
    for unit in task:
        col.merge(_alg_unit(unit))
    return col.export()


def _alg_bounds(tier):
    return (5, 4, 5) if tier == 'thorough' else (4, 3, 4)


def _alg_units(tier):
    """list of (index, collection description, part)"""
    n1, n2full, n2iiv = _alg_bounds(tier)
    units = []
    for desc in _collections(0, n1):
        n = sum(s for s, _ in desc['blocks'])
        units.append((len(units), desc, None))
        d2 = n <= n2full or (n <= n2iiv and all(lv == 'IIV' for _, lv in desc['blocks']))
        if d2:
            J = 1 if n <= 2 else (4 if n == 3 else 16)
            for j in range(J):
                units.append((len(units), desc, (j, J)))
    return units


def bounded_rv_algebra(tier):
    import pharmpy.model  # noqa: F401  (import before forking)
    units = _alg_units(tier)
    n1, n2full, n2iiv = _alg_bounds(tier)
    # many small interleaved tasks so that the expensive units are spread over the workers
    nt = NPROC * 8
    tasks = [units[c::nt] for c in range(nt) if units[c::nt]]
    col = _Collector()
    for part in _pool_map(_alg_worker, tasks):
        col.merge(part)
    bound = ('all collections of <= %d variables split in every way into NormalDistribution singletons and '
             'JointNormalDistribution blocks of size 2-3, every level assignment IIV/IOV/RUV per distribution, 3 entry variants '
             '(distinct symbols, parameters shared by equal-sized distributions of one level, numeric with a zero covariance); '
             'every operation: unjoin(every non-empty name subset), join(every same-level subset of >= 2 names; fill 0 / symbol / 0.25 / '
             'name_template), getitem(int, name, symbol, slice, every name subset as list/reversed/set/tuple/symbols), subs(each parameter, '
             'all parameters, parameter->number, variable renames), + (every split into two collections, list/dist/radd forms, duplicate), '
             'etas/epsilons/iiv/iov, JointNormalDistribution getitem(int/name/slice/name subsets); two-operation sequences '
             '(unjoin|join|getitem by names, then unjoin|join|getitem by names|subs|+|selections) for all collections of <= %d variables and the all-IIV '
             'collections of <= %d variables' % (n1, n2full, n2iiv))
    return col.result(bound)


def bounded_rv_algebra_replay(rp):
    case = rp['case']
    inp = case['input']
    rvs, ref = _build(inp['coll'])
    for op1 in inp.get('pre', []):
        _, rvs = _run_op(rvs, ref, op1)
        ref = _plain(_extract(rvs))
    fails, _ = _run_op(rvs, ref, inp['op'])
    for fid, clause, detail in fails:
        if clause == case['clause'] and fid == case['fid']:
            return (False, detail)
    return (True, 'ok')
