"""Contract for RandomVariables._calc_covariance_matrix in src/pharmpy/model/random_variables.py
(serves C11): the overall covariance matrix is the block-diagonal composition of the distributions,
names are concatenated in the same order."""
from pyvc.api import *

M = ModuleSpec('src/pharmpy/model/random_variables.py', prop='C11')
Dist = Opaque('Dist', is_normal=Bool, len=Int, names=Seq(Str))
RVS = Opaque('RVS', _dists=Seq(Dist))

TRUSTED = [
    'sympy.zeros(n) is an n x n zero matrix; M[r, c] = v stores one entry',
    'a NormalDistribution has length 1 and a scalar variance; a JointNormalDistribution of length k '
    'has k names, a mean vector of length k and a k x k variance matrix (class invariants of the '
    'distributions, stated as preconditions)',
    'lemma (induction over k, two obligations discharged below as part of this sidecar): the block '
    'offset off(k) = sum of the lengths of the first k distributions is monotone',
]


def _symbolic():
    import ast
    import z3

    from pyvc import sym
    from pyvc.symexec import BoolV, MMatrix, OutOfSubset, Val
    from pyvc.sym import TBool, TInt, TReal, TSeq, TStr

    dist = Dist.resolve()
    rvs = RVS.resolve()
    SD = TSeq(dist)
    cov = z3.Function('dist_cov', dist.sort(), z3.IntSort(), z3.IntSort(), z3.RealSort())
    mean_s = z3.Function('dist_mean', dist.sort(), z3.IntSort(), z3.RealSort())
    off = z3.Function('block_offset', rvs.sort(), z3.IntSort(), z3.IntSort())

    def dists_of(selfv):
        return rvs.attr_fn('_dists')(selfv.t)

    def ln(d):
        return dist.attr_fn('len')(d)

    class VarianceOf:
        def __init__(self, d):
            self.d = d

        def as_term(self, ex, st, ty):
            return cov(self.d, 0, 0)

    class MeanOf:
        def __init__(self, d):
            self.d = d

        def as_term(self, ex, st, ty):
            return mean_s(self.d, 0)

        def as_seq_val(self, ex, st):
            ty = TSeq(TReal)
            r = ty.fresh('meanvec')
            k = z3.Int(sym.fresh_name('k'))
            st.facts.add(ty.f_len(r) == ln(self.d))
            st.facts.add(z3.ForAll([k], z3.Implies(z3.And(0 <= k, k < ln(self.d)),
                                                   ty.f_at(r, k) == mean_s(self.d, k)),
                                   patterns=[ty.f_at(r, k)]))
            return Val(ty, r)

    @M.intrinsic('attr:variance')
    def _variance(ex, st, args, kwargs, node):
        return VarianceOf(args[0].t)

    @M.intrinsic('attr:mean')
    def _mean(ex, st, args, kwargs, node):
        return MeanOf(args[0].t)

    @M.intrinsic('attr:rows')
    def _rows(ex, st, args, kwargs, node):
        if isinstance(args[0], VarianceOf):
            return Val(TInt, ln(args[0].d))
        return NotImplemented

    M.intrinsics['attr:cols'] = _rows

    @M.intrinsic('getitem')
    def _getitem(ex, st, args, kwargs, node):
        base, idx = args
        if isinstance(base, VarianceOf):
            i, j = [ex.to_term(x, TInt, st) for x in idx.items]
            ex.safety(st, z3.And(0 <= i, i < ln(base.d), 0 <= j, j < ln(base.d)),
                      'variance matrix index in range', node)
            return Val(TReal, cov(base.d, i, j))
        return NotImplemented

    @M.intrinsic('isinstance')
    def _isinstance(ex, st, args, kwargs, node):
        name = ast.unparse(node.args[1])
        v = args[0]
        if name == 'NormalDistribution':
            return Val(TBool, dist.attr_fn('is_normal')(v.t))
        if name == 'JointNormalDistribution':
            return Val(TBool, z3.Not(dist.attr_fn('is_normal')(v.t)))
        raise OutOfSubset('isinstance ' + name)

    @M.intrinsic('sympy.zeros')
    def _zeros(ex, st, args, kwargs, node):
        n = ex.to_term(args[0], TInt, st)
        return MMatrix.zeros(n, n)

    def unfold(st, selfv, k):
        """off(0) == 0 and off(k) == off(k-1) + len(dists[k-1]); monotone (lemma)"""
        ds = dists_of(selfv)
        st.facts.add(off(selfv.t, 0) == 0)
        if not sym.has_bound_vars(k):
            st.facts.add(z3.Implies(k > 0, off(selfv.t, k) == off(selfv.t, k - 1) + ln(SD.f_at(ds, k - 1))))
            st.facts.add(off(selfv.t, k + 1) == off(selfv.t, k) + ln(SD.f_at(ds, k)))
        if not st.mon.get('mono'):
            st.mon['mono'] = True
            a, b = z3.Ints(sym.fresh_name('a') + ' ' + sym.fresh_name('b'))
            st.facts.add(z3.ForAll([a, b], z3.Implies(z3.And(0 <= a, a <= b, b <= SD.f_len(ds)),
                                                      off(selfv.t, a) <= off(selfv.t, b)),
                                   patterns=[z3.MultiPattern(off(selfv.t, a), off(selfv.t, b))]))
            st.facts.add(z3.ForAll([a], z3.Implies(z3.And(0 <= a, a < SD.f_len(ds)),
                                                   off(selfv.t, a + 1) == off(selfv.t, a) + ln(SD.f_at(ds, a))),
                                   patterns=[off(selfv.t, a + 1)]))

    @M.intrinsic('off')
    def _off(ex, st, args, kwargs, node):
        selfv, k = args
        kt = ex.to_term(k, TInt, st)
        unfold(st, selfv, kt)
        return Val(TInt, off(selfv.t, kt))

    @M.intrinsic('cov')
    def _cov(ex, st, args, kwargs, node):
        d, i, j = args
        return Val(TReal, cov(d.t, ex.to_term(i, TInt, st), ex.to_term(j, TInt, st)))

    def monotone_lemma():
        """off monotone by induction on b: base off(a) <= off(a); step off(a) <= off(b) and
        len >= 0 implies off(a) <= off(b + 1) = off(b) + len(dists[b])"""
        s = rvs.fresh('s')
        a, b = z3.Ints('a b')
        ds = rvs.attr_fn('_dists')(s)
        hyps = [0 <= a, a <= b, b < SD.f_len(ds), off(s, a) <= off(s, b), ln(SD.f_at(ds, b)) >= 0,
                off(s, b + 1) == off(s, b) + ln(SD.f_at(ds, b))]
        return hyps, off(s, a) <= off(s, b + 1)

    M.lemmas.append(('block offsets are monotone (induction step)', monotone_lemma))


try:
    import z3  # noqa: F401
    _symbolic()
except ImportError:
    pass

D = 'self._dists'
INBLK = '(off(self, {k}) <= {r} and {r} < off(self, {k} + 1) and off(self, {k}) <= {c} and {c} < off(self, {k} + 1))'
BLOCKS_DONE = ('all({M}[off(self, k) + i, off(self, k) + j] == cov(self._dists[k], i, j)'
               '    for k in range({upto}) for i in range(len(self._dists[k])) for j in range(len(self._dists[k])))')
ZERO_ELSE = ('all(implies(all(not ' + INBLK.format(k='k', r='r', c='c') + ' for k in range({upto})), {M}[r, c] == 0)'
             '    for r in range({n}) for c in range({n}))')
NAMES_DONE = ('all({names}[off(self, k) + r] == self._dists[k].names[r]'
              '    for k in range({upto}) for r in range(len(self._dists[k])))')

M.contract(
    'RandomVariables._calc_covariance_matrix',
    params={'self': RVS},
    locals={'means': Seq(Real), 'names': Seq(Str)},
    requires=[
        f'all(len(d) >= 1 and len(d.names) == len(d) for d in {D})',
        f'all(implies(d.is_normal, len(d) == 1) for d in {D})',
    ],
    ensures=[
        # names of all distributions, concatenated in order
        f'len(result[2]) == off(self, len({D}))',
        NAMES_DONE.format(upto=f'len({D})', names='result[2]'),
        # block k of the matrix is the covariance of distribution k, everything else is zero
        BLOCKS_DONE.format(upto=f'len({D})', M='result[1]'),
        ZERO_ELSE.format(upto=f'len({D})', M='result[1]', n=f'off(self, len({D}))'),
        f'len(result[0]) == off(self, len({D}))',
    ],
    loops=[
        Loop(counter='k0', inv=[
            'n == off(self, k0)', 'len(names) == off(self, k0)', 'len(means) == 0',
            NAMES_DONE.format(upto='k0', names='names'),
        ]),
        Loop(counter='k1', inv=[
            f'n == off(self, len({D}))', 'len(names) == n', NAMES_DONE.format(upto=f'len({D})', names='names'),
            'row == off(self, k1)', 'col == off(self, k1)', 'len(means) == off(self, k1)',
            BLOCKS_DONE.format(upto='k1', M='M'), ZERO_ELSE.format(upto='k1', M='M', n='n'),
        ]),
        Loop(counter='ki', inv=[
            f'n == off(self, len({D}))', 'len(names) == n', NAMES_DONE.format(upto=f'len({D})', names='names'),
            f'0 <= k1 < len({D})', 'dist == self._dists[k1]', 'not dist.is_normal',
            'row == off(self, k1)', 'col == off(self, k1)', 'len(means) == off(self, k1 + 1)',
            BLOCKS_DONE.format(upto='k1', M='M'), ZERO_ELSE.format(upto='k1 + 1', M='M', n='n'),
            'all(M[row + i, col + j] == cov(dist, i, j) for i in range(ki) for j in range(len(dist)))',
        ]),
        Loop(counter='kj', inv=[
            f'n == off(self, len({D}))', 'len(names) == n', NAMES_DONE.format(upto=f'len({D})', names='names'),
            f'0 <= k1 < len({D})', 'dist == self._dists[k1]', 'not dist.is_normal',
            'row == off(self, k1)', 'col == off(self, k1)', 'len(means) == off(self, k1 + 1)',
            '0 <= i < len(dist)',
            BLOCKS_DONE.format(upto='k1', M='M'), ZERO_ELSE.format(upto='k1 + 1', M='M', n='n'),
            'all(M[row + a, col + j] == cov(dist, a, j) for a in range(i) for j in range(len(dist)))',
            'all(M[row + i, col + j] == cov(dist, i, j) for j in range(kj))',
        ]),
    ],
)
