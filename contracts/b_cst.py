"""Bounded contract checks for C03 (and the regenerated-code part of C02): NM-TRAN control streams
round-trip losslessly; edits touch only what changed.

Every check evaluates a contract taken from the property statement on the REAL pharmpy code over an
exhaustively enumerated finite domain (no sampling).  The references in this file (control stream
generator that knows the record chunks it emitted, line based record splitter, line classifier for
abbreviated code) are written independently of pharmpy.

  bounded_roundtrip       str(NMTranParser().parse(T)) == T for generated control streams (2 base models x
                          subsets of layout variants) and str(create_record(R)) == R for generated single
                          record texts (per record kind: sequences of options/values/code lines x
                          separators x tails); records are split at every $-line and get their canonical
                          name.  C03 quantifies over ACCEPTED texts: a syntax error on a text that uses one
                          of the exotic features of feature_tag() is outside the precondition (counted under
                          'rejected'); a syntax error on any other generated text fails C_ACCEPT; any other
                          exception fails C_INTERNAL.
  bounded_update_source   (a) update_source() of an unmodified model is the identity on the code (and on a
                          second call); (b) after ONE edit through pharmpy.modeling / model.replace every
                          record of another kind is preserved exactly and in order (one clause per edit and
                          record kind, so that a known finding does not mask the other kinds), $THETA/$OMEGA/
                          $SIGMA records not holding the edited parameter are preserved, inside the edited
                          record everything but the edited value is preserved, and inside an edited code
                          record every other line (statement, comment, verbatim, blank) is preserved exactly
                          and in order; the generated code is stable under update_source and re-reading.
                          (c) the same clauses on $THETA records that mix a repeat `(...)xn` with further thetas
                          (every order, one or two records): identity, and single edits of the thetas written
                          without a repeat and of other components.
                          (d) edits of the model name, the description and the execution steps on generated $TABLE
                          layouts (1-3 $TABLE records, kinds of file names, places relative to $ESTIMATION /
                          $COVARIANCE; items of the last table that are a prefix of a rewritten option or of a dropped
                          prediction/residual) and on the base models x layout variants: all records of other kinds are
                          preserved; the number and places of the $TABLE records are unchanged; a rename only changes
                          the run number of numbered table files; an execution step edit leaves the tables before the
                          last one alone and keeps every other column, option and comment of the last one; a
                          description edit only changes the title of $PROBLEM.
                          (e) the option editing methods of OptionRecord that the regeneration builds on (remove_option,
                          remove_option_startswith, set_option, replace_option, append_option) on generated record
                          texts x every key: exactly the addressed options change.
"""

import itertools
import re
import warnings

warnings.filterwarnings('ignore')

NPROC = 16

NM = 'src/pharmpy/model/external/nonmem/'
FID_PARSE = NM + 'nmtran_parser.py:NMTranParser.parse'
FID_CREATE = NM + 'records/factory.py:create_record'
FID_UPDATE = NM + 'model.py:Model.update_source'
FID_CODE = NM + 'records/code_record.py:CodeRecord.update_statements'

C_ACCEPT = 'generated NM-TRAN text is accepted (no exception)'
C_INTERNAL = 'only syntax errors are raised (no internal error)'
C_RT = 'str(parse(T)) == T byte for byte'
C_SPLIT = 'one record per $-line: str(record) equals the source chunk of that record'
C_KIND = 'record name (abbreviated / lower case) is mapped to its canonical kind'
C_REC_RT = 'str(create_record(R)) == R byte for byte'
C_STABLE = 'parsing is deterministic and does not depend on previously parsed texts'


# --------------------------------------------------------------------------------------------------
# Generator of control stream texts (the reference knows the chunk of every record it emits)
# --------------------------------------------------------------------------------------------------

# name variants: (full name, short abbreviation, other abbreviation / synonym)
NAMES = {
    'PROBLEM': ('PROBLEM', 'PROB', 'PROBLE'),
    'INPUT': ('INPUT', 'INP', 'INPU'),
    'DATA': ('DATA', 'DAT', 'INFILE'),
    'SUBROUTINES': ('SUBROUTINE', 'SUBS', 'SUB'),
    'ABBREVIATED': ('ABBREVIATED', 'ABBR', 'ABB'),
    'PK': ('PK', 'PK', 'PK'),
    'PRED': ('PRED', 'PRED', 'PRE'),
    'ERROR': ('ERROR', 'ERR', 'ERRO'),
    'THETA': ('THETA', 'THE', 'THET'),
    'OMEGA': ('OMEGA', 'OME', 'OMEG'),
    'SIGMA': ('SIGMA', 'SIG', 'SIGM'),
    'ESTIMATION': ('ESTIMATION', 'EST', 'ESTM'),
    'COVARIANCE': ('COVARIANCE', 'COV', 'COVR'),
    'TABLE': ('TABLE', 'TAB', 'TABL'),
    'FOO': ('FOO', 'FOO', 'FOO'),
    'WARNINGS': ('WARNINGS', 'WARN', 'WARNING'),
}
UNKNOWN_KINDS = ('FOO', 'WARNINGS')

LAYOUT_FLAGS = (
    'lead_sp',  # blanks before the $ of some records
    'lead_tab',  # tab before the $ of some records
    'abbrev',  # record names abbreviated to 3+ letters ($EST, $SUBS, $PROB)
    'abbrev2',  # other abbreviations and synonyms ($INFILE, $ESTM, $COVR)
    'lower',  # record names in lower case
    'lower_code',  # abbreviated code and options in lower case (not the case sensitive $ABBR keywords)
    'pretext',  # text (comment lines, empty line) before the first record
    'crlf',  # CR LF line endings
    'nul',  # NUL bytes as separators (between plain words, around = in code)
    'nul_kv',  # NUL bytes as separators before KEY=VALUE options and parenthesised values
    'tabsep',  # tabs as separators
    'cmt_after',  # comments after values
    'cmt_own',  # comments on own lines between and inside option records
    'cmt_code',  # comments inside code records (own line, trailing)
    'cont',  # continuation lines with & in abbreviated code
    'multi',  # several records of the same kind ($INPUT, $ESTIMATION, $TABLE)
    'empty_between',  # empty lines between records
    'trail_ws',  # trailing white space on lines
    'no_final_nl',  # no newline at the end of the file
    'verbatim',  # verbatim code lines (double quote in first column)
    'blank_code',  # blank lines inside code records
    'ifblock',  # block IF / ELSE / ENDIF instead of a logical IF
    'multiline',  # options spread over several (indented) lines, nothing on the name line
    'wsline',  # lines consisting of blanks only
    'eqspace',  # blanks around the = of KEY = VALUE options
    'sameline',  # abbreviated code starting on the record name line
    'pseudo',  # pseudo statement in $ERROR
    'foo',  # an unknown record $FOO in the middle of the control stream
    'empty_title',  # $PROBLEM without a title
)

# flags that keep the model a plain, runnable looking model with upper case symbols
# (read_model_from_string only detects NONMEM code by an upper case $PRO, so no lower case record names)
# ('nul_kv' texts are rejected by the parser: no model to speak of)
MODEL_FLAGS = tuple(f for f in LAYOUT_FLAGS if f not in ('lower_code', 'lower', 'nul_kv'))

# where a $TABLE record of build_records(tables=...) is written: before the $ESTIMATION records, between $ESTIMATION
# and $COVARIANCE, after $COVARIANCE (the end of the control stream, the place of the default tables)
TABLE_PLACES = ('pre_est', 'pre_cov', 'end')


def _toks(tokens, F, start=0, nonul=False):
    """Join option tokens with the separators selected by the flags."""
    seps = [' ']
    if 'nul' in F and not nonul:
        seps.append('\x00')
    if 'tabsep' in F:
        seps.append('\t')
    if len(seps) > 1:
        seps.append('  ')
    out = []
    for i, t in enumerate(tokens):
        if i:
            sep = seps[(start + i) % len(seps)]
            plain = re.fullmatch(r'\w+', t) and re.fullmatch(r'\w+', tokens[i - 1])
            if not plain:
                if 'nul_kv' in F:
                    sep = '\x00'
                elif sep == '\x00':
                    sep = ' '
            out.append(sep)
        out.append(t)
    return ''.join(out)


def _opt(key, value, F):
    return f'{key} = {value}' if 'eqspace' in F else f'{key}={value}'


def _code(lines, F):
    """Apply the code related layout flags to a list of logical code lines."""
    out = []
    for i, line in enumerate(lines):
        if 'cont' in F and '*' in line and not line.startswith(('"', ';')) and 'IF' not in line:
            a, b = line.split('*', 1)
            out.append(a + '* &')
            out.append('     ' + b)
        elif 'nul' in F and '=' in line and not line.startswith(('"', ';')) and i % 2 == 0:
            a, b = line.split('=', 1)
            out.append(a + '\x00=\x00' + b)
        elif 'tabsep' in F and '=' in line and not line.startswith(('"', ';')) and i % 2 == 1:
            a, b = line.split('=', 1)
            out.append(a + '\t=\t' + b)
        else:
            out.append(line)
    if 'lower_code' in F:
        out = [ln if ln.startswith(('"', ';')) else ln.lower() for ln in out]
    return out


def _pk_body(F):
    lines = []
    if 'verbatim' in F:
        lines += ['"FIRST', '"  REAL*8 QQ']
    if 'cmt_code' in F:
        lines += ['; typical values', ';$THETA commented out']
    lines += ['TVCL=THETA(1)*WGT']
    if 'blank_code' in F:
        lines += ['']
    lines += ['TVV=THETA(2)*WGT' + (' ; volume' if 'cmt_code' in F else '')]
    if 'verbatim' in F:
        lines += ['"  QQ=1']
    if 'ifblock' in F:
        lines += ['IF (APGR.LT.5) THEN', '  TVV=TVV*(1+THETA(3))']
        if 'cmt_code' in F:
            lines += ['  ; inside the block']
        lines += ['ELSE', '  TVV=TVV*1', 'END IF']
    else:
        lines += ['IF(APGR.LT.5) TVV=TVV*(1+THETA(3))']
    if 'wsline' in F:
        lines += ['   ']
    if 'cmt_code' in F:
        lines += ['  ;; individual parameters']
    lines += ['CL=TVCL*EXP(ETA(1))', 'V=TVV*EXP(ETA(2))']
    if 'blank_code' in F:
        lines += ['', '']
    lines += ['S1=V']
    return lines


def _error_body(F):
    lines = []
    if 'pseudo' in F:
        lines += ['(OBSERVATION ONLY)']
    if 'cmt_code' in F:
        lines += [';error model']
    lines += ['W=F', 'Y=F+W*EPS(1)']
    if 'blank_code' in F:
        lines += ['']
    lines += ['IPRED=F' + ('  ;individual prediction' if 'cmt_code' in F else '')]
    return lines


def _pred_body(F):
    lines = []
    if 'verbatim' in F:
        lines += ['"FIRST', '"  REAL*8 QQ']
    if 'cmt_code' in F:
        lines += ['; typical values', ';$THETA commented out']
    lines += ['TVB=THETA(1)+THETA(2)*WGT']
    if 'blank_code' in F:
        lines += ['']
    if 'verbatim' in F:
        lines += ['"  QQ=1']
    if 'ifblock' in F:
        lines += ['IF (APGR.LT.5) THEN', '  TVB=TVB*(1+THETA(3))']
        if 'cmt_code' in F:
            lines += ['  ; inside the block']
        lines += ['ELSE', '  TVB=TVB*1', 'END IF']
    else:
        lines += ['IF(APGR.LT.5) TVB=TVB*(1+THETA(3))']
    if 'wsline' in F:
        lines += ['   ']
    lines += ['BASE=TVB*EXP(ETA(1))' + (' ; baseline' if 'cmt_code' in F else '')]
    lines += ['SLP=ETA(2)']
    if 'blank_code' in F:
        lines += ['', '']
    if 'cmt_code' in F:
        lines += ['  ;; prediction']
    lines += ['IPRED=BASE+SLP*TIME', 'W=1', 'Y=IPRED+W*EPS(1)']
    return lines


def build_records(base, flags, pk_body=None, error_body=None, thetas=None, cov=True, model=False, tables=None):
    """Returns a list of (kind, first, lines): first is the rest of the record name line,
    lines are the following lines of the record (without line ends).
    tables: None for the default $TABLE record(s), else [(place, [items and options])] with place one of TABLE_PLACES:
    these $TABLE records are written instead, each at its place and in the given order."""
    F = set(flags)
    recs = []

    def option_record(kind, tokens, comment=None, own=None, start=0):
        """tokens: list of option strings; comment: trailing comment; own: own-line comment"""
        cmt = f' ; {comment}' if (comment and 'cmt_after' in F) else ''
        # pharmpy reads ID<NUL>TIME as ONE data column and ADVAN1<NUL>TRANS2 as one option, which makes
        # the model unreadable: when a model is wanted (model=True) no NUL in $INPUT / $SUBROUTINES (single
        # record texts with NUL separators are in gen_option_records)
        nn = model and kind in ('INPUT', 'SUBROUTINES')
        if 'multiline' in F and len(tokens) > 1:
            k = (len(tokens) + 1) // 2
            lines = ['  ' + _toks(tokens[:k], F, start, nn) + cmt]
            if own and 'cmt_own' in F:
                lines.append(f'; {own}')
            lines.append('\t' + _toks(tokens[k:], F, start + 1, nn))
            recs.append((kind, '', lines))
        else:
            lines = []
            if own and 'cmt_own' in F:
                lines.append(f';{own}')
                lines.append(f'  ; $ {own} (indented)')
            recs.append((kind, (' ' if tokens else '') + _toks(tokens, F, start, nn) + cmt, lines))

    title = '' if 'empty_title' in F else ' base model'
    recs.append(('PROBLEM', title, [';; 1. Based on: 0', ';; 2. Description:'] if 'cmt_own' in F else []))

    cols = ['ID', 'TIME', 'AMT', 'WGT', 'APGR', 'DV'] if base == 'advan' else ['ID', 'TIME', 'WGT', 'APGR', 'DV']
    if 'multi' in F:
        option_record('INPUT', cols[:3], 'first columns')
        option_record('INPUT', cols[3:], None, 'more columns', 1)
    else:
        option_record('INPUT', cols, 'columns', 'input comment')
    option_record('DATA', ['pheno.dta', 'IGNORE=@'], 'data set', 'data comment')
    if base == 'advan':
        option_record('SUBROUTINES', ['ADVAN1', 'TRANS2'], 'one compartment')
    option_record('ABBREVIATED', ['DERIV2=NO'], 'no second derivatives')
    option_record('WARNINGS', ['NONE'], None)

    def code_record(kind, body):
        body = _code(body, F)
        if 'sameline' in F and body and not body[0].startswith(('"', ';', '(')) and body[0].strip():
            recs.append((kind, ' ' + body[0], body[1:]))
        else:
            recs.append((kind, '', body))

    if base == 'advan':
        code_record('PK', _pk_body(F) if pk_body is None else pk_body)
        if 'foo' in F:
            recs.append(('FOO', ' some unknown ; stuff', ['more = stuff (a,b', '', '  x']))
        code_record('ERROR', _error_body(F) if error_body is None else error_body)
    else:
        code_record('PRED', _pred_body(F) if pk_body is None else pk_body)
        if 'foo' in F:
            recs.append(('FOO', ' some unknown ; stuff', ['more = stuff (a,b', '', '  x']))

    if thetas is None:
        if base == 'advan':
            thetas = [(['(0,0.00469307)'], 'CL'), (['(0,1.00916)'], 'V'), (['(-.99,.1)'], None)]
        else:
            thetas = [(['(0,5)', '(0.1)'], 'TVB SLOPE'), (['(-.99,.1,10)'], 'APGR')]
    for toks, comment in thetas:
        option_record('THETA', toks, comment, 'theta comment')
    option_record('OMEGA', ['0.0309626'], 'IVCL')
    option_record('OMEGA', ['0.031128'], 'IVV', 'omega comment')
    option_record('SIGMA', ['0.013241'], None, 'sigma comment')

    def table_records(place):
        for i, (where, toks) in enumerate(tables or ()):
            if where == place:
                toks = [_opt(*t.split('=', 1), F) if '=' in t else t for t in toks]
                last = i == len(tables) - 1
                option_record('TABLE', toks, 'table' if last else 'table %d' % (i + 1), 'table comment' if last else None, i)

    table_records('pre_est')
    if 'multi' in F:
        option_record('ESTIMATION', [_opt('METHOD', '0', F), _opt('MAXEVAL', '0', F)], 'first')
    option_record(
        'ESTIMATION', [_opt('METHOD', '1', F), 'INTERACTION', _opt('MAXEVALS', '9999', F)], 'foce', 'est comment'
    )
    table_records('pre_cov')
    if cov:
        option_record('COVARIANCE', [], 'cov step')
    if tables is not None:
        table_records('end')
    else:
        if 'multi' in F:
            option_record('TABLE', ['ID', 'TIME', 'NOAPPEND', 'NOPRINT', _opt('FILE', 'patab1', F)], 'first table')
        option_record(
            'TABLE', ['ID', 'TIME', 'DV', 'NOAPPEND', 'NOPRINT', _opt('FILE', 'sdtab1', F)], 'table', 'table comment'
        )
    if 'lower_code' in F:
        recs = [
            (k, f, ls) if k in ('PROBLEM', 'FOO', 'DATA', 'ABBREVIATED') else (k, _lower_nc(f), [_lower_nc(x) for x in ls])
            for k, f, ls in recs
        ]
    return recs


def _lower_nc(line):
    """lower case outside of comments and verbatim code"""
    if line.startswith('"'):
        return line
    i = line.find(';')
    return line.lower() if i < 0 else line[:i].lower() + line[i:]


def render(recs, flags):
    """Returns (text, chunks): chunks[i] = (kind, chunk text) with text == pretext + ''.join(chunks)."""
    F = set(flags)
    eol = '\r\n' if 'crlf' in F else '\n'
    pre = ''
    if 'pretext' in F:
        pre = ';; header comment' + eol + eol + 'Model written by hand' + eol
    chunks = []
    for i, (kind, first, lines) in enumerate(recs):
        variants = NAMES[kind]
        name = variants[1] if 'abbrev' in F else variants[2] if 'abbrev2' in F else variants[0]
        if 'lower' in F:
            name = name.lower()
        lead = ''
        if 'lead_sp' in F and i % 2 == 1:
            lead += '  '
        if 'lead_tab' in F and i % 3 != 1:
            lead += '\t'
        all_lines = [lead + '$' + name + first] + list(lines)
        if 'trail_ws' in F:
            all_lines = [ln + (' \t' if j % 2 else '  ') for j, ln in enumerate(all_lines)]
        if 'wsline' in F and i % 2 == 0:
            all_lines.append(' \t ')
        if 'empty_between' in F:
            all_lines.append('')
            if i % 4 == 0:
                all_lines.append('')
        chunks.append((kind, ''.join(ln + eol for ln in all_lines)))
    if 'no_final_nl' in F and chunks:
        kind, chunk = chunks[-1]
        chunks[-1] = (kind, chunk[: -len(eol)])
    return pre + ''.join(c for _, c in chunks), pre, chunks


def model_text(base, flags, **kw):
    return render(build_records(base, flags, **kw), flags)


# --------------------------------------------------------------------------------------------------
# bounded_roundtrip
# --------------------------------------------------------------------------------------------------

# C03 quantifies over texts ACCEPTED by the parser.  A syntax error (lark error / ModelSyntaxError) on
# a generated text therefore makes the precondition false.  To stay sensitive to a parser that starts
# to reject ordinary input, a rejection is only tolerated for texts using one of the following
# syntactic features (decided on the text alone); rejected plain texts fail C_ACCEPT.  Tolerated
# rejections are counted and returned under 'rejected' (they never count as nontrivial cases).
def feature_tag(kind, text, flags=()):
    if 'nul_kv' in flags:
        return 'NUL byte as separator in a non-code record'
    if kind is None:
        return None
    if kind in ('PK', 'PRED', 'ERROR', 'DES'):
        lines = re.split(r'\r?\n', text)
        if lines[-1].startswith('"'):
            return 'verbatim line without newline at the end of the text'
        depth = 0
        for ln in lines:
            code = re.sub(r'^\$\w+', '', ln.split(';')[0].strip()).strip().upper()
            if re.match(r'IF\s*\(.*\)\s*THEN$', code):
                depth += 1
            elif re.match(r'END\s*IF$', code):
                depth -= 1
            elif depth > 0 and ln.startswith('"'):
                return 'verbatim line inside an IF block'
        return None
    if '\x00' in text:
        return 'NUL byte as separator in a non-code record'
    if kind == 'THETA' and re.search(r'\)\s*[xX]\d', text):
        return '$THETA (...)xn repetition'
    if kind == 'THETA' and '=' in re.sub(r';[^\n]*', '', text):
        return '$THETA KEY=VALUE option'
    if kind in ('OMEGA', 'SIGMA') and 'VALUES' in text:
        return '$OMEGA BLOCK(n) VALUES(diag,odiag)'
    if kind in ('OMEGA', 'SIGMA') and re.search(r',', re.sub(r'\([^)]*\)|;[^\n]*', '', text)):
        return 'comma between $OMEGA/$SIGMA initial estimates'
    return None


_SYNTAX_ERRORS = None


def _syntax_errors():
    global _SYNTAX_ERRORS
    if _SYNTAX_ERRORS is None:
        from lark.exceptions import LarkError

        from pharmpy.model import ModelSyntaxError

        _SYNTAX_ERRORS = (LarkError, ModelSyntaxError)
    return _SYNTAX_ERRORS


def _first_diff(a, b):
    n = min(len(a), len(b))
    i = next((k for k in range(n) if a[k] != b[k]), n)
    return f'first difference at offset {i}: expected {a[max(0, i - 15):i + 15]!r} got {b[max(0, i - 15):i + 15]!r}'


def check_stream(text, pre, chunks, tag=None):
    """Contract of NMTranParser.parse / NMTranControlStream.__str__ on one text.
    Returns a list of (fid, clause, detail)."""
    from pharmpy.model.external.nonmem.nmtran_parser import NMTranParser

    try:
        cs = NMTranParser().parse(text)
        out = str(cs)
    except _syntax_errors() as e:
        if tag:
            return [(FID_PARSE, 'REJECTED', tag)]
        return [(FID_PARSE, C_ACCEPT, f'{type(e).__name__}: {str(e)[:160]!r}')]
    except Exception as e:
        return [(FID_PARSE, C_INTERNAL, f'{type(e).__name__}: {str(e)[:160]!r}')]
    fails = []
    if out != text:
        fails.append((FID_PARSE, C_RT, _first_diff(text, out)))
    expected = ([('', pre)] if pre else []) + list(chunks)
    got = [str(r) for r in cs.records]
    if got != [c for _, c in expected]:
        k = next(
            (i for i in range(min(len(got), len(expected))) if got[i] != expected[i][1]),
            min(len(got), len(expected)),
        )
        fails.append(
            (
                FID_PARSE,
                C_SPLIT,
                f'{len(got)} records for {len(expected)} chunks; record {k}: '
                f'expected {expected[k][1][:60]!r} got {got[k][:60]!r}'
                if k < min(len(got), len(expected))
                else f'{len(got)} records for {len(expected)} chunks',
            )
        )
    else:
        for r, (kind, _) in zip(cs.records, expected):
            want = kind
            if kind in UNKNOWN_KINDS:
                # unknown records keep their raw name (without the $) and are kept unparsed
                if type(r).__name__ != 'RawRecord':
                    fails.append((FID_PARSE, C_KIND, f'unknown record parsed as {type(r).__name__}'))
                    break
                continue
            if r.name != want:
                fails.append((FID_PARSE, C_KIND, f'record {str(r)[:30]!r} has name {r.name!r}, expected {want!r}'))
                break
    return fails


def check_record(text, kind=None):
    """Contract of create_record / Record.__str__ on the text of one record."""
    from pharmpy.model.external.nonmem.records.factory import create_record

    try:
        rec = create_record(text)
        out = str(rec)
    except _syntax_errors() as e:
        tag = feature_tag(kind, text)
        if tag:
            return [(FID_CREATE, 'REJECTED', tag)]
        return [(FID_CREATE, C_ACCEPT, f'{type(e).__name__}: {str(e)[:160]!r}')]
    except Exception as e:
        return [(FID_CREATE, C_INTERNAL, f'{type(e).__name__}: {str(e)[:160]!r}')]
    fails = []
    if out != text:
        fails.append((FID_CREATE, C_REC_RT, _first_diff(text, out)))
    if kind is not None:
        if kind in UNKNOWN_KINDS:
            if type(rec).__name__ != 'RawRecord':
                fails.append((FID_CREATE, C_KIND, f'unknown record parsed as {type(rec).__name__}'))
        elif rec.name != kind:
            fails.append((FID_CREATE, C_KIND, f'record {text[:30]!r} has name {rec.name!r}, expected {kind!r}'))
    return fails


# ---- per record enumerations ---------------------------------------------------------------------


def _seqs(alphabet, maxlen, minlen=1):
    for n in range(minlen, maxlen + 1):
        yield from itertools.product(alphabet, repeat=n)


def _join_cycle(items, seps, k):
    """items joined with separators; the separator between item i and i+1 is seps[(k+i) % len]"""
    out = [items[0]]
    for i, it in enumerate(items[1:]):
        out.append(seps[(k + i) % len(seps)])
        out.append(it)
    return ''.join(out)


OPTION_SEPS = (' ', '  ', '\t', '\n', '\n  ', ' ; c\n', '\n; c\n', '\x00', ' ;\n', '\r\n')
OPTION_TAILS = ('', '\n', ' ; end', '  \n\n', '\n; last line\n')

OPTION_ALPHABETS = {
    'INPUT': ('ID', 'TIME', 'DV', 'DROP', 'WGT=DROP', 'DV=LNDV', 'DAT1=DROP', 'SKIP = X'),
    'ESTIMATION': (
        'METHOD=1', 'METH=COND', 'INTERACTION', 'INTER', 'MAXEVAL=9999', 'MAXEVALS = 0', 'PRINT=1',
        'MSFO=msf1', 'METHOD=IMP', 'LAPLACE', 'NOABORT',
    ),
    'COVARIANCE': ('UNCONDITIONAL', 'UNCOND', 'MATRIX=S', 'PRINT=E', 'PRECOND=1'),
    'TABLE': (
        'ID', 'TIME', 'CWRES', 'NOPRINT', 'ONEHEADER', 'FILE=sdtab1', 'NOAPPEND', 'FORMAT=s1PE12.5',
        'ETAS(1:LAST)', 'FILE = a.tab',
    ),
    'SUBROUTINES': ('ADVAN1', 'TRANS2', 'ADVAN=ADVAN6', 'TOL=5', 'OTHER=fun.f90', 'ADVAN13'),
    'SIZES': ('LTH=50', 'PD=-100', 'LVR = 30'),
    'MODEL': ('COMP=(CENTRAL DEFDOSE)', 'NCOMPARTMENTS=2', 'COMPARTMENT=(PERIPH)', 'COMP = (DEPOT,DEFDOSE)'),
    'ETAS': ('FILE=run1.phi', 'FILE = x.phi'),
}
NAME_VARIANTS = {
    'INPUT': ('$INPUT', '$INP', '$input'),
    'ESTIMATION': ('$ESTIMATION', '$EST', '$ESTM', '$est'),
    'COVARIANCE': ('$COVARIANCE', '$COV', '$COVR'),
    'TABLE': ('$TABLE', '$TAB'),
    'SUBROUTINES': ('$SUBROUTINE', '$SUBROUTINES', '$SUBS', '$SUB'),
    'SIZES': ('$SIZES',),
    'MODEL': ('$MODEL', '$MOD'),
    'ETAS': ('$ETAS',),
}


def gen_option_records(tier):
    maxlen = 2 if tier == 'quick' else 3
    for kind, alphabet in OPTION_ALPHABETS.items():
        names = NAME_VARIANTS[kind]
        k = 0
        for name in names:
            yield kind, name
            yield kind, name + '\n'
            yield kind, '  ' + name + ' ; only a comment\n'
        for seq in _seqs(alphabet, maxlen):
            seps = OPTION_SEPS if len(seq) <= 2 else OPTION_SEPS[:6]
            for si in range(len(seps) if len(seq) > 1 else 1):
                leads = (' ', '\n', '\t ', ' ; c\n ')
                for lead in leads if len(seq) == 1 else (leads[k % 4], leads[(k + 1) % 4]):
                    k += 1
                    name = names[k % len(names)]
                    tail = OPTION_TAILS[k % len(OPTION_TAILS)]
                    yield kind, name + lead + _join_cycle(seq, seps, si) + tail


THETA_ITEMS = (
    '0.1', '-1.5', '1E-3', '.5', '3 FIX', '2 FIXED', '(0,1)', '(0,1,2)', '(-INF,1,INF)', '(0,,5)',
    '(1 FIX)', '(0,1) FIX', '(0 , 1 , 2)', '(0,1)x2', '(-1000000,0.5,1000000)', '(0,1,2 FIXED)',
    '(0.5)', '+7', 'NUMBERPOINTS=3', 'ABORT', 'NOABORT',
)
THETA_SEPS = (' ', '\n', '  ', '\t', ' ; CL\n', '\n; own line\n', '\x00', '\r\n', ' ;\n')
THETA_TAILS = ('', '\n', ' ; c', ' ; c\n', '  \n', '\n\n')


def gen_theta_records(tier):
    maxlen = 2 if tier == 'quick' else 3
    k = 0
    for name in ('$THETA', '$THE', '$theta', ' $THETA'):
        yield 'THETA', name
        yield 'THETA', name + '\n'
    for seq in _seqs(THETA_ITEMS, maxlen):
        seps = THETA_SEPS if len(seq) <= 2 else THETA_SEPS[:5]
        for si in range(len(seps) if len(seq) > 1 else 1):
            leads = (' ', '\n', '  ; c\n')
            for lead in leads if len(seq) == 1 else (leads[k % 3],):
                for tail in THETA_TAILS if len(seq) == 1 else (THETA_TAILS[k % len(THETA_TAILS)],):
                    k += 1
                    name = ('$THETA', '$THE', '$theta', '$THET')[k % 4]
                    yield 'THETA', name + lead + _join_cycle(seq, seps, si) + tail


OMEGA_ITEMS = (
    '0.1', '.04', '1E-2', '0.1 FIX', '0.1 FIXED', '(0.1)', '(0.1 FIX)', '(FIX 0.1)', '0.3 SD', '0.3 STANDARD',
    '(0.1)x2', '0.04 VARIANCE', '(0.3 SD FIX)', '0',
)
OMEGA_SEPS = (' ', '\n', '  ', '\t', ' ; IIV CL\n', '\n; own line\n', '\x00', ',', '\r\n')


def gen_omega_records(tier):
    maxlen = 2 if tier == 'quick' else 3
    k = 0
    for name in ('$OMEGA', '$SIGMA', '$OME', '$sigma'):
        kind = 'OMEGA' if name[1] in 'Oo' else 'SIGMA'
        for seq in _seqs(OMEGA_ITEMS, maxlen):
            if name not in ('$OMEGA', '$SIGMA') and len(seq) > 1:
                continue
            seps = OMEGA_SEPS if len(seq) <= 2 else OMEGA_SEPS[:5]
            for si in range(len(seps) if len(seq) > 1 else 1):
                heads = (' ', '\n', ' DIAGONAL(%d) ' % len(seq), ' DIAG(%d)\n' % len(seq))
                for head in heads if len(seq) == 1 else (heads[k % 4], heads[(k + 1) % 4]):
                    k += 1
                    tail = THETA_TAILS[k % len(THETA_TAILS)]
                    yield kind, name + head + _join_cycle(seq, seps, si) + tail
        # block forms
        for pre in ('', 'STANDARD ', 'VARIANCE CORRELATION ', 'SD,'):
            for block in ('BLOCK(2)', 'BLOC(2)', 'BLO(2)'):
                for post in ('', ' FIX', ' FIXED', ' CORRELATION', ' CHOLESKY', ' COVARIANCE VARIANCE', ', FIX'):
                    for values in (
                        ' 0.1 0.01 0.1', '\n0.1\n0.01 0.1', ' 0.1,0.01,0.1', ' (0.1) (0.01) (0.1)',
                        ' 0.1 ; v1\n 0.01 0.1 ; v2', '\n 0.1\n 0.01\t0.1', ' (0.1 FIX) 0.01 0.1', '\x000.1\x000.01\x000.1',
                        ' 0.1 0.01 0.1 FIX', '\r\n0.1\r\n0.01 0.1',
                    ):
                        k += 1
                        tail = THETA_TAILS[k % len(THETA_TAILS)]
                        yield kind, name + ' ' + pre + block + post + values + tail
        for text in (
            ' BLOCK(1) 0.1', ' BLOCK(1) 0.1 FIX\n', ' BLOCK(2) SAME', ' BLOCK(2) SAME\n', ' BLOCK SAME', ' BLOCK SAME ; c\n',
            ' BLOCK(2) SAME(3)\n', ' BLOCK SAME(2)', ' BLOCK(3) VALUES(0.1,0.01)', ' BLOCK(3) VALUES(0.1,0.01) FIX\n',
            ' BLOCK(6) FIX VALUES(0.1 0.01)\n', ' BLOCK(1)\n 0.1 ; v\n', ' BLOCK(3) 0.1 0.01 0.1 0.01 0.01 0.1\n',
            ' BLOCK(3)\n 0.1 ; a\n 0.01 0.1 ; b\n 0.01 0.01 0.1 ; c\n', ' BLOCK(2) (0.1)x3', ' BLOCK(1) SAME\n',
        ):
            yield kind, name + text


DATA_FILES = ('pheno.dta', "'my file.csv'", '"a b.csv"', '../data/x.csv', '*', 'C:\\data\\x.prn')
DATA_OPTS = (
    'IGNORE=@', 'IGNORE=#', "IGNORE='C'", 'IGN=@', 'IGNORE=I', 'IGNORE=(ID.EQ.1)', 'IGNORE(ID.EQ.1,DV.GT.5)',
    'ACCEPT=(WGT.GE.2.5)', 'IGNORE=(APGR.EQN.3)', 'IGNORE=(TIME>10)', 'IGNORE=(ID==2)', 'IGNORE=(DV/=0)',
    "IGNORE=(SEX.EQ.'M')", 'IGNORE = (ID.LT.3, ID.GT.7)', 'NULL=.', 'NOWIDE', 'CHECKOUT', 'RECORDS=10', 'REWIND',
    'LRECL=80', '(3F5.1)', 'ACCEPT(DV.NE.0)', 'IGNORE=(ID.EQ.1) IGNORE=(ID.EQ.2)',
)
DATA_SEPS = (' ', '\n', '  ', '\t', ' ; c\n', '\n; own\n', '\r\n')


def gen_data_records(tier):
    maxlen = 2 if tier == 'quick' else 3
    k = 0
    for fn in DATA_FILES:
        for name in ('$DATA', '$INFILE', '$DAT', '$data'):
            for lead in (' ', '\n', '\t'):
                for tail in ('', '\n', ' ; c\n'):
                    yield 'DATA', name + lead + fn + tail
    for seq in _seqs(DATA_OPTS, maxlen):
        seps = DATA_SEPS if len(seq) <= 2 else DATA_SEPS[:4]
        for si in range(len(seps)):
            k += 1
            fn = DATA_FILES[k % 4]
            name = ('$DATA', '$INFILE', '$DAT')[k % 3]
            tail = OPTION_TAILS[k % len(OPTION_TAILS)]
            yield 'DATA', name + ' ' + _join_cycle((fn,) + seq, seps, si) + tail


PROBLEM_TITLES = ('', ' ', ' title', ' two words', '   indented title', ' with ; semicolon', ' trailing  ', '\ttab title',
                  ' $ in title', ' title\x00nul', ' 1', ' (x) = "quoted"')
PROBLEM_AFTER = (
    '', '\n', '\n; c\n', '\n;; 1. Based on: 5\n;; 2. Description:\n;;    text\n', '\n\n', '\r\n', '\n  ; indented c\n',
    '\n\n; c\n\n', '\n;c', '\n   \n', '\r\n; c\r\n',
)


def gen_problem_records(tier):
    for name in ('$PROBLEM', '$PROB', '$problem', '$PRO'):
        for title in PROBLEM_TITLES:
            for after in PROBLEM_AFTER:
                yield 'PROBLEM', name + title + after


ABBR_OPTS = (
    'DERIV2=NO', 'DERIV2=NOCOMMON', 'DERIV1=NO', 'COMRES=2', 'COMRES = -1', 'COMSAV=1', 'FASTDER', 'NOFASTDER',
    'CHECKMU', 'NOCHECKMU', 'DES=COMPACT', 'DES=FULL', 'REPLACE ETA(CL)=ETA(1)', 'REPLACE THETA(V)=THETA(2)',
    'REPLACE K34=3', 'DECLARE X', 'DECLARE INTEGER I', 'DECLARE A(3),B(2,2)', 'PROTECT', 'FUNCTION BIVAR(VEC,5)',
    'VECTOR VEC(5)',
)


def gen_abbr_records(tier):
    maxlen = 2 if tier == 'quick' else 3
    seps = (' ', '\n', ' ; c\n', '\t', '  ', '\r\n')
    k = 0
    for seq in _seqs(ABBR_OPTS, maxlen):
        for si in range(len(seps) if len(seq) > 1 else 1):
            leads = (' ', '\n', '  ; c\n')
            for lead in leads if len(seq) == 1 else (leads[k % 3],):
                k += 1
                name = ('$ABBREVIATED', '$ABBR', '$ABB', '$abbr')[k % 4]
                tail = OPTION_TAILS[k % len(OPTION_TAILS)]
                yield 'ABBREVIATED', name + lead + _join_cycle(seq, seps if len(seq) < 3 else seps[:3], si) + tail


SIM_OPTS = ('(12345)', '(6789)', 'SUBPROBLEMS=10', 'NSUB=2', 'ONLYSIMULATION', 'ONLYSIM', 'SUBPROBS 3')


def gen_sim_records(tier):
    maxlen = 2 if tier == 'quick' else 3
    seps = (' ', '\n', ' ; c\n', '\t')
    k = 0
    for seq in _seqs(SIM_OPTS, maxlen):
        for si in range(len(seps) if len(seq) > 1 else 1):
            k += 1
            name = ('$SIMULATION', '$SIM', '$SIML', '$SIMULATE')[k % 4]
            tail = OPTION_TAILS[k % len(OPTION_TAILS)]
            yield 'SIMULATION', name + ' ' + _join_cycle(seq, seps, si) + tail


UNKNOWN_TEXTS = (
    '$FOO', '$FOO\n', '$FOO bar', '$FOO bar baz\n', '$FOO bar ; c\n more = (1,2\n\n  x\n', '$FOO\x00x\n', '$FOO\tx\r\n',
    '$WARNINGS NONE\n', '$F x\n', '$PKX A=1\n', '$FOO1 x\n', '  $FOO "quoted\n', '$foo & \n', '$BIND - - -\n',
    '$MSFI msf1 NORESCALE\n', '$PRIOR NWPRI NTHETA=3\n', '$LEVEL SID=(3[1])\n', '$FOO ;\n;\n',
)


def gen_unknown_records(tier):
    for t in UNKNOWN_TEXTS:
        yield 'FOO', t


CODE_LINES = (
    'A=1',
    'CL=THETA(1)*EXP(ETA(1))',
    'B=A+2*(C-D)/E**2',
    'IF(X.GT.1) Y=2',
    'IF (X.EQ.1.AND.Z.NE.2) THEN\n  Y=1\nELSE IF (X>3) THEN\n Y=3\nELSE\n  Y=2\nENDIF',
    '; comment',
    '  ;; indented comment $PK',
    'C=LOG(A)+SQRT(B) ; trailing',
    '" verbatim line',
    '"  FIRST',
    '',
    '   ',
    'D=A* &\n  B',
    'EXIT 1 2',
    'IF (A.LE.0) EXIT 1 10',
    'F1 = 1-THETA(2)\t',
    'x=-1.0d-3+y',
    'MU_1\x00=\x00THETA(1)',
    'IF (T.GE.2.5.OR..NOT.W.LT.1E-3) THEN\n; inside\n\n V=PHI(Q)\nEND IF',
    'IF (A.GT.0) THEN\n" verbatim in block\nB=1\nENDIF',
    'Y=F+F*EPS(1)+ERR(2)',
    'A_0(1)=THETA(3)',
    'RETURN',
)
CODE_LINES_THOROUGH = CODE_LINES + (
    'DO WHILE (I.LE.3)\nT(I)=I\nI=I+1\nENDDO',
    'CALL RANDOM(2,R)',
    'DADT(1)=-K*A(1)+A(2)*K21',
)


def gen_code_records(tier):
    names = ('$PK', '$PRED', '$ERROR', '$DES', '$ERR', '$pk')
    kinds = ('PK', 'PRED', 'ERROR', 'DES', 'ERROR', 'PK')
    alphabet = CODE_LINES if tier == 'quick' else CODE_LINES_THOROUGH
    maxlen = 2 if tier == 'quick' else 3
    k = 0
    for name, kind in zip(names, kinds):
        yield kind, name
        yield kind, name + '\n'
        yield kind, name + ' ; c\n'
        yield kind, name + ' (OBSERVATION ONLY)\nA=1\n'
        yield kind, name + '\n (ONLY OBS)\n\nA=1\n'
    for seq in _seqs(alphabet, maxlen):
        for eol in ('\n', '\r\n'):
            for final in (True, False):
                k += 1
                name, kind = names[k % len(names)], kinds[k % len(names)]
                lines = [ln for item in seq for ln in item.split('\n')]
                body = eol.join(lines) + (eol if final else '')
                yield kind, name + eol + body
        if not seq[0].startswith(('"', ';')) and seq[0].strip():
            k += 1
            name, kind = names[k % len(names)], kinds[k % len(names)]
            yield kind, name + ' ' + '\n'.join(seq) + '\n'


def gen_theta_repeat_records(tier):
    """$THETA records mixing a repeat `(...)xn` with further thetas: every order of one repeat and one or two
    single thetas (or a second repeat) x spellings of the repeat x separators (appended after the other generators:
    the texts of the generators above keep their enumeration order)"""
    k = 0
    for rep in (THETA_REPEATS_QUICK if tier == 'quick' else THETA_REPEATS):
        for tpl in theta_repeat_templates():
            if len(tpl) > 1:
                continue
            singles = iter(THETA_SINGLES)
            items = [next(singles) if it == 'S' else rep if it == 'R' else THETA_REPEAT2 for it in tpl[0]]
            for si in range(len(THETA_SEPS)):
                k += 1
                name = ('$THETA', '$THE', '$theta', '$THET')[k % 4]
                lead = (' ', '\n', '  ; c\n')[k % 3]
                tail = THETA_TAILS[k % len(THETA_TAILS)]
                yield 'THETA', name + lead + _join_cycle(items, THETA_SEPS, si) + tail


RECORD_GENERATORS = (
    gen_option_records, gen_theta_records, gen_omega_records, gen_data_records, gen_problem_records,
    gen_abbr_records, gen_sim_records, gen_unknown_records, gen_code_records, gen_theta_repeat_records,
)


def _gen_record_cases(tier):
    seen = set()
    for g in RECORD_GENERATORS:
        for kind, text in g(tier):
            if text not in seen:
                seen.add(text)
                yield kind, text


def _flag_sets(flags, maxsize):
    for n in range(0, maxsize + 1):
        yield from itertools.combinations(flags, n)


def _pool_init():
    warnings.filterwarnings('ignore')


def _rt_stream_worker(case):
    base, flags = case
    text, pre, chunks = model_text(base, flags)
    return [(f, c, d if c == 'REJECTED' else d + f' for the {base} base model with layout variants {list(flags)}',
             {'kind': 'stream', 'base': base, 'flags': list(flags)}, len(flags) * 10**6 + len(text))
            for f, c, d in check_stream(text, pre, chunks, feature_tag(None, text, flags))]


def _rt_record_worker(cases):
    out = []
    for kind, text in cases:
        for f, c, d in check_record(text, kind):
            out.append((f, c, d if c == 'REJECTED' else d + f' for record text {text!r}',
                        {'kind': 'record', 'rkind': kind, 'text': text}, len(text)))
    return out


def _collect(fails, results, rejected=None, also=None, order=None):
    """keep the smallest failing input per (fid, clause); also: dict collecting EVERY failing input per
    (fid, clause) as (order(case), case), order(case) being the position of the case in the enumeration
    (the results arrive in the order the workers finish)"""
    for f, c, d, case, size in results:
        if c == 'REJECTED':
            n, sz, ex = rejected.get(d, (0, 10**9, None))
            ex = case.get('text', case.get('flags')) if size < sz else ex
            rejected[d] = (n + 1, min(sz, size), ex)
            continue
        key = (f, c)
        if also is not None:
            also.setdefault(key, {}).setdefault(order(case), case)
        if key not in fails or size < fails[key][0]:
            fails[key] = (size, d, case)


ALSO_CAP = 300  # length of the 'also' list of a failing clause (tools/BOUNDED_GUIDE.md)


def _fails_list(fails, replay_fn, also=None):
    out = []
    for (f, c), (_, d, case) in sorted(fails.items()):
        e = {'fid': f, 'clause': c, 'detail': d[:600], 'case': dict(case, fid=f, clause=c), 'replay_fn': replay_fn}
        if also is not None:
            # every failing case of the clause, in enumeration order; the reported (smallest) case is always a
            # member: when it lies behind the cap it takes the last place
            every = also.get((f, c)) or {0: case}
            every = [dict(every[k], fid=f, clause=c) for k in sorted(every)]
            e['also'] = every[:ALSO_CAP]
            if e['case'] not in e['also']:
                e['also'] = every[:ALSO_CAP - 1] + [e['case']]
        out.append(e)
    return out


def _chunked(seq, n):
    for i in range(0, len(seq), n):
        yield seq[i:i + n]


def bounded_roundtrip(tier):
    import multiprocessing as mp

    maxflags = 2 if tier == 'quick' else 3
    stream_cases = [(base, fl) for base in ('advan', 'pred') for fl in _flag_sets(LAYOUT_FLAGS, maxflags)]
    record_cases = list(_gen_record_cases(tier))
    fails = {}
    rejected = {}
    also = {}
    stream_pos = {(base, tuple(fl)): i for i, (base, fl) in enumerate(stream_cases)}
    record_pos = {text: len(stream_cases) + i for i, (_, text) in enumerate(record_cases)}

    def order(case):
        if case['kind'] == 'stream':
            return (stream_pos[(case['base'], tuple(case['flags']))], False)
        return (record_pos[case['text']], case['rkind'] is None)

    ctx = mp.get_context('fork')
    with ctx.Pool(NPROC, initializer=_pool_init) as pool:
        for res in pool.imap_unordered(_rt_stream_worker, stream_cases, chunksize=4):
            _collect(fails, res, rejected, also, order)
        for res in pool.imap_unordered(_rt_record_worker, list(_chunked(record_cases, 200))):
            _collect(fails, res, rejected, also, order)
    # order independence / determinism: the same texts parsed again in one process, reversed order
    sub = record_cases[:: max(1, len(record_cases) // 300)]
    from pharmpy.model.external.nonmem.records.factory import create_record

    def outs(cases):
        res = {}
        for _, t in cases:
            try:
                res[t] = str(create_record(t))
            except Exception as e:
                res[t] = type(e).__name__
        return res

    a, b = outs(sub), outs(sub[::-1])
    for t in a:
        if a[t] != b[t]:
            _collect(fails, [(FID_CREATE, C_STABLE, f'{t!r}: {a[t]!r} then {b[t]!r}', {'kind': 'record', 'rkind': None, 'text': t}, len(t))],
                     None, also, order)
    ncases = len(stream_cases) + len(record_cases)
    nrejected = sum(n for n, _, _ in rejected.values())
    return {
        'cases': ncases,
        'nontrivial': ncases - nrejected,
        'rejected': {tag: {'count': n, 'smallest': ex} for tag, (n, _, ex) in sorted(rejected.items())},
        'bound': f'2 base models x all subsets of <= {maxflags} of {len(LAYOUT_FLAGS)} layout variants '
        f'({len(stream_cases)} control streams) + {len(record_cases)} single record texts: every sequence of <= '
        f'{maxflags} options/values/code lines over the per-record alphabets x separators x tails, and $THETA records with '
        f'every order of a repeat (...)xn and 1-2 further thetas or a second repeat x {len(THETA_SEPS)} separators; '
        f'{nrejected} texts with exotic features are rejected by the parser (outside the precondition)',
        'samples': [repr(model_text('advan', ('crlf', 'abbrev'))[0][:120]), repr(record_cases[len(record_cases) // 2]),
                    repr(record_cases[-1])],
        'fails': _fails_list(fails, 'bounded_roundtrip_replay', also),
    }


def bounded_roundtrip_replay(rp):
    case = rp['case']
    if case['kind'] == 'stream':
        text, pre, chunks = model_text(case['base'], tuple(case['flags']))
        res = check_stream(text, pre, chunks)
    else:
        res = check_record(case['text'], case.get('rkind'))
    res = [r for r in res if (r[0], r[1]) == (case.get('fid'), case.get('clause'))]
    if res:
        return (False, res[0][1] + ': ' + res[0][2])
    return (True, 'ok')


# --------------------------------------------------------------------------------------------------
# bounded_update_source
# --------------------------------------------------------------------------------------------------

FID_THETA = NM + 'records/theta_record.py:ThetaRecord.update'
FID_OMEGA = NM + 'records/omega_record.py:OmegaRecord.update'

C_NOEXC = 'reading a generated model, editing it and update_source() raise no exception'
C_READ = 'model.code of a freshly read model equals the text'
C_IDENT = 'update_source() of an unmodified model leaves the code unchanged byte for byte'
C_IDEM = 'a second update_source() leaves the code unchanged'
C_EFFECT = 'the edit is expressed in the new code (the code changes)'
C_EDIT_IDEM = 'after an edit a second update_source() leaves the new code unchanged'
C_REREAD = 'the code generated after an edit, read as a new model, is unchanged by update_source()'

# Reference: canonical kinds of NM-TRAN record names (prefix rule, >= 3 letters, plus synonyms)
_REF_NAMES = (
    'PROBLEM', 'INPUT', 'DATA', 'SUBROUTINES', 'ABBREVIATED', 'PRED', 'ERROR', 'THETA', 'OMEGA', 'SIGMA',
    'ESTIMATION', 'COVARIANCE', 'TABLE', 'SIZES', 'MODEL', 'DES', 'SIMULATION', 'ETAS', 'MSFI', 'DESIGN',
)
_REF_SYNONYMS = {'INFILE': 'DATA', 'SUBS': 'SUBROUTINES', 'ESTM': 'ESTIMATION', 'COVR': 'COVARIANCE', 'PK': 'PK'}


def ref_kind(chunk):
    m = re.match(r'[ \t]*\$([A-Za-z]+)', chunk)
    raw = m.group(1).upper()
    if raw in _REF_SYNONYMS:
        return _REF_SYNONYMS[raw]
    if len(raw) >= 3:
        for name in _REF_NAMES:
            if name.startswith(raw):
                return name
        if 'INFILE'.startswith(raw):
            return 'DATA'
    return raw


def ref_split(text):
    """Reference record splitter: a record starts at every line whose first non-blank character is $.
    Returns [(kind, chunk)]; text before the first record has kind ''."""
    out = []
    cur = []
    for line in text.splitlines(keepends=True):
        if re.match(r'[ \t]*\$', line):
            if cur:
                out.append(''.join(cur))
            cur = [line]
        else:
            cur.append(line)
    if cur:
        out.append(''.join(cur))
    res = []
    for chunk in out:
        if re.match(r'[ \t]*\$', chunk):
            res.append((ref_kind(chunk), chunk))
        else:
            res.append(('', chunk))
    return res


def _match_segments(N, segments, gaps):
    """Does N == segments[0] + X1 + segments[1] + ... + Xm + segments[m] with gaps[i][0] <= len(Xi+1) <=
    gaps[i][1]?  (lists of lines)"""
    memo = {}

    def rec(i, pos):
        key = (i, pos)
        if key in memo:
            return memo[key]
        seg = segments[i]
        ok = False
        if N[pos:pos + len(seg)] == seg:
            end = pos + len(seg)
            if i == len(segments) - 1:
                ok = end == len(N)
            else:
                lo, hi = gaps[i]
                for g in range(lo, min(hi, len(N) - end) + 1):
                    if rec(i + 1, end + g):
                        ok = True
                        break
        memo[key] = ok
        return ok

    return rec(0, 0)


def lines_preserved(old_lines, new_lines, edited, removed=False):
    """Every line of old_lines whose index is not in `edited` appears in new_lines, exactly and in order,
    with nothing inserted except (when not removed) at least one line in place of each edited line."""
    groups = []  # maximal runs of consecutive edited lines (one statement may span several lines)
    for e in sorted(edited):
        if groups and groups[-1][1] == e - 1:
            groups[-1][1] = e
        else:
            groups.append([e, e])
    segments = []
    prev = 0
    for a, b in groups:
        segments.append(old_lines[prev:a])
        prev = b + 1
    segments.append(old_lines[prev:])
    gaps = [((0, 0) if removed else (1, 10**6)) for _ in groups]
    return _match_segments(new_lines, segments, gaps)


def unit_spans(lines):
    """Reference line classifier for abbreviated code: the (first, last) line index of every statement
    (block IF ... ENDIF and DO WHILE ... ENDDO are one unit, continuation lines belong to their statement).
    Comment, verbatim and blank lines outside of blocks belong to no statement."""
    spans = []
    i = 0
    n = len(lines)
    while i < n:
        code = lines[i].split(';')[0].strip(' \t\x00\r\n')
        if i == 0:
            code = re.sub(r'^\$\w+', '', code).strip(' \t\x00')
        if not code or lines[i].startswith('"'):
            i += 1
            continue
        j = i
        if re.match(r'IF\s*\(.*\)\s*THEN$', code, re.I):
            while j < n and not re.match(r'END\s*IF$', lines[j].split(';')[0].strip(' \t\x00\r\n'), re.I):
                j += 1
        elif re.match(r'DO\s*WHILE', code, re.I):
            while j < n and not re.match(r'END\s*DO$', lines[j].split(';')[0].strip(' \t\x00\r\n'), re.I):
                j += 1
        else:
            while j < n and lines[j].split(';')[0].rstrip(' \t\x00\r\n').endswith('&'):
                j += 1
        spans.append((i, min(j, n - 1)))
        i = j + 1
    return spans


def lines_inserted(old_lines, new_lines, lo, hi):
    """new_lines is old_lines with one non-empty block inserted at a position p, lo <= p <= hi"""
    n = len(new_lines) - len(old_lines)
    if n < 1:
        return False
    return any(new_lines[:p] == old_lines[:p] and new_lines[p + n:] == old_lines[p:] for p in range(lo, hi + 1))


# ---- the edits -----------------------------------------------------------------------------------

DECOR = {
    '-': [],
    'C': ['; a comment line'],
    'V': ['"  VERBATIM=1'],
    'B': [''],
    'CB': [';comment then blank', ''],
    'BC': ['', '  ; blank then indented comment'],
    'CC': [';; first', ';; second'],
    'VC': ['" QQ=2', '; after verbatim'],
    'W': ['  \t'],
}
DECOR_QUICK = ('-', 'C', 'V', 'B', 'CB', 'BC')
DECOR_THOROUGH = tuple(DECOR)

SLOTS = {
    'advan': ['AUX1=WGT/70', 'TVCL=THETA(1)*WGT', 'AUX2=APGR+1', 'TVV=THETA(2)*WGT'],
    'pred': ['AUX1=WGT/70', 'TVB=THETA(1)+THETA(2)*WGT', 'AUX2=APGR+1', 'SLP=ETA(2)'],
}
TAILS = {
    'advan': [
        'IF (APGR.LT.5) THEN', '  ; inside the block', '  TVV=TVV*(1+THETA(3))', 'ELSE', '', '  TVV=TVV*1', 'ENDIF',
        'CL=TVCL*EXP(ETA(1)) ; clearance', 'V=TVV*EXP(ETA(2))', 'S1=V',
    ],
    'pred': [
        'IF (APGR.LT.5) THEN', '  ; inside the block', '  TVB=TVB*(1+THETA(3))', 'ELSE', '', '  TVB=TVB*1', 'ENDIF',
        'BASE=TVB*EXP(ETA(1)) ; baseline', 'IPRED=BASE+SLP*TIME', 'W=1', 'Y=IPRED+W*EPS(1)',
    ],
}
LAST_STATEMENT = {'advan': 'S1', 'pred': 'Y'}


def code_body(base, decor):
    """decor: 6 decoration codes: before slot 0..3, after slot 3 (before the tail), after the last line.
    Returns (lines, index of the line of each slot statement, index of the last statement line)."""
    lines = []
    pos = []
    for i, st in enumerate(SLOTS[base]):
        lines += DECOR[decor[i]]
        pos.append(len(lines))
        lines.append(st)
    lines += DECOR[decor[4]]
    tail_start = len(lines)
    lines += TAILS[base]
    last = len(lines) - 1
    lines += DECOR[decor[5]]
    return lines, pos, tail_start, last


def _symbol_of(line):
    return line.split('=')[0].strip()


def _stmt_index(model, name, occurrence=0):
    k = 0
    for i, s in enumerate(model.statements):
        if getattr(s, 'symbol', None) is not None and s.symbol.name == name:
            if k == occurrence:
                return i
            k += 1
    raise KeyError(name)


def _thetas(model):
    rv_syms = model.random_variables.free_symbols
    return [p for p in model.parameters if p.symbol not in rv_syms]


def apply_edit(model, edit):
    """Apply a single-component edit through the public modeling API.  edit is a json-able list."""
    from pharmpy.basic import Expr
    from pharmpy.model import Assignment
    from pharmpy import modeling as M

    op = edit[0]
    if op in ('set_theta', 'fix_theta'):
        p = _thetas(model)[edit[1]]
        if op == 'set_theta':
            return M.set_initial_estimates(model, {p.name: round(p.init / 2 + 0.01, 6)})
        return M.fix_parameters(model, [p.name])
    if op in ('set_omega', 'fix_omega', 'set_sigma', 'fix_sigma'):
        rvs = model.random_variables.etas if 'omega' in op else model.random_variables.epsilons
        name = rvs.parameter_names[edit[1]]
        if op.startswith('set'):
            return M.set_initial_estimates(model, {name: 0.05 if 'omega' in op else 0.02})
        return M.fix_parameters(model, [name])
    if op == 'modify':
        i = _stmt_index(model, edit[1])
        s = model.statements[i]
        new = Assignment(s.symbol, s.expression * 2)
        return model.replace(statements=model.statements[0:i] + new + model.statements[i + 1:])
    if op == 'remove':
        i = _stmt_index(model, edit[1])
        return model.replace(statements=model.statements[0:i] + model.statements[i + 1:])
    if op == 'insert':  # after the statement defining edit[1], at the top if None
        i = 0 if edit[1] is None else _stmt_index(model, edit[1]) + 1
        new = Assignment(Expr.symbol('NEWV'), Expr.symbol('WGT') + 1)
        return model.replace(statements=model.statements[0:i] + new + model.statements[i:])
    if op == 'set_est':
        return M.set_estimation_step(model, 'IMP', idx=0)
    if op == 'add_est':
        return M.add_estimation_step(model, 'IMP', idx=edit[1])
    if op == 'add_cov':
        return M.add_parameter_uncertainty_step(model, 'SANDWICH')
    if op == 'remove_cov':
        return M.remove_parameter_uncertainty_step(model)
    if op == 'rename':
        return M.rename_symbols(model, {edit[1]: edit[1] + 'X'})
    if op == 'rename_model':
        return M.set_name(model, edit[1])
    if op == 'set_description':
        return M.set_description(model, edit[1])
    if op == 'set_est_opt':  # one attribute of the first estimation step, same method
        return M.set_estimation_step(model, model.execution_steps[0].method, idx=0, **{edit[1]: edit[2]})
    if op == 'eval_step':
        return M.set_evaluation_step(model, idx=-1)
    if op == 'append_est_opt':
        return M.append_estimation_step_options(model, {edit[1]: edit[2]}, idx=0)
    if op == 'remove_est':
        return M.remove_estimation_step(model, edit[1])
    if op == 'add_pred':
        return M.add_predictions(model, [edit[1]])
    if op == 'add_res':
        return M.add_residuals(model, [edit[1]])
    if op == 'rm_pred':
        return M.remove_predictions(model, None if edit[1] is None else [edit[1]])
    if op == 'rm_res':
        return M.remove_residuals(model, None if edit[1] is None else [edit[1]])
    raise ValueError(op)


EDIT_LABEL = {
    'set_theta': 'set_initial_estimates of one theta', 'fix_theta': 'fix_parameters of one theta',
    'set_omega': 'set_initial_estimates of one omega', 'fix_omega': 'fix_parameters of one omega',
    'set_sigma': 'set_initial_estimates of one sigma', 'fix_sigma': 'fix_parameters of one sigma',
    'modify': 'changing one statement', 'remove': 'removing one statement', 'insert': 'adding one statement',
    'set_est': 'set_estimation_step', 'add_est': 'add_estimation_step', 'add_cov': 'add_parameter_uncertainty_step',
    'remove_cov': 'remove_parameter_uncertainty_step', 'rename': 'rename_symbols of one symbol',
    'rename_model': 'renaming the model', 'set_description': 'set_description',
    'set_est_opt': 'set_estimation_step changing one option', 'eval_step': 'set_evaluation_step',
    'append_est_opt': 'append_estimation_step_options', 'remove_est': 'remove_estimation_step',
    'add_pred': 'add_predictions', 'add_res': 'add_residuals', 'rm_pred': 'remove_predictions', 'rm_res': 'remove_residuals',
}
_EST_KINDS = ('ESTIMATION', 'COVARIANCE', 'TABLE')
# edits of the execution steps: update_source regenerates $ESTIMATION / $COVARIANCE and the LAST $TABLE record
EST_EDITS = ('set_est', 'add_est', 'add_cov', 'remove_cov', 'set_est_opt', 'eval_step', 'append_est_opt', 'remove_est',
             'add_pred', 'add_res', 'rm_pred', 'rm_res')
EDIT_KINDS = {
    'set_theta': ('THETA',), 'fix_theta': ('THETA',), 'set_omega': ('OMEGA',), 'fix_omega': ('OMEGA',),
    # NOTE an EstimationStep of the model holds the $ESTIMATION options, the parameter uncertainty method ($COVARIANCE)
    # and the requested predictions/residuals (last $TABLE): all three record kinds express the edited component, so
    # C03 does not demand that they are preserved (demanding it was a false alarm, see DESIGN.md)
    'set_sigma': ('SIGMA',), 'fix_sigma': ('SIGMA',), 'set_est': _EST_KINDS, 'add_est': _EST_KINDS,
    'add_cov': _EST_KINDS, 'remove_cov': _EST_KINDS,
    'set_est_opt': _EST_KINDS, 'eval_step': _EST_KINDS, 'append_est_opt': _EST_KINDS, 'remove_est': _EST_KINDS,
    'add_pred': _EST_KINDS, 'add_res': _EST_KINDS, 'rm_pred': _EST_KINDS, 'rm_res': _EST_KINDS,
    # the run number of the model name is written into the file names of the $TABLE records (sdtab1 -> sdtab2)
    'rename_model': ('TABLE',), 'set_description': ('PROBLEM',),
}
IN_PLACE = ('set_theta', 'fix_theta', 'set_omega', 'fix_omega', 'set_sigma', 'fix_sigma', 'modify', 'remove', 'insert',
            'set_est', 'rename', 'rename_model', 'set_description', 'set_est_opt', 'eval_step', 'append_est_opt',
            'add_pred', 'add_res', 'rm_pred', 'rm_res')
# edits that may leave the code as it is (a model name without a run number, tables without a numbered file)
NO_EFFECT_NEEDED = ('rename_model',)


def _word_in(word, line):
    return re.search(r'(?<![A-Za-z0-9_])' + re.escape(word) + r'(?![A-Za-z0-9_])', line.split(';')[0]) is not None


def _rename_units(L, word):
    return [(a0, a1) for a0, a1 in unit_spans(L)
            if any(_word_in(word, re.sub(r'^[ \t]*\$\w+', '', ln)) for ln in L[a0:a1 + 1])]


def _rename_adjacent(old, word):
    """Are two statements that use the symbol consecutive statements of one code record?"""
    for k, c in old:
        if k in ('PK', 'PRED', 'ERROR'):
            L = c.splitlines(keepends=True)
            spans = unit_spans(L)
            hit = [sp in _rename_units(L, word) for sp in spans]
            if any(a and b for a, b in zip(hit, hit[1:])):
                return True
    return False


# ---- reference view of option records ($TABLE, $PROBLEM) for the edits that regenerate them ----------

FID_EST = NM + 'update.py:update_estimation'
FID_TABNAME = NM + 'update.py:update_name_of_tables'
FID_DESC = NM + 'update.py:update_description'

# NONMEM's reserved prediction / residual items of $TABLE (NONMEM users guide VIII, $TABLE) and the customary
# individual ones of $ERROR: the items of a $TABLE record that express the predictions/residuals of the model
REF_PREDICTIONS = ('PRED', 'IPRED', 'CPRED', 'CPREDI', 'CIPRED', 'CIPREDI', 'NPRED', 'EPRED')
REF_RESIDUALS = ('RES', 'WRES', 'IRES', 'IWRES', 'CRES', 'CWRES', 'CRESI', 'CWRESI', 'CIRES', 'CIWRES', 'CIRESI',
                 'CIWRESI', 'NRES', 'NWRES', 'ERES', 'EWRES', 'ECWRES', 'NPDE', 'NPD')
# options pharmpy keeps at the end of the $TABLE record it regenerates
TABLE_MOVABLE = ('NOAPPEND', 'NOPRINT', 'ONEHEADER', 'FILE')


def ref_option_tokens(chunk):
    """The items/options of an option record text, in order: comments and the record name dropped, `KEY = VALUE`
    joined to KEY=VALUE; blanks, tabs, NUL bytes and line ends separate."""
    body = ' '.join(ln.split(';')[0] for ln in re.split(r'\r?\n', chunk))
    body = re.sub(r'^[ \t]*\$[A-Za-z]+', '', body)
    body = re.sub(r'[ \t\x00]*=[ \t\x00]*', '=', body)
    return [t for t in re.split(r'[ \t\x00\r]+', body) if t]


def ref_comments(chunk):
    return re.findall(r';[^\r\n]*', chunk)


def _key(token):
    return token.split('=')[0]


def _is_subsequence(xs, ys):
    it = iter(ys)
    return all(any(x == y for y in it) for x in xs)


def _multiset_minus(xs, ys):
    """elements of xs (with multiplicity) that are not matched by an element of ys"""
    rest = list(ys)
    out = []
    for x in xs:
        if x in rest:
            rest.remove(x)
        else:
            out.append(x)
    return out


def ref_table_file(chunk):
    """(start, end) of the value of the FILE option (FIL, FILE) in the text of a $TABLE record, None without one"""
    pos = 0
    for ln in re.split(r'(\r?\n)', chunk):
        code = ln.split(';')[0]
        m = re.search(r'(?<![A-Za-z0-9_])FILE?[ \t\x00]*=[ \t\x00]*([^ \t\x00\r\n]+)', code, re.I)
        if m:
            return pos + m.start(1), pos + m.end(1)
        pos += len(ln)
    return None


_NUMBERED_FILE = re.compile(r"""^(?P<q>['"]?)(?P<dir>(?:.*[/\\])?)(?P<head>[^/\\]*?)(?P<num>\d+)(?P<ext>(?:\.[^./\\]*)?)(?P=q)$""")


def table_clauses_est(label, edit, old, new):
    """The execution steps of a model are written to $ESTIMATION / $COVARIANCE and, for the requested predictions
    and residuals, to the LAST $TABLE record.  What does not express them is preserved: the other $TABLE records,
    and in the last one every other column and option (and every comment)."""
    a = [c for k, c in old if k == 'TABLE']
    b = [c for k, c in new if k == 'TABLE']
    if not a:
        return []
    if len(a) != len(b):
        return [(FID_EST, f'after {label}: the number of $TABLE records is unchanged', f'{a!r} -> {b!r}')]
    fails = []
    if a[:-1] != b[:-1]:
        fails.append((FID_EST, f'after {label}: $TABLE records other than the last one are preserved exactly',
                      f'{a[:-1]!r} -> {b[:-1]!r}'))
    ot, nt = ref_option_tokens(a[-1]), ref_option_tokens(b[-1])
    dropped = ()
    if edit[0] in ('rm_pred', 'rm_res'):
        dropped = (edit[1],) if edit[1] is not None else REF_PREDICTIONS if edit[0] == 'rm_pred' else REF_RESIDUALS
    kept = [t for t in ot if _key(t) not in dropped]
    fixed = [t for t in kept if _key(t) not in TABLE_MOVABLE]
    lost = _multiset_minus(kept, nt)
    if lost or not _is_subsequence(fixed, nt):
        fails.append((FID_EST, f'after {label}: the last $TABLE record keeps every column and option that is not a prediction or '
                      'residual dropped by the edit (columns and other options in their order; NOAPPEND, NOPRINT, ONEHEADER '
                      'and FILE may move to the end)',
                      (f'lost {lost}: ' if lost else 'order changed: ') + f'{a[-1]!r} became {b[-1]!r}'))
    extra = [t for t in _multiset_minus(nt, ot) if t not in REF_PREDICTIONS + REF_RESIDUALS + ('NOPRINT',)]
    if extra:
        fails.append((FID_EST, f'after {label}: nothing is added to the last $TABLE record except predictions, residuals and NOPRINT',
                      f'added {extra}: {a[-1]!r} became {b[-1]!r}'))
    if ref_comments(a[-1]) != ref_comments(b[-1]):
        fails.append((FID_EST, f'after {label}: the comments of the last $TABLE record are preserved exactly and in order',
                      f'{a[-1]!r} became {b[-1]!r}'))
    return fails


def table_clauses_rename(label, name, old, new):
    """The run number at the end of the model name is written to the $TABLE file names that end in a run number
    (sdtab1 -> sdtab2); nothing else expresses the model name."""
    a = [c for k, c in old if k == 'TABLE']
    b = [c for k, c in new if k == 'TABLE']
    if len(a) != len(b):
        return [(FID_TABNAME, f'after {label}: the number of $TABLE records is unchanged', f'{a!r} -> {b!r}')]
    m = re.search(r'\d+$', name)
    fails = []
    for x, y in zip(a, b):
        span = ref_table_file(x)
        fm = _NUMBERED_FILE.match(x[span[0]:span[1]]) if span else None
        if m is None or fm is None:
            if x != y:
                fails.append((FID_TABNAME, f'after {label}: a $TABLE record whose file name does not end in a number, and every '
                              '$TABLE record when the new model name does not end in a number, is preserved exactly',
                              f'{x!r} became {y!r}'))
            continue
        prefix, suffix = x[:span[0]], x[span[1]:]
        value = y[len(prefix):len(y) - len(suffix)] if len(y) >= len(prefix) + len(suffix) else None
        g = fm.groupdict()
        allowed = {x[span[0]:span[1]]} | {g['q'] + g['dir'] + g['head'] + n + g['ext'] + g['q']
                                          for n in (m.group(0), str(int(m.group(0))))}
        if not (y.startswith(prefix) and y.endswith(suffix) and value in allowed):
            fails.append((FID_TABNAME, f'after {label}: in a $TABLE record only the run number at the end of the file name changes, '
                          'to the run number of the model name (items, options, comments, layout, directory and extension of '
                          'the file name are preserved)', f'{x!r} became {y!r}'))
    return fails[:1] + [f for f in fails[1:] if f[1] != fails[0][1]][:1]


def problem_clauses(label, title, old, new):
    a = [c for k, c in old if k == 'PROBLEM']
    b = [c for k, c in new if k == 'PROBLEM']
    if len(a) != 1 or len(b) != 1:
        return [(FID_DESC, f'after {label}: the number of $PROBLEM records is unchanged', f'{a!r} -> {b!r}')]
    L, N = a[0].splitlines(keepends=True), b[0].splitlines(keepends=True)
    head = re.match(r'[ \t]*\$[A-Za-z]+', L[0]).group(0)
    eol = re.search(r'(\r?\n)?$', L[0]).group(0)
    ok = (N[1:] == L[1:] and N[0].startswith(head) and N[0].endswith(eol) and not N[0].endswith('\r' + eol)
          and N[0][len(head):len(N[0]) - len(eol)].strip(' \t') == title)
    if not ok:
        return [(FID_DESC, f'after {label}: in the $PROBLEM record only the title changes, to the new description (record name, '
                 'line end and the following comment lines are preserved)', f'{a[0]!r} became {b[0]!r}')]
    return []


def check_edit(text, edit, info, reread=False, tag=None):
    """Contract of update_source after one edit.  info describes where the edited component lives in
    the generated text: {'code_kind', 'line' / 'lo','hi' / 'symbol', 'rec_ordinal', 'token'}.
    Returns list of (fid, clause, detail)."""
    from pharmpy.modeling import read_model_from_string

    op = edit[0]
    label = EDIT_LABEL[op]
    try:
        try:
            model = read_model_from_string(text)
        except _syntax_errors():
            if tag:  # the text is not accepted: outside the precondition (see feature_tag)
                return [(FID_UPDATE, 'REJECTED', tag)]
            raise
        edited = apply_edit(model, edit)
        updated = edited.update_source()
        new_text = updated.code
        again = updated.update_source().code
        reread_text = read_model_from_string(new_text).update_source().code if reread else new_text
    except Exception as e:
        if isinstance(e, ValueError) and 'already set by evaluation=True' in str(e):
            # NOTE pharmpy deliberately refuses to generate code for a step that is an evaluation (MAXEVAL=0) and
            # is given another maximum number of evaluations: a refusal, outside the precondition of the clauses
            return []
        return [(FID_UPDATE, C_NOEXC, f'{label}: {type(e).__name__}: {str(e)[:200]!r}')]
    fails = []
    if new_text == text and op not in NO_EFFECT_NEEDED:
        fails.append((FID_UPDATE, C_EFFECT, f'{label}: code unchanged'))
    if again != new_text:
        fails.append((FID_UPDATE, C_EDIT_IDEM, f'{label}: ' + _first_diff(new_text, again)))
    if reread_text != new_text:
        fails.append((FID_UPDATE, C_REREAD, f'{label}: ' + _first_diff(new_text, reread_text)))
    old = ref_split(text)
    new = ref_split(new_text)
    if op == 'rename_model' and any(re.search(r'\.\w+\s*$', c[slice(*ref_table_file(c))]) for k, c in old
                                    if k == 'TABLE' and ref_table_file(c)):
        label = 'renaming the model (a $TABLE file name has an extension)'
    related = EDIT_KINDS.get(op) or (info['code_kind'],)
    if op == 'rename' and _rename_adjacent(old, edit[1]):
        label = 'rename_symbols of a symbol used in consecutive statements'
    if op == 'rename':
        related = tuple(k for k, c in old if k in ('PK', 'PRED', 'ERROR')
                        and _rename_units(c.splitlines(keepends=True), edit[1]))
    kinds = []
    for k, _ in old + new:
        if k not in kinds:
            kinds.append(k)
    old_kinds = {k for k, _ in old}
    added = [c for k, c in new if k not in old_kinds and k not in related]
    if added:
        fails.append((FID_UPDATE, f'after {label}: no record of another kind is added', f'added {added!r}'))
    for k in kinds:
        if k in related or k not in old_kinds:
            continue
        a = [c for kk, c in old if kk == k]
        b = [c for kk, c in new if kk == k]
        if a != b:
            what = 'text before the first record is' if k == '' else f'${k} records are'
            j = next((i for i in range(min(len(a), len(b))) if a[i] != b[i]), min(len(a), len(b)))
            fails.append((FID_UPDATE, f'after {label}: {what} preserved exactly',
                          f'{len(a)} -> {len(b)} records; ' + (f'{a[j]!r} became {b[j]!r}' if j < min(len(a), len(b))
                                                                else f'old {a[j:]!r} new {b[j:]!r}')))
    # relative order of the records that are present before and after
    a = [k for k, c in old if k not in related]
    b = [k for k, c in new if k not in related]
    if sorted(a) == sorted(b) and a != b:
        fails.append((FID_UPDATE, f'after {label}: preserved records keep their relative order', f'{a} -> {b}'))
    if op in IN_PLACE and [k for k, _ in old] != [k for k, _ in new]:
        fails.append((FID_UPDATE, f'after {label}: the sequence of record kinds is unchanged',
                      f'{[k for k, _ in old]} -> {[k for k, _ in new]}'))

    # same-kind records that do not hold the edited parameter / statement
    if op in ('set_theta', 'fix_theta', 'set_omega', 'fix_omega', 'set_sigma', 'fix_sigma'):
        k = related[0]
        a = [c for kk, c in old if kk == k]
        b = [c for kk, c in new if kk == k]
        r = info['rec_ordinal']
        fid = FID_THETA if k == 'THETA' else FID_OMEGA
        if len(a) == len(b):
            others_a = a[:r] + a[r + 1:]
            others_b = b[:r] + b[r + 1:]
            if others_a != others_b:
                fails.append((FID_UPDATE, f'after {label}: ${k} records not holding the edited parameter are preserved exactly',
                              f'{others_a!r} -> {others_b!r}'))
            tok = info['token']
            i = a[r].index(tok)
            prefix, suffix = a[r][:i], a[r][i + len(tok):]
            if not (b[r].startswith(prefix) and b[r].endswith(suffix) and len(b[r]) >= len(prefix) + len(suffix)):
                fails.append((fid, f'after {label}: inside the edited ${k} record everything but the edited value is preserved '
                              '(comments, other values, layout)', f'{a[r]!r} became {b[r]!r}'))
        else:
            fails.append((FID_UPDATE, f'after {label}: the number of ${k} records is unchanged', f'{a!r} -> {b!r}'))
    if op in EST_EDITS:
        fails += table_clauses_est(label, edit, old, new)
    if op == 'rename_model':
        fails += table_clauses_rename(label, edit[1], old, new)
    if op == 'set_description':
        fails += problem_clauses(label, edit[1], old, new)
    if op in ('modify', 'remove', 'insert', 'rename'):
        code_kinds = related
        for k in code_kinds:
            a = [c for kk, c in old if kk == k]
            b = [c for kk, c in new if kk == k]
            if len(a) != 1 or len(b) != 1:
                fails.append((FID_UPDATE, f'after {label}: the number of ${k} records is unchanged', f'{a!r} -> {b!r}'))
                continue
            L = a[0].splitlines(keepends=True)
            N = b[0].splitlines(keepends=True)
            if op == 'rename':
                ed = set()
                for a0, a1 in _rename_units(L, edit[1]):
                    ed.update(range(a0, a1 + 1))
                ok = lines_preserved(L, N, sorted(ed))
            elif op == 'insert':
                ok = lines_inserted(L, N, info['lo'], info['hi'])
            else:
                ok = lines_preserved(L, N, info['lines'], removed=(op == 'remove'))
            if not ok:
                fails.append((FID_CODE, f'after {label}: inside the edited code record all other lines (statements, comments, '
                              'verbatim, blank) are preserved exactly and in order', f'{a[0]!r} became {b[0]!r}'))
    return fails


def check_identity(text, tag=None):
    from pharmpy.modeling import read_model_from_string

    try:
        try:
            model = read_model_from_string(text)
        except _syntax_errors():
            if tag:  # the text is not accepted: outside the precondition (see feature_tag)
                return [(FID_UPDATE, 'REJECTED', tag)]
            raise
        code0 = model.code
        m1 = model.update_source()
        code1 = m1.code
        code2 = m1.update_source().code
    except Exception as e:
        return [(FID_UPDATE, C_NOEXC, f'unmodified model: {type(e).__name__}: {str(e)[:200]!r}')]
    fails = []
    if code0 != text:
        fails.append((FID_UPDATE, C_READ, _first_diff(text, code0)))
    if code1 != text:
        fails.append((FID_UPDATE, C_IDENT, _first_diff(text, code1)))
    if code2 != code1:
        fails.append((FID_UPDATE, C_IDEM, _first_diff(code1, code2)))
    return fails


# ---- case construction ---------------------------------------------------------------------------

# $THETA records in which a repeated theta `(...)xn` (n parameters written once) stands next to further
# thetas.  The reference knows how many parameters every item it writes stands for (NM-TRAN: `(value)xn`
# is n thetas with that value), so it knows which item holds the k-th parameter.
THETA_REPEATS = ('(0.75)x2', '(0,0.5) x2', '(0.25,1.5,4)x3', '(0,0.5)x2', '(0.25,1.5,4)x2', '(1.5 FIX)x2', '(0.25,1.5,4) x2')
THETA_REPEATS_QUICK = THETA_REPEATS[:4]
THETA_REPEAT2 = '(2.25)x2'  # a second repeat of the same record
THETA_SINGLES = ('(0,1.25)', '(0.5,2.5,7)', '3.5')


def theta_item_count(token):
    """number of parameters an item of a $THETA record stands for"""
    m = re.search(r'\)\s*[xX]\s*(\d+)$', token)
    return int(m.group(1)) if m else 1


def theta_param_layout(thetas):
    """[(ordinal of the $THETA record, item text, repeat count of the item)] per parameter, in order"""
    out = []
    for r, (toks, _) in enumerate(thetas):
        for tok in toks:
            n = theta_item_count(tok)
            out += [(r, tok, n)] * n
    return out


def theta_repeat_templates():
    """item sequences: every order of one repeat R and one or two single thetas S in ONE record, every split of
    these sequences into two consecutive records, and two repeats (R, Q) with one single in one record"""
    seqs = [('R', 'S'), ('S', 'R'), ('R', 'S', 'S'), ('S', 'R', 'S'), ('S', 'S', 'R')]
    out = [[list(s)] for s in seqs]
    for s in seqs:
        for cut in range(1, len(s)):
            out.append([list(s[:cut]), list(s[cut:])])
    out += [[['R', 'Q', 'S']], [['R', 'S', 'Q']], [['S', 'R', 'Q']]]
    return out


def theta_repeat_layouts(tier):
    """[thetas] with thetas = [[item texts, comment] per record] (json-able)"""
    out = []
    for rep in (THETA_REPEATS_QUICK if tier == 'quick' else THETA_REPEATS):
        for tpl in theta_repeat_templates():
            k = 0
            thetas = []
            for r, rec in enumerate(tpl):
                toks = []
                for it in rec:
                    if it == 'S':
                        toks.append(THETA_SINGLES[k])
                        k += 1
                    else:
                        toks.append(rep if it == 'R' else THETA_REPEAT2)
                thetas.append([toks, 'TH%d' % (r + 1)])
            out.append(thetas)
    return out


def gen_theta_repeat_cases(tier):
    quick = tier == 'quick'
    option_flags = ('multiline', 'cmt_after', 'cmt_own', 'tabsep', 'crlf', 'trail_ws', 'lead_tab', 'abbrev', 'wsline',
                    'empty_between', 'no_final_nl')
    flagsets = [(), ('multiline',), ('cmt_after',)] if quick else [()] + [(f,) for f in option_flags]
    for base in (('advan',) if quick else ('advan', 'pred')):
        for thetas in theta_repeat_layouts(tier):
            # (a) identity
            for fl in flagsets:
                yield {'base': base, 'flags': list(fl), 'edit': None, 'thetas': thetas}
            # (b) single edits: every theta that is not written with a repeat count (C04 covers edits of the
            # repeated ones), and edits of other components (the $THETA records are then unrelated records)
            layout = theta_param_layout(thetas)
            for fl in flagsets[:1 if quick else 3]:
                for p, (_, _, n) in enumerate(layout):
                    if n == 1:
                        yield {'base': base, 'flags': list(fl), 'edit': ['set_theta', p], 'thetas': thetas}
                        yield {'base': base, 'flags': list(fl), 'edit': ['fix_theta', p], 'thetas': thetas}
                yield {'base': base, 'flags': list(fl), 'edit': ['set_omega', 1], 'thetas': thetas}
                first = SLOTS[base][1].split('=')[0]
                yield {'base': base, 'flags': list(fl), 'edit': ['modify', first], 'thetas': thetas,
                       'code_kind': 'PK' if base == 'advan' else 'PRED'}
                if not quick:
                    yield {'base': base, 'flags': list(fl), 'edit': ['set_est'], 'thetas': thetas}
                    yield {'base': base, 'flags': list(fl), 'edit': ['fix_sigma', 0], 'thetas': thetas}


# ---- (d) $TABLE layouts x model name / execution step edits, description edits ------------------------

# file names of $TABLE records by kind (one name per position of the table in the control stream)
TABLE_FILE_KINDS = {
    'num': ('FILE=sdtab1', 'FILE=patab1', 'FILE=cotab1'),  # ends in a run number
    'plain': ('FILE=simtab', 'FILE=mytab', 'FILE=outtab'),  # no number
    'ext': ('FILE=sdtab1.tab', 'FILE=patab1.csv', 'FILE=cotab1.tab'),  # run number and extension
    'none': (None, None, None),  # no FILE option (the table goes to the listing)
    'dir': ('FILE=tabs/sdtab1', 'FILE=tabs/patab1', 'FILE=tabs/cotab1'),  # in a directory
    'zero': ('FILE=sdtab01', 'FILE=patab001', 'FILE=cotab0'),  # leading zeros
    'plainext': ('FILE=sim.tab', 'FILE=my.csv', 'FILE=out.tab'),  # extension, no number
    'abbr': ('FIL=sdtab1', 'FIL=patab1', 'FIL=cotab1'),  # option name abbreviated
}
TABLE_FILE_KINDS_QUICK = ('num', 'plain', 'ext', 'none')
TABLE_COLUMNS = (['ID', 'TIME', 'DV'], ['ID', 'TIME'], ['ID', 'DV'])
TABLE_PAIR_PLACES = (('end', 'end'), ('pre_est', 'end'), ('pre_cov', 'end'), ('pre_est', 'pre_cov'))
MODEL_NAMES = ('run2', 'final', 'run007')  # ends in a run number / does not / number with leading zeros
TABLE_LAYOUT_FLAGS = ('multiline', 'cmt_after', 'cmt_own', 'eqspace', 'tabsep', 'crlf', 'empty_between', 'abbrev')


def _named_table(kind, i, place):
    f = TABLE_FILE_KINDS[kind][i]
    return [place, TABLE_COLUMNS[i] + ['NOAPPEND', 'NOPRINT'] + ([f] if f else [])]


def gen_table_rename_cases(tier):
    """model name edits x $TABLE layouts: every kind of file name alone, every ordered pair of kinds x the places of
    the two tables (adjacent, or separated by $ESTIMATION / $COVARIANCE records), triples of numbered / unnumbered
    names, and layout variants of the records"""
    quick = tier == 'quick'
    kinds = TABLE_FILE_KINDS_QUICK if quick else tuple(TABLE_FILE_KINDS)
    names = MODEL_NAMES[:2] if quick else MODEL_NAMES
    for base in (('advan',) if quick else ('advan', 'pred')):
        for k in TABLE_FILE_KINDS:
            for name in names:
                yield {'base': base, 'flags': [], 'edit': ['rename_model', name], 'tables': [_named_table(k, 0, 'end')]}
        for k1, k2 in itertools.product(kinds, repeat=2):
            for p1, p2 in TABLE_PAIR_PLACES:
                for name in names:
                    yield {'base': base, 'flags': [], 'edit': ['rename_model', name],
                           'tables': [_named_table(k1, 0, p1), _named_table(k2, 1, p2)]}
        for ks in itertools.product(('num', 'plain') if quick else TABLE_FILE_KINDS_QUICK, repeat=3):
            for places in ((('end', 'end', 'end'),) if quick else (('end', 'end', 'end'), ('pre_est', 'pre_cov', 'end'))):
                yield {'base': base, 'flags': [], 'edit': ['rename_model', names[0]],
                       'tables': [_named_table(k, i, places[i]) for i, k in enumerate(ks)]}
        for fl in TABLE_LAYOUT_FLAGS:
            for k1, k2 in ((('num', 'plain'), ('plain', 'num')) if quick else itertools.product(TABLE_FILE_KINDS_QUICK, repeat=2)):
                yield {'base': base, 'flags': [fl], 'edit': ['rename_model', names[0]],
                       'tables': [_named_table(k1, 0, 'end'), _named_table(k2, 1, 'end')]}


# items of a $TABLE record that are a proper prefix (shorter than an abbreviation) of an option pharmpy rewrites
TABLE_PREFIX_ITEMS = (None, 'F', 'FI', 'N', 'NO', 'O', 'ON')
# predictions / residuals listed in the table (some a prefix of another, C and CW a prefix of all conditional ones)
TABLE_PRED_SETS = ([], ['IPRED', 'CWRES'], ['CWRES', 'CWRESI', 'IPRED'], ['CIPRED', 'CIPREDI', 'PRED'],
                   ['CPRED', 'CPREDI', 'CRES', 'CRESI'], ['C', 'CW', 'IPRED', 'CWRESI'])
# (options before the columns, options after them)
TABLE_OPTION_LAYOUTS = (
    ([], ['NOAPPEND', 'NOPRINT', 'ONEHEADER', 'FILE=sdtab1']),
    ([], ['FILE=sdtab1', 'FORMAT=s1PE12.5', 'NOPRINT']),
    (['NOPRINT', 'FILE=sdtab1'], ['NOAPPEND']),
    ([], ['NOAPPEND']),
)


def _est_table(x, preds, optlayout):
    pre, post = optlayout
    return list(pre) + ['ID', 'TIME', 'DV'] + ([x] if x else []) + list(preds) + list(post)


def _est_edits(tokens, few=False):
    """execution step edits applicable to a model whose (last) table lists `tokens`"""
    edits = [['set_est'], ['set_est_opt', 'maximum_evaluations', 100], ['remove_cov'], ['add_res', 'IWRES']]
    if not few:
        edits += [['add_est', None], ['eval_step'], ['append_est_opt', 'SADDLE_RESET', 1]]
    add = next((p for p in ('CIPREDI', 'IPRED') if p not in tokens), None)
    if add:
        edits.append(['add_pred', add])
    # (pharmpy's model knows the predictions / residuals of these two lists)
    preds = [t for t in tokens if t in ('PRED', 'CPRED', 'CPREDI', 'CIPRED', 'CIPREDI', 'IPRED')]
    ress = [t for t in tokens if t in ('RES', 'WRES', 'CRES', 'CWRES', 'CRESI', 'CWRESI')]
    edits += [['rm_pred', p] for p in preds] + [['rm_res', r] for r in ress]
    if preds:
        edits.append(['rm_pred', None])
    if ress:
        edits.append(['rm_res', None])
    return edits


def gen_table_est_cases(tier):
    """execution step edits x contents of the last $TABLE record (items that are a prefix of a rewritten option or
    of a dropped prediction/residual, options before/after the columns), x a further $TABLE record, x layout variants"""
    quick = tier == 'quick'
    X, R, O = TABLE_PREFIX_ITEMS, TABLE_PRED_SETS, TABLE_OPTION_LAYOUTS
    # every (prefix item, option layout) and every (prediction set, option layout) pair, the third one cycling
    combos = [(x, R[(i + j) % len(R)], o) for i, x in enumerate(X) for j, o in enumerate(O)]
    combos += [(X[(i + j + 1) % len(X)], r, o) for i, r in enumerate(R) for j, o in enumerate(O)]
    quick_combos = combos
    for base in (('advan',) if quick else ('advan', 'pred')):
        # thorough: every (prefix item, prediction set, option layout) triple on the first base model
        combos = quick_combos if quick or base == 'pred' else list(itertools.product(X, R, O))
        seen = []
        for x, r, o in combos:
            toks = _est_table(x, r, o)
            if toks in seen:
                continue
            seen.append(toks)
            for edit in _est_edits(toks, few=quick):
                yield {'base': base, 'flags': [], 'edit': edit, 'tables': [['end', toks]]}
        # a further table that is not the last one (it is not rewritten)
        first = ['ID', 'F', 'NO', 'IPRED', 'CWRESI', 'CWRES', 'NOPRINT', 'ONEHEADER', 'FILE=patab1']
        # (not between $ESTIMATION and $COVARIANCE: pharmpy writes the $COVARIANCE record, which expresses the edited
        # execution steps as well, anew behind the last $ESTIMATION record)
        for place in ('end', 'pre_est'):
            for toks in (_est_table(None, [], O[0]), _est_table('F', R[2], O[1])):
                for edit in _est_edits(first + toks, few=quick):
                    yield {'base': base, 'flags': [], 'edit': edit, 'tables': [[place, first], ['end', toks]]}
        for fl in TABLE_LAYOUT_FLAGS:
            for toks in (_est_table('F', R[2], O[0]), _est_table('NO', R[3], O[2])):
                for edit in (['set_est'], ['rm_pred', 'IPRED' if 'IPRED' in toks else 'PRED'], ['add_res', 'IWRES']):
                    yield {'base': base, 'flags': [fl], 'edit': edit, 'tables': [['end', toks]]}


def gen_attribute_cases(tier):
    """model name and description edits x layout variants of the base models (default tables)"""
    quick = tier == 'quick'
    for base in ('advan', 'pred'):
        for fl in _flag_sets(MODEL_FLAGS, 1 if quick else 2):
            for name in MODEL_NAMES[:2]:
                yield {'base': base, 'flags': list(fl), 'edit': ['rename_model', name]}
            yield {'base': base, 'flags': list(fl), 'edit': ['set_description', 'another title']}
            if 'multi' in fl:
                yield {'base': base, 'flags': list(fl), 'edit': ['remove_est', 0]}
                yield {'base': base, 'flags': list(fl), 'edit': ['remove_est', 1]}
            if len(fl) < 2:
                for edit in (['set_est_opt', 'maximum_evaluations', 100], ['eval_step'], ['append_est_opt', 'SADDLE_RESET', 1],
                             ['add_pred', 'IPRED'], ['add_res', 'CWRES']):
                    yield {'base': base, 'flags': list(fl), 'edit': edit}


# ---- (e) edits of the options of one record: the methods of OptionRecord that update_source builds on ----

FID_OPTREC = NM + 'records/option_record.py:OptionRecord.'
O_NOEXC = 'editing the options of a parsed record raises no exception'
O_FRAME = 'the record the method is called on is left as it is (a new record is returned)'
_O_REST = ('the other options (also those whose key is a prefix or an extension of it), their order and values, the comments '
           'and the record name are preserved')
O_CLAUSES = {
    'remove_option': 'remove_option(key) removes exactly the options whose key is key; ' + _O_REST,
    'remove_option_startswith': 'remove_option_startswith(s) removes exactly the options whose key starts with s; ' + _O_REST,
    'set_option': 'set_option(key, value) gives the first option whose key is key the value, or appends key=value behind the '
                  'last option when there is none; ' + _O_REST,
    'replace_option': 'replace_option(old, new) renames exactly the options whose key is old; ' + _O_REST,
    'append_option': 'append_option(key, value) adds the option behind the last option; ' + _O_REST,
}
# per record kind: items / options, among them keys that are a proper prefix of another key of the record
OPTREC_ALPHABETS = {
    'TABLE': ('ID', 'F', 'FILE=sdtab1', 'NO', 'NOPRINT', 'CWRES', 'CWRESI', 'FORMAT = s1PE12.5'),
    'ESTIMATION': ('METHOD=1', 'METH=COND', 'MAXEVAL=9999', 'MAXEVALS = 0', 'INTER', 'INTERACTION', 'PRINT=1', 'M'),
    'SUBROUTINES': ('ADVAN1', 'ADVAN13', 'TRANS2', 'TRANS', 'TOL=5', 'T', 'ADVAN=ADVAN6', 'TOLC'),
    'INPUT': ('ID', 'TIME', 'DV', 'D', 'DVX', 'WGT=DROP', 'DV=LNDV', 'TIM'),
}
OPTREC_NAMES = {'TABLE': ('$TABLE', '$TAB'), 'ESTIMATION': ('$ESTIMATION', '$EST'), 'SUBROUTINES': ('$SUBROUTINES', '$SUBS'),
                'INPUT': ('$INPUT', '$INP')}
# (text between the record name and the first option, separators (cycling), text after the last option)
OPTREC_LAYOUTS = ((' ', (' ',), '\n'), ('\n  ', (' ; c1\n', '\t', '\n '), ' ; end\n'), ('  ', ('  ', ' ;c\n'), ''))
OPTREC_NEW = (('NEWOPT', None), ('FILE', 'x1'), ('F', None), ('ADVAN', None), ('MAXEVAL', '5'))


def _norm_token(t):
    return re.sub(r'\s*=\s*', '=', t)


def optrec_text(kind, tokens, layout):
    lead, seps, tail = OPTREC_LAYOUTS[layout]
    name = OPTREC_NAMES[kind][layout % 2]
    if not tokens:
        return name + tail
    return name + lead + _join_cycle(list(tokens), seps, 0) + tail


def optrec_args(kind, method):
    """the arguments the method is tried with: every key of the alphabet of the record kind, and an absent one"""
    keys = []
    for t in OPTREC_ALPHABETS[kind]:
        if _key(_norm_token(t)) not in keys:
            keys.append(_key(_norm_token(t)))
    keys.append('ZZZ')
    if method == 'remove_option':
        return [(k,) for k in keys]
    if method == 'remove_option_startswith':
        starts = []
        for k in keys:
            for st in (k[:1], k[:3], k):
                if st not in starts:
                    starts.append(st)
        return [(st,) for st in starts]
    if method == 'set_option':
        return [(k, 'NEWV') for k in keys]
    if method == 'replace_option':
        return [(k, 'REPL') for k in keys]
    return list(OPTREC_NEW)


def ref_optrec_result(method, args, tokens):
    """the options of the record after the method, from the options before (normalised KEY=VALUE strings)"""
    if method == 'remove_option':
        return [t for t in tokens if _key(t) != args[0]]
    if method == 'remove_option_startswith':
        return [t for t in tokens if not _key(t).startswith(args[0])]
    if method == 'set_option':
        i = next((i for i, t in enumerate(tokens) if _key(t) == args[0]), None)
        new = f'{args[0]}={args[1]}'
        return tokens + [new] if i is None else tokens[:i] + [new] + tokens[i + 1:]
    if method == 'replace_option':
        return [args[1] + t[len(args[0]):] if _key(t) == args[0] else t for t in tokens]
    return tokens + [args[0] if args[1] is None else f'{args[0]}={args[1]}']


def check_optrec(case):
    """Contract of one method of OptionRecord on one record text, for every argument of optrec_args()."""
    from pharmpy.model.external.nonmem.records.factory import create_record

    kind, tokens, layout = case['optrec']
    method = case['method']
    text = optrec_text(kind, tokens, layout)
    fid = FID_OPTREC + method
    try:
        rec = create_record(text)
    except Exception as e:
        return [(FID_CREATE, C_ACCEPT, f'{type(e).__name__}: {str(e)[:160]!r} for record text {text!r}')]
    toks = [_norm_token(t) for t in tokens]
    name = re.match(r'\$[A-Za-z]+', text).group(0)
    fails = {}
    for args in optrec_args(kind, method):
        what = f'{method}{args!r} on {text!r}'
        if method == 'set_option' and next((t for t in toks if _key(t) == args[0]), '=') == args[0]:
            continue  # precondition: an existing option key has a value that can be replaced (KEY=VALUE)
        try:
            out = str(getattr(rec, method)(*args))
        except Exception as e:
            fails.setdefault((fid, O_NOEXC), f'{what}: {type(e).__name__}: {str(e)[:160]!r}')
            continue
        if str(rec) != text:
            fails.setdefault((fid, O_FRAME), f'{what}: the record became {str(rec)!r}')
            rec = create_record(text)
        want = ref_optrec_result(method, args, toks)
        got = ref_option_tokens(out)
        if got != want or ref_comments(out) != ref_comments(text) or re.match(r'\$[A-Za-z]+', out).group(0) != name:
            fails.setdefault((fid, O_CLAUSES[method]), f'{what}: expected the options {want}, got {got} in {out!r}')
    return [(f, c, d) for (f, c), d in fails.items()]


def gen_optrec_cases(tier):
    maxlen = 2 if tier == 'quick' else 3
    for kind, alphabet in OPTREC_ALPHABETS.items():
        for seq in _seqs(alphabet, maxlen, 0):
            for layout in range(len(OPTREC_LAYOUTS)):
                if len(seq) == 3 and layout != (alphabet.index(seq[0]) + alphabet.index(seq[2])) % 3:
                    continue
                for method in O_CLAUSES:
                    yield {'optrec': [kind, list(seq), layout], 'method': method}


def us_case_text(case):
    """case -> (text, edit, info)"""
    base = case['base']
    flags = tuple(case['flags'])
    kw = {}
    info = {}
    edit = case.get('edit')
    if case.get('decor') is not None:
        lines, pos, tail_start, last = code_body(base, case['decor'])
        kw['pk_body'] = lines
        info['body'] = (lines, pos, tail_start, last)
    if case.get('cov') is False:
        kw['cov'] = False
    if case.get('thetas') is not None:
        kw['thetas'] = [(list(toks), cmt) for toks, cmt in case['thetas']]
    if case.get('tables') is not None:
        kw['tables'] = [(where, list(toks)) for where, toks in case['tables']]
    recs = build_records(base, flags, model=True, **kw)
    text, pre, chunks = render(recs, flags)
    if edit is None:
        return text, None, info
    op = edit[0]
    code_kind = 'PK' if base == 'advan' else 'PRED'
    info['code_kind'] = code_kind
    if op in ('modify', 'remove', 'insert'):
        if case.get('decor') is not None:
            lines, pos, tail_start, last = info['body']
            off = 1  # the record name line
            syms = [_symbol_of(s) for s in SLOTS[base]]
            if op == 'insert':
                if edit[1] is None:
                    info['lo'], info['hi'] = 1, pos[0] + off
                else:
                    k = syms.index(edit[1])
                    nxt = pos[k + 1] if k + 1 < len(pos) else tail_start
                    info['lo'], info['hi'] = pos[k] + off + 1, nxt + off
            elif edit[1] == LAST_STATEMENT[base]:
                info['lines'] = [last + off]
            elif edit[1] in syms:
                info['lines'] = [pos[syms.index(edit[1])] + off]
            else:
                raise ValueError(edit)
        else:
            # the statement is located in the rendered record by its text
            kind = case.get('code_kind', code_kind)
            info['code_kind'] = kind
            chunk = next(c for k, c in chunks if k == kind)
            L = chunk.splitlines(keepends=True)
            idx = [i for i, ln in enumerate(L)
                   if re.match(r'(?:[ \t]*\$\w+[ \t\x00]+)?[ \t\x00]*' + re.escape(edit[1]) + r'[ \t\x00]*=', ln)]
            first = idx[0]
            # continuation lines belong to the statement
            span = [first]
            while L[span[-1]].rstrip().endswith('&'):
                span.append(span[-1] + 1)
            if op == 'insert':
                nxt = span[-1] + 1
                while nxt < len(L) and (not L[nxt].strip(' \t\x00\r\n') or L[nxt].lstrip().startswith((';', '"'))):
                    nxt += 1
                info['lo'], info['hi'] = span[-1] + 1, nxt
            else:
                info['lines'] = span
    if op in ('set_theta', 'fix_theta'):
        if case.get('thetas') is not None:
            layout = theta_param_layout(case['thetas'])
            if layout[edit[1]][2] != 1:
                raise ValueError(f'{edit}: the parameter is written with a repeat count')
            layout = [(r, tok) for r, tok, _ in layout]
        elif base == 'advan':
            layout = [(0, '(0,0.00469307)'), (1, '(0,1.00916)'), (2, '(-.99,.1)')]
        else:
            layout = [(0, '(0,5)'), (0, '(0.1)'), (1, '(-.99,.1,10)')]
        info['rec_ordinal'], info['token'] = layout[edit[1]]
    if op in ('set_omega', 'fix_omega'):
        info['rec_ordinal'], info['token'] = [(0, '0.0309626'), (1, '0.031128')][edit[1]]
    if op in ('set_sigma', 'fix_sigma'):
        info['rec_ordinal'], info['token'] = 0, '0.013241'
    return text, edit, info


def record_edits(base):
    """edits whose target is a whole record / parameter (independent of the code layout)"""
    edits = []
    for i in range(3):
        edits += [['set_theta', i], ['fix_theta', i]]
    for i in range(2):
        edits += [['set_omega', i], ['fix_omega', i]]
    edits += [['set_sigma', 0], ['fix_sigma', 0]]
    edits += [['set_est'], ['add_est', None], ['add_est', 0], ['remove_cov']]
    return edits


def code_edits_plain(base):
    """code edits on the base model bodies (statement located by text)"""
    if base == 'advan':
        return [
            (['modify', 'TVCL'], 'PK'), (['modify', 'TVV'], 'PK'), (['modify', 'V'], 'PK'), (['modify', 'S1'], 'PK'),
            (['insert', 'TVCL'], 'PK'), (['insert', 'CL'], 'PK'), (['rename', 'TVCL'], 'PK'), (['rename', 'TVV'], 'PK'),
            (['modify', 'W'], 'ERROR'), (['modify', 'IPRED'], 'ERROR'), (['remove', 'IPRED'], 'ERROR'),
            (['insert', 'W'], 'ERROR'), (['rename', 'W'], 'ERROR'),
        ]
    return [
        (['modify', 'TVB'], 'PRED'), (['modify', 'BASE'], 'PRED'), (['modify', 'SLP'], 'PRED'), (['modify', 'Y'], 'PRED'),
        (['insert', 'TVB'], 'PRED'), (['insert', 'W'], 'PRED'), (['rename', 'BASE'], 'PRED'), (['rename', 'W'], 'PRED'),
    ]


# the edits of part (d)
TABLE_FAMILY_EDITS = ('rename_model', 'set_description', 'set_est_opt', 'eval_step', 'append_est_opt', 'remove_est',
                      'add_pred', 'add_res', 'rm_pred', 'rm_res')


def _is_table_family(case):
    return case.get('tables') is not None or (case['edit'] is not None and case['edit'][0] in TABLE_FAMILY_EDITS)


def gen_us_cases(tier):
    for case in _gen_us_cases(tier):
        if case['edit'] is not None and (tier != 'quick' or (not case['flags'] and case.get('decor') is None
                                                            and case.get('tables') is None)):
            case['reread'] = True
        yield case
    # (e) edits of the options of single records (no model)
    yield from gen_optrec_cases(tier)


def _gen_us_cases(tier):
    quick = tier == 'quick'
    # (a) identity
    for base in ('advan', 'pred'):
        for fl in _flag_sets(MODEL_FLAGS, 2 if quick else 3):
            yield {'base': base, 'flags': list(fl), 'edit': None}
    # (b1) record level edits and code edits x layout variants
    code_flags = ('crlf', 'trail_ws', 'sameline', 'cont', 'verbatim', 'cmt_code', 'blank_code', 'ifblock')
    for base in ('advan', 'pred'):
        for fl in _flag_sets(MODEL_FLAGS, 1 if quick else 2):
            for edit in record_edits(base):
                yield {'base': base, 'flags': list(fl), 'edit': edit}
            yield {'base': base, 'flags': list(fl), 'edit': ['add_cov'], 'cov': False}
            if len(fl) < 2 or all(f in code_flags for f in fl):
                for edit, kind in code_edits_plain(base):
                    yield {'base': base, 'flags': list(fl), 'edit': edit, 'code_kind': kind}
    # (b2) code edits x decorations around the edited statement
    D = DECOR_QUICK if quick else DECOR_THOROUGH
    for base in ('advan', 'pred'):
        syms = [_symbol_of(s) for s in SLOTS[base]]
        edits = [(['modify', s], k, k + 1) for k, s in enumerate(syms)]
        edits += [(['remove', syms[0]], 0, 1), (['remove', syms[2]], 2, 3)]
        edits += [(['insert', None], 0, 0)] + [(['insert', s], k + 1, k + 1) for k, s in enumerate(syms)]
        edits += [(['modify', LAST_STATEMENT[base]], 4, 5)]
        edits += [(['rename', syms[1]], 1, 2)]
        flagsets = [()] if quick else [(), ('crlf',)]
        for fl in flagsets:
            for edit, g1, g2 in edits:
                for d1 in D:
                    for d2 in (D if g2 != g1 else ('-',)):
                        others = ('-', 'C', 'V') if not quick else (None,)
                        for j, do in enumerate(others):
                            decor = [D[(i + len(d1) + len(d2)) % len(D)] for i in range(6)]
                            if do is not None:
                                decor[(g2 + 1) % 6] = do
                            decor[g1] = d1
                            if g2 != g1:
                                decor[g2] = d2
                            yield {'base': base, 'flags': list(fl), 'edit': edit, 'decor': decor}
    # (c) $THETA records mixing `(...)xn` repeats with further thetas: identity and single edits
    yield from gen_theta_repeat_cases(tier)
    # (d) $TABLE layouts x model name / execution step edits; name, description and execution step edits x layouts
    yield from gen_table_rename_cases(tier)
    yield from gen_table_est_cases(tier)
    yield from gen_attribute_cases(tier)


def _us_worker(case):
    if 'optrec' in case:
        res = check_optrec(case)
        size = len(optrec_text(*case['optrec']))
        return [(f, c, d + f' [case {case}]', case, size) for f, c, d in res], True
    try:
        text, edit, info = us_case_text(case)
    except Exception as e:  # generator problem: report loudly
        return [(FID_UPDATE, 'CHECKER ERROR', f'{type(e).__name__}: {e} for {case}', case, 0)], False
    tag = None
    if case.get('thetas') is not None:
        # `(...)xn` is one of the exotic features of feature_tag(): a text the parser rejects is outside the precondition
        tag = next((t for t in (feature_tag(k, c) for k, c in ref_split(text) if k == 'THETA') if t), None)
    if edit is None:
        res = check_identity(text, tag)
    else:
        res = check_edit(text, edit, info, reread=bool(case.get('reread')), tag=tag)
    size = len(case['flags']) * 10**6 + len(text)
    return [(f, c, d if c == 'REJECTED' else d + f' [case {case}]', case, size) for f, c, d in res], True


def bounded_update_source(tier):
    import multiprocessing as mp

    seen = set()
    cases = []
    for c in gen_us_cases(tier):
        key = repr(sorted(c.items()))
        if key not in seen:
            seen.add(key)
            cases.append(c)
    fails = {}
    also = {}
    pos = {repr(sorted(c.items())): i for i, c in enumerate(cases)}

    def order(case):
        return pos[repr(sorted(case.items()))]

    n_opt = sum(1 for c in cases if 'optrec' in c)
    n_opt_rec = len({repr(c['optrec']) for c in cases if 'optrec' in c})
    cases_d = [c for c in cases if 'optrec' not in c and _is_table_family(c)]
    cases_abc = [c for c in cases if 'optrec' not in c and not _is_table_family(c)]
    n_d_tab = sum(1 for c in cases_d if c.get('tables') is not None)
    n_rep = sum(1 for c in cases_abc if c.get('thetas') is not None)
    n_rep_ident = sum(1 for c in cases_abc if c.get('thetas') is not None and c['edit'] is None)
    n_ident = sum(1 for c in cases_abc if c['edit'] is None) - n_rep_ident
    rejected = {}
    ctx = mp.get_context('fork')
    with ctx.Pool(NPROC, initializer=_pool_init) as pool:
        for res, _ in pool.imap_unordered(_us_worker, cases, chunksize=4):
            _collect(fails, res, rejected, also, order)
    nrejected = sum(n for n, _, _ in rejected.values())
    return {
        'cases': len(cases),
        'nontrivial': len(cases) - nrejected,
        'bound': f'{n_ident} unmodified models (2 base models x all subsets of <= {2 if tier == "quick" else 3} of '
        f'{len(MODEL_FLAGS)} layout variants) + {len(cases_abc) - n_ident - n_rep} single edits: 18 parameter/estimation/covariance '
        f'edits (each theta, omega, sigma: set_initial_estimates, fix_parameters; set/add_estimation_step; add/remove '
        f'parameter uncertainty step) and 8-13 statement edits (change/add/remove/rename in $PK, $ERROR, $PRED) x layout '
        f'variant subsets of size <= {1 if tier == "quick" else 2}, and 14 statement edits (change/remove/add/rename at '
        f'every slot of a 4+ statement record) x all pairs of {len(DECOR_QUICK if tier == "quick" else DECOR_THOROUGH)} '
        f'comment/verbatim/blank decorations directly above and below the edited statement; + {n_rep} cases on '
        f'{len(theta_repeat_layouts(tier))} $THETA layouts mixing a repeat (...)xn ({len(THETA_REPEATS_QUICK if tier == "quick" else THETA_REPEATS)} '
        f'spellings) with 1-2 further thetas or a second repeat (every order, one record or split over two records): '
        f'{n_rep_ident} unmodified models (x {3 if tier == "quick" else 12} layout variants) and {n_rep - n_rep_ident} single edits '
        f'(set_initial_estimates / fix_parameters of every theta not written with a repeat, one omega, one statement'
        f'{"" if tier == "quick" else ", estimation step, sigma"}); {nrejected} of these cases use a spelling the parser rejects '
        f'(outside the precondition); + {len(cases_d)} single edits of the model name ({len(MODEL_NAMES[:2] if tier == "quick" else MODEL_NAMES)} '
        f'names with / without a run number), the description and the execution steps (set_estimation_step method / option, '
        f'add / remove_estimation_step, set_evaluation_step, append_estimation_step_options, remove_parameter_uncertainty_step, '
        f'add / remove_predictions, add / remove_residuals): {n_d_tab} on generated $TABLE layouts (1-3 $TABLE records x '
        f'{len(TABLE_FILE_KINDS_QUICK if tier == "quick" else TABLE_FILE_KINDS)} kinds of file name (all {len(TABLE_FILE_KINDS)} for a '
        f'single table) x {len(TABLE_PAIR_PLACES)} placements relative to $ESTIMATION / $COVARIANCE; last $TABLE with '
        f'{len(TABLE_PREFIX_ITEMS) - 1} items that are a prefix of an option x {len(TABLE_PRED_SETS)} sets of predictions/residuals x '
        f'{len(TABLE_OPTION_LAYOUTS)} option layouts{" (all pairs)" if tier == "quick" else ""}, alone or behind a further $TABLE; x '
        f'{len(TABLE_LAYOUT_FLAGS)} layout variants for some) and {len(cases_d) - n_d_tab} on the base models x layout variant subsets '
        f'of size <= {1 if tier == "quick" else 2}; + {n_opt} record level cases: 5 option editing methods of OptionRecord '
        f'(remove_option, remove_option_startswith, set_option, replace_option, append_option; each with every key of the '
        f'alphabet and an absent one) x {n_opt_rec} record texts (all sequences of <= {2 if tier == "quick" else 3} of 8 '
        f'items/options x {len(OPTREC_ALPHABETS)} record kinds x {len(OPTREC_LAYOUTS)} layouts)',
        'samples': [repr(cases[1]), repr(cases[n_ident + 3]), repr(cases[-1])],
        'fails': _fails_list(fails, 'bounded_update_source_replay', also),
    }


def bounded_update_source_replay(rp):
    case = dict(rp['case'])
    fid, clause = case.pop('fid', None), case.pop('clause', None)
    res, _ = _us_worker(case)
    res = [r for r in res if (r[0], r[1]) == (fid, clause)]
    if res:
        return (False, res[0][1] + ': ' + res[0][2])
    return (True, 'ok')
