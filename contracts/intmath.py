"""Contracts for src/pharmpy/internals/math.py (serves C20, C04)."""
from pyvc.api import *

M = ModuleSpec('src/pharmpy/internals/math.py', prop='C20')
TRUSTED = ['math.sqrt is the exact real square root (floating point rounding ignored: for triangular '
           'numbers below 2**52 the nearest double of sqrt(n*n + n) still lies in [n, n + 1))',
           'math.floor is the integer floor']


def _symbolic():
    import z3
    from pyvc import sym
    from pyvc.symexec import Val
    from pyvc.sym import TInt, TReal

    @M.intrinsic('math.sqrt')
    def _sqrt(ex, st, args, kwargs, node):
        x = ex.num(args[0])
        xt = z3.ToReal(x.t) if x.ty is TInt else x.t
        ex.safety(st, xt >= 0, 'sqrt of a non-negative number', node)
        s = z3.Real(sym.fresh_name('sqrt'))
        st.facts.add(z3.And(s >= 0, s * s == xt))
        return Val(TReal, s)

    @M.intrinsic('math.floor')
    def _floor(ex, st, args, kwargs, node):
        x = ex.num(args[0])
        return Val(TInt, z3.ToInt(x.t) if x.ty is TReal else x.t)


try:
    import z3  # noqa: F401
    _symbolic()
except ImportError:
    pass

M.contract(
    'triangular_root',
    params={'x': Int},
    returns=Int,
    # x is the n-th triangular number (the callers pass len() of a flattened lower triangle)
    requires=['x >= 0'],
    ensures=['all(implies(2 * x == n * (n + 1), result == n) for n in range(x + 1))'],
    domain='gen_triangular',
)


def gen_triangular(tier):
    for n in range(0, 200 if tier == 'quick' else 5000):
        yield {'x': n * (n + 1) // 2}
